#!/usr/bin/env python3
"""
check.py <Cxx> [--tier quick|thorough] [--replay FILE] [--update-obligations]

One skeleton for all properties (DESIGN.md section 3):
  1. regenerate Generated/Constants.lean from /repo                       (tie b)
  2. lake build the property's theorem module + the gdriver executable     (proof)
  3. audit: every obligation exists, statement hash unchanged, axioms accepted
  4. cargo build the harness against /repo's working tree (hook cfg on)
  5. correspondence: corpus + generated op lines -> impl / model / spec, three-way diff
  6. decide, write evidence/<id>.json, print KNOWN-FINDING / VIOLATION / OK lines

stdout carries only KNOWN-FINDING:, VIOLATION and OK lines; everything else goes to stderr.
"""
import argparse, hashlib, json, os, re, subprocess, sys, time

ROOT = os.path.dirname(os.path.abspath(__file__))
LEAN = os.path.join(ROOT, "lean")
HARNESS = os.path.join(ROOT, "harness")
VH = os.path.join(HARNESS, "target", "debug", "vh")
GDRIVER = os.path.join(LEAN, ".lake", "build", "bin", "gdriver")
REPLAYS = os.path.join(ROOT, "replays")
EVIDENCE = os.path.join(ROOT, "evidence")
ACCEPTED_AXIOMS = {"propext", "Classical.choice", "Quot.sound"}

sys.path.insert(0, os.path.join(ROOT, "tools"))
from props import PROPS  # noqa: E402


def log(*a):
    print(*a, file=sys.stderr, flush=True)


def run(cmd, cwd=None, inp=None, timeout=None, env=None):
    e = dict(os.environ)
    e["CARGO_NET_OFFLINE"] = "true"
    if env:
        e.update(env)
    p = subprocess.run(cmd, cwd=cwd, input=inp, capture_output=True, text=True, timeout=timeout, env=e)
    return p.returncode, p.stdout, p.stderr


# ----------------------------------------------------------------------------- lean side

def extract_constants():
    rc, out, err = run([sys.executable, os.path.join(ROOT, "tools", "extract.py")])
    if rc != 0:
        return False, (out + err).strip()
    # lock-order graph and rank certificate (C20), regenerated from the source as well
    rc2, out2, err2 = run([sys.executable, os.path.join(ROOT, "tools", "extract_locks.py")])
    if rc2 != 0:
        return False, (out2 + err2).strip()
    return True, out.strip() + "; " + out2.strip()


def lake_build(targets):
    rc, out, err = run(["lake", "build"] + targets, cwd=LEAN, timeout=3600)
    return rc == 0, out + err


def read_obligations(pid):
    """the property's obligations file plus those named in cfg["obligation_files"]"""
    names = [pid] + [n for n in PROPS.get(pid, {}).get("obligation_files", []) if n != pid]
    obs = []
    path = None
    for n in names:
        p = os.path.join(LEAN, "GrafeoModel", "Props", n + ".obligations")
        path = path or p
        for line in open(p):
            line = line.strip()
            if not line or line.startswith("#"):
                continue
            parts = line.split()
            obs.append({"name": parts[0], "kind": parts[1], "hash": parts[2] if len(parts) > 2 else "", "file": p})
    return path, obs


def audit(pid, cfg, update=False):
    """#check / #print axioms on every obligation through a generated file."""
    path, obs = read_obligations(pid)
    os.makedirs(os.path.join(LEAN, "GrafeoModel", "Audit"), exist_ok=True)
    audit_file = os.path.join(LEAN, "GrafeoModel", "Audit", pid + ".lean")
    with open(audit_file, "w") as f:
        for mod in [cfg["lean_module"]] + cfg.get("extra_modules", []):
            f.write("import %s\n" % mod)
        f.write("set_option pp.width 1000000\n")
        for o in obs:
            f.write('#eval IO.println "@@ %s"\n#check @%s\n#print axioms %s\n' % (o["name"], o["name"], o["name"]))
    rc, out, err = run(["lake", "env", "lean", audit_file], cwd=LEAN, timeout=1800)
    text = out + err
    chunks = {}
    cur = None
    for line in text.splitlines():
        if line.startswith("@@ "):
            cur = line[3:].strip()
            chunks[cur] = []
        elif cur is not None:
            chunks[cur].append(line)
    results = []
    axioms_used = set()
    changed = False
    for o in obs:
        name = o["name"]
        body = "\n".join(chunks.get(name, []))
        r = {"name": name, "kind": o["kind"], "ok": False, "why": ""}
        if name not in chunks or "unknown" in body.lower() and "constant" in body.lower():
            r["why"] = "theorem missing from the compiled environment"
            results.append(r)
            continue
        m = re.search(r"depends on axioms: \[(.*?)\]", body, re.S)
        if m:
            axs = [a.strip() for a in m.group(1).replace("\n", " ").split(",") if a.strip()]
        elif "does not depend on any axioms" in body:
            axs = []
        else:
            r["why"] = "could not read the axiom report: " + body[:200]
            results.append(r)
            continue
        stmt = body.split("'%s'" % name)[0]
        stmt = re.sub(r"\s+", " ", stmt).strip()
        h = hashlib.sha256(stmt.encode()).hexdigest()[:16]
        r["axioms"] = axs
        r["statement"] = stmt[:400]
        bad = [a for a in axs if a not in ACCEPTED_AXIOMS and not (cfg.get("allow_bv_decide") and "._native.bv_decide.ax" in a)]
        if "sorryAx" in axs or bad:
            r["why"] = "unaccepted axioms: " + ",".join(bad or ["sorryAx"])
        elif update:
            if o["hash"] != h:
                changed = True
            o["hash"] = h
            r["ok"] = True
        elif o["hash"] != h:
            r["why"] = "statement hash changed (%s recorded, %s now) — statement edited without updating the obligations file" % (o["hash"], h)
        else:
            r["ok"] = True
        for a in axs:
            axioms_used.add(a)
        results.append(r)
    if update:
        for fp in sorted(set(o["file"] for o in obs)):
            with open(fp, "w") as f:
                f.write("# name kind statement-hash   (kinds: full partial witness nonvacuity)\n")
                for o in obs:
                    if o["file"] == fp:
                        f.write("%s %s %s\n" % (o["name"], o["kind"], o["hash"]))
        log("obligations file rewritten" + (" (hashes changed)" if changed else ""))
    return results, sorted(axioms_used)


def grep_audit(cfg):
    """no sorry/admit/axiom/native_decide/... outside comments in the property's Lean files."""
    bad = []
    pat = re.compile(r"\bsorry\b|\badmit\b|^axiom\s|native_decide|implemented_by|\bunsafe\s|maxHeartbeats\s+0")
    for rel in cfg["lean_files"]:
        p = os.path.join(LEAN, rel)
        if not os.path.exists(p):
            bad.append(rel + ": missing")
            continue
        src = open(p).read()
        src = re.sub(r"/-.*?-/", lambda m: "\n" * m.group(0).count("\n"), src, flags=re.S)
        for i, line in enumerate(src.splitlines(), 1):
            code = line.split("--")[0]
            if pat.search(code):
                bad.append("%s:%d: %s" % (rel, i, line.strip()))
    return bad


# ----------------------------------------------------------------------------- impl side

def cargo_build():
    lock_src = "/repo/Cargo.lock"
    lock_dst = os.path.join(HARNESS, "Cargo.lock")
    if not os.path.exists(lock_dst) and os.path.exists(lock_src):
        import shutil
        shutil.copy(lock_src, lock_dst)
    rc, out, err = run(["cargo", "build", "--offline"], cwd=HARNESS, timeout=3600)
    return rc == 0, out + err


GEN_EXTRA = []


def gen_ops(stream, seed, cases):
    rc, out, err = run([VH, "gen", stream, "--seed", str(seed), "--cases", str(cases)] + GEN_EXTRA, timeout=1800)
    if rc != 0:
        raise RuntimeError("vh gen failed: " + err[:2000])
    return out.splitlines()


def keep_ops(cfg, lines):
    """a property that shares a stream with a sister property keeps only its own op kinds"""
    ops = cfg.get("ops")
    if not ops:
        return lines
    out = []
    for l in lines:
        t = l.split()
        if l.startswith("#") or (len(t) > 1 and t[1] in ops):
            out.append(l)
    return out


def run_impl(lines, timeout=3600):
    rc, out, err = run([VH, "run"], inp="\n".join(lines) + "\n", timeout=timeout, cwd=HARNESS)
    res = out.splitlines()
    if rc != 0 or len(res) != len(lines):
        # the harness process died (abort / stack overflow): bisect to the line that kills it
        return res, "harness exited rc=%d after %d of %d lines: %s" % (rc, len(res), len(lines), err[-500:])
    return res, None


def run_model(lines, timeout=3600):
    rc, out, err = run([GDRIVER], inp="\n".join(lines) + "\n", timeout=timeout)
    res = out.splitlines()
    if rc != 0 or len(res) != len(lines):
        return res, "gdriver exited rc=%d after %d of %d lines: %s" % (rc, len(res), len(lines), err[-500:])
    return res, None


def split_cases(lines):
    """group op lines into cases by '# case' headers (a case = a replayable unit)."""
    cases, cur = [], []
    for i, l in enumerate(lines):
        if l.startswith("# case"):
            if cur:
                cases.append(cur)
            cur = [i]
        else:
            cur.append(i)
    if cur:
        cases.append(cur)
    return cases


def load_findings(pid):
    p = os.path.join(ROOT, "known_findings.json")
    if not os.path.exists(p):
        return []
    return [f for f in json.load(open(p)) if f["property"] == pid]


def corpus_lines(pid):
    d = os.path.join(ROOT, "corpus", pid)
    out = []
    if os.path.isdir(d):
        for fn in sorted(os.listdir(d)):
            if fn.endswith(".ops"):
                out.append("# case corpus:%s" % fn)
                # comment lines are dropped, except the `# case` headers that reset the stream state
                out += [l.rstrip("\n") for l in open(os.path.join(d, fn))
                        if l.strip() and (not l.startswith("#") or l.startswith("# case"))]
    return out


def compare(pid, cfg, lines, impl, model, findings):
    """three-way comparison, per-output decision rule of DESIGN.md section 4."""
    open_sigs = {f["signature"]: f for f in findings if f["status"] == "open"}
    stats = {"lines": 0, "constrained": 0, "ok": 0, "known": {}, "repaired_upstream": 0,
             "disagreements": [], "spec_failures": [], "ops": {}, "bad_ops": 0}
    distinct = set()
    for i, l in enumerate(lines):
        if l.startswith("#"):
            continue
        stats["lines"] += 1
        toks = l.split()
        opk = toks[1] if len(toks) > 1 else "?"
        stats["ops"][opk] = stats["ops"].get(opk, 0) + 1
        im = impl[i] if i < len(impl) else "<missing>"
        mo = model[i] if i < len(model) else "<missing>"
        parts = mo.split("\t")
        if len(parts) != 3:
            stats["bad_ops"] += 1
            stats["disagreements"].append({"line": i, "op": l, "impl": im, "model": mo, "spec": "-", "sig": "-",
                                           "why": "model driver rejected the op"})
            continue
        m, s, sig = parts
        sig_parts = sig.split("+")
        if all(p_ in cfg.get("ignore_sigs", ()) for p_ in sig_parts):
            # a deviation that belongs to a sister property sharing this stream: decided there
            s, sig = "-", "-"
        if s != "-":
            stats["constrained"] += 1
            distinct.add(hashlib.md5(l.encode()).digest())
        if im == m:
            if s == "-" or im == s:
                stats["ok"] += 1
            elif all(p_ in open_sigs or p_ in cfg.get("ignore_sigs", ()) for p_ in sig_parts):
                # compound signatures (a+b): every component must be a listed finding
                for p_ in sig_parts:
                    stats["known"].setdefault(p_, []).append(i)
            else:
                stats["spec_failures"].append({"line": i, "op": l, "impl": im, "model": m, "spec": s, "sig": sig,
                                               "why": "implementation (and its model) deviate from the specification; not a listed finding"})
        else:
            if s != "-" and im == s and all(p_ in open_sigs for p_ in sig_parts):
                stats["repaired_upstream"] += 1
            else:
                stats["disagreements"].append({"line": i, "op": l, "impl": im, "model": m, "spec": s, "sig": sig,
                                               "why": "implementation and model differ"})
    stats["distinct_constrained"] = len(distinct)
    return stats


def case_of(lines, idx):
    """the replayable unit containing line idx: from its '# case' header to the next one."""
    a = idx
    while a > 0 and not lines[a].startswith("# case"):
        a -= 1
    b = idx + 1
    while b < len(lines) and not lines[b].startswith("# case"):
        b += 1
    if cfg_stateless:
        return [lines[a]] + [lines[idx]] if lines[a].startswith("#") else [lines[idx]]
    return lines[a:b]


cfg_stateless = True


def case_start(lines, idx):
    a = idx
    while a > 0 and not lines[a].startswith("# case"):
        a -= 1
    return a


def case_upto(lines, idx):
    """replayable prefix: the case header and its ops up to and including line idx
    (stateless streams: just that line)."""
    a = case_start(lines, idx)
    if cfg_stateless:
        return ([lines[a]] if lines[a].startswith("#") else []) + [lines[idx]]
    return lines[a:idx + 1]


def same_failure(d, e):
    return (d["sig"] == e["sig"]) and ((d["impl"] != d["model"]) == (e["impl"] != e["model"])) and \
        ((d["spec"] != "-" and d["impl"] != d["spec"]) == (e["spec"] != "-" and e["impl"] != e["spec"]))


def shrink(pid, cfg, ops, d, findings, budget=120):
    """greedy delta debugging on the op lines of one case: drop chunks while some line still
    fails the same way."""
    if cfg_stateless or len(ops) <= 2:
        return ops
    head, body = ops[0:1], ops[1:]
    def still_fails(cand):
        ls = head + cand
        im, e1 = run_impl(ls)
        mo, e2 = run_model(ls)
        if e1 or e2:
            return False
        st = compare(pid, cfg, ls, im, mo, findings)
        return any(same_failure(d, e) for e in st["spec_failures"] + st["disagreements"])
    n = 2
    evals = 0
    while len(body) >= 2 and evals < budget:
        chunk = max(1, len(body) // n)
        removed = False
        for i in range(0, len(body), chunk):
            cand = body[:i] + body[i + chunk:]
            evals += 1
            if cand and still_fails(cand):
                body = cand
                n = max(n - 1, 2)
                removed = True
                break
            if evals >= budget:
                break
        if not removed:
            if chunk == 1:
                break
            n = min(n * 2, len(body))
    return head + body


def write_replay(pid, kind, detail, ops, extra=None):
    os.makedirs(REPLAYS, exist_ok=True)
    name = "%s-%s-%d.replay" % (pid, kind, int(time.time() * 1000) % 10**10)
    path = os.path.join(REPLAYS, name)
    with open(path, "w") as f:
        f.write("# property %s\n# kind %s\n" % (pid, kind))
        for k, v in (detail or {}).items():
            f.write("# %s: %s\n" % (k, str(v).replace("\n", " ")[:2000]))
        if extra:
            for l in extra:
                f.write("# " + l + "\n")
        for l in ops:
            f.write(l + "\n")
    return path


def do_replay(pid, path):
    lines = [l.rstrip("\n") for l in open(path)]
    ops = [l for l in lines if l.strip() and (not l.startswith("#") or l.startswith("# case"))]
    okb, out = cargo_build()
    if not okb:
        log(out[-3000:])
        print("harness does not build against /repo")
        return 2
    lake_build(["gdriver"])
    impl, e1 = run_impl(ops)
    model, e2 = run_model(ops)
    for i, l in enumerate(ops):
        if l.startswith("#"):
            print(l)
            continue
        mo = (model[i] if i < len(model) else "<missing>\t-\t-").split("\t")
        while len(mo) < 3:
            mo.append("-")
        print("op:    %s\n impl:  %s\n model: %s\n spec:  %s\n sig:   %s" % (l, impl[i] if i < len(impl) else "<missing>", mo[0], mo[1], mo[2]))
    if e1:
        print("impl runner:", e1)
    if e2:
        print("model runner:", e2)
    return 0


def main():
    global cfg_stateless
    ap = argparse.ArgumentParser()
    ap.add_argument("pid")
    ap.add_argument("--tier", default=os.environ.get("VERIF_TIER", "quick"))
    ap.add_argument("--replay")
    ap.add_argument("--update-obligations", action="store_true")
    ap.add_argument("--cases", type=int)
    a = ap.parse_args()
    pid = a.pid
    cfg = PROPS[pid]
    cfg_stateless = cfg.get("stateless", True)
    if a.replay:
        sys.exit(do_replay(pid, a.replay))
    tier = "thorough" if a.tier == "thorough" else "quick"
    if tier == "thorough":
        GEN_EXTRA.append("--thorough")
    seed = int(os.environ.get("VERIF_SEED", "1") or 1)
    t0 = time.time()
    findings = load_findings(pid)
    violations = []   # (replay path, no_failing_input: bool, text)
    notes = []

    # 1. regenerate constants
    ok, msg = extract_constants()
    if not ok:
        path = write_replay(pid, "extract", {"broken": "tools/extract.py could not regenerate Generated/Constants.lean", "message": msg}, [])
        violations.append((path, True, "constant extraction failed"))
    else:
        notes.append("constants: " + msg)

    # 2. proofs
    proof_ok, blog = lake_build([cfg["lean_module"]] + cfg.get("extra_modules", []) + ["gdriver"])
    broken_theorems = []
    if not proof_ok:
        log(blog[-6000:])
        errs = re.findall(r"error: ([^\n]*\.lean:\d+:\d+: [^\n]*)", blog)
        broken_theorems = errs[:10] or ["lake build failed"]
    # 3. audit
    results, axioms_used = ([], [])
    if proof_ok:
        results, axioms_used = audit(pid, cfg, update=a.update_obligations)
        for r in results:
            if not r["ok"]:
                broken_theorems.append("%s: %s" % (r["name"], r["why"]))
        gbad = grep_audit(cfg)
        for g in gbad:
            broken_theorems.append("forbidden token " + g)
    obligations = len(results) if results else len(read_obligations(pid)[1])
    discharged = sum(1 for r in results if r["ok"])
    leanchecker = None
    if tier == "thorough" and proof_ok:
        mods = cfg.get("leanchecker_modules", [cfg["lean_module"]])
        rc, out, err = run(["lake", "env", "leanchecker"] + mods, cwd=LEAN, timeout=3600)
        leanchecker = (rc == 0)
        if rc != 0:
            broken_theorems.append("leanchecker rejected %s: %s" % (mods, (out + err)[-500:]))

    # 4. harness
    build_ok, clog = cargo_build()
    stats = None
    lines = []
    if not build_ok:
        log(clog[-6000:])
        path = write_replay(pid, "harness-build", {"broken": "correspondence harness no longer compiles against /repo (stream %s)" % cfg["stream"],
                                                   "message": clog[-1500:]}, [])
        violations.append((path, True, "harness build failed"))
    elif not os.path.exists(GDRIVER):
        path = write_replay(pid, "driver-build", {"broken": "gdriver does not build", "message": blog[-1500:]}, [])
        violations.append((path, True, "model driver build failed"))
    else:
        # 5. correspondence
        ncases = a.cases or cfg["cases"][tier]
        lines = corpus_lines(pid)
        for st in cfg.get("streams", [cfg["stream"]]):
            # per-stream scale: streams with heavy lines take a fraction of the case count
            n_st = max(1, int(ncases * cfg.get("stream_scale", {}).get(st, 1.0)))
            n_st = min(n_st, cfg.get("stream_cap", {}).get(st, n_st))
            lines += keep_ops(cfg, gen_ops(st, seed, n_st))
        impl, e1 = run_impl(lines)
        model, e2 = run_model(lines)
        if e1:
            # the process died: find the first line with no output and report it as a crash
            k = len([x for x in impl])
            bad = lines[k] if k < len(lines) else "?"
            path = write_replay(pid, "harness-died", {"broken": e1, "at": bad}, case_of(lines, min(k, len(lines) - 1)))
            violations.append((path, False, "implementation aborted the process"))
        if e2:
            path = write_replay(pid, "driver-died", {"broken": e2}, [])
            violations.append((path, True, "model driver died"))
        stats = compare(pid, cfg, lines, impl, model, findings)
        # all failing lines, earliest first; for stateful streams only the first failing line of
        # a case is meaningful (later ops run on diverged state)
        fails = sorted(stats["spec_failures"] + stats["disagreements"], key=lambda d: d["line"])
        if not cfg_stateless:
            firsts, seen_cases = [], set()
            for d in fails:
                c = case_start(lines, d["line"])
                if c not in seen_cases:
                    seen_cases.add(c)
                    firsts.append(d)
            fails = firsts
        def is_failing_input(d):
            return d["spec"] != "-" and d["impl"] != d["spec"]
        real = [d for d in fails if is_failing_input(d)]
        stale = [d for d in fails if not is_failing_input(d)]
        reported = set()
        for d in real:
            key = (d["sig"], d["op"].split()[1] if len(d["op"].split()) > 1 else "")
            if key in reported or len(reported) >= 3:
                continue
            reported.add(key)
            ops = shrink(pid, cfg, case_upto(lines, d["line"]), d, findings)
            path = write_replay(pid, "failing-input", d, ops)
            violations.append((path, False, "impl deviates from spec (%s): %s" % (d["why"], d["sig"])))
        if stale and not real:
            # the model no longer describes the code, but the code met the spec on those lines:
            # search wider for an input on which the property itself fails
            d = stale[0]
            key = d["op"].split()[1] if len(d["op"].split()) > 1 else ""
            extra = []
            for st in cfg.get("streams", [cfg["stream"]]):
                extra += keep_ops(cfg, gen_ops(st, seed + 7919, ncases * (20 if tier == "thorough" else 4)))
            im2, _ = run_impl(extra)
            mo2, _ = run_model(extra)
            st2 = compare(pid, cfg, extra, im2, mo2, findings)
            cand = sorted([x for x in st2["spec_failures"] + st2["disagreements"] if is_failing_input(x)], key=lambda x: x["line"])
            if cand:
                ops = shrink(pid, cfg, case_upto(extra, cand[0]["line"]), cand[0], findings)
                path = write_replay(pid, "failing-input", cand[0], ops,
                                    extra=["first correspondence break: " + json.dumps(d)[:1500]])
                violations.append((path, False, "correspondence broke; search found a failing input"))
            else:
                path = write_replay(pid, "correspondence", dict(d, broken="correspondence stream %s op %s: implementation and model differ" % (cfg["stream"], key)),
                                    case_upto(lines, d["line"]))
                violations.append((path, True, "correspondence broke on op " + key))

    # broken proof obligations
    if broken_theorems:
        # a failing input, if the run found one, is already reported above; otherwise name the theorem
        have_input = any(not nf for (_, nf, _) in violations)
        if not have_input:
            path = write_replay(pid, "proof", {"broken": "; ".join(broken_theorems)[:3000]}, [])
            violations.append((path, True, "proof obligation no longer checks"))

    # known findings: replay each canonical witness
    known_lines = []
    for f in findings:
        if f["status"] != "open":
            continue
        wp = os.path.join(ROOT, f["witness"])
        if not (build_ok and os.path.exists(GDRIVER) and os.path.exists(wp)):
            continue
        wl = [l.rstrip("\n") for l in open(wp) if l.strip() and (not l.startswith("#") or l.startswith("# case"))]
        im, _ = run_impl(wl)
        mo, _ = run_model(wl)
        st = compare(pid, cfg, wl, im, mo, findings)
        if st["known"].get(f["signature"]):
            known_lines.append("KNOWN-FINDING: property=%s %s (%s) — %s" % (pid, f["id"], f["call_site"], f["summary"]))
        else:
            notes.append("finding %s did not reproduce on its witness (repaired upstream?)" % f["id"])

    wall = time.time() - t0
    # 6. evidence
    samples = []
    if stats:
        k = 0
        for i, l in enumerate(lines):
            if l.startswith("#"):
                continue
            if k % max(1, stats["lines"] // 6) == 0 and len(samples) < 8:
                samples.append({"op": l[:300], "impl": impl[i][:300] if i < len(impl) else None,
                                "model_spec_sig": model[i][:400] if i < len(model) else None})
            k += 1
    for r in results[:40]:
        samples.append({"obligation": r["name"], "kind": r["kind"], "axioms": r.get("axioms"), "statement": r.get("statement", "")[:300]})
    ev = {
        "property_id": pid, "tier": tier, "seed": seed, "level": cfg.get("level", "proof"),
        "coverage": {
            "obligations": max(obligations, 1), "discharged": discharged,
            "checker_cmd": "lake build %s gdriver && lake env lean GrafeoModel/Audit/%s.lean (#print axioms)%s" % (
                cfg["lean_module"], pid, " && lake env leanchecker" if tier == "thorough" else ""),
            "trusted_base": ["Lean 4.33.0 kernel", "axioms used: " + ", ".join(axioms_used)] + cfg.get("trusted_base", []),
            "obligation_results": [{"name": r["name"], "kind": r["kind"], "ok": r["ok"], "why": r["why"]} for r in results],
            "evaluations": stats["lines"] if stats else 0,
            "distinct_nontrivial": stats["distinct_constrained"] if stats else 0,
            "rule": cfg.get("rule", "op lines generated by `vh gen` from one SplitMix64 seed (corpus first); a line counts as non-trivial "
                            "when the specification constrains its output (spec field not '-'), distinct by op text"),
            "samples": samples,
            "op_distribution": stats["ops"] if stats else {},
            "impl_vs_model_disagreements": len(stats["disagreements"]) if stats else None,
            "impl_vs_spec_unlisted": len(stats["spec_failures"]) if stats else None,
            "known_finding_hits": {k: len(v) for k, v in stats["known"].items()} if stats else {},
            "repaired_upstream_lines": stats["repaired_upstream"] if stats else 0,
            "disagreements_checked": stats["lines"] if stats else 0,
            "programs": max(1, sum(1 for l in lines if l.startswith("# case"))),
            "leanchecker": leanchecker,
            "notes": notes,
            "model_modelled_parts": cfg.get("modelled", ""),
        },
        "assumptions": cfg.get("assumptions", []),
        "wall_s": round(wall, 2),
        "violations": len(violations),
    }
    os.makedirs(EVIDENCE, exist_ok=True)
    with open(os.path.join(EVIDENCE, pid + ".json"), "w") as f:
        json.dump(ev, f, indent=1)

    for l in known_lines:
        print(l)
    if violations:
        for path, nf, text in violations:
            log("violation: " + text)
            print("VIOLATION property=%s replay=%s%s" % (pid, path, " no-failing-input-found" if nf else ""))
        sys.exit(1)
    print("OK property=%s tier=%s obligations=%d/%d lines=%d constrained=%d wall=%.1fs" % (
        pid, tier, discharged, obligations, stats["lines"] if stats else 0, stats["constrained"] if stats else 0, wall))
    sys.exit(0)


if __name__ == "__main__":
    main()
