#!/usr/bin/env python3
"""casefind.py <ops> <impl> <model> <sig> : print the shortest case containing a deviation with that sig, up to the line."""
import sys
ops=[l.rstrip("\n") for l in open(sys.argv[1])]
impl=[l.rstrip("\n") for l in open(sys.argv[2])]
model=[l.rstrip("\n") for l in open(sys.argv[3])]
sig=sys.argv[4]
best=None
start=0
for i,l in enumerate(ops):
    if l.startswith("# case"):
        start=i
        continue
    parts=model[i].split("\t")
    if len(parts)==3 and parts[2]==sig and parts[1]!="-" and impl[i]!=parts[1]:
        n=i-start
        if best is None or n<best[0]:
            best=(n,start,i)
if best:
    n,s,i=best
    for j in range(s,i+1):
        print(ops[j], "\t=>", impl[j], "|", model[j] if j==i else "")
