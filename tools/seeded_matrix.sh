#!/bin/bash
# seeded_matrix.sh : apply every seeded change to /repo in turn, run the check of its property, undo it.
# Prints one line per change: DETECTED (the check exits 1 with a VIOLATION line) or MISSED.
cd /verif
if [ -n "$(git -C /repo status --porcelain)" ]; then echo "/repo has uncommitted changes - refusing"; exit 2; fi
for d in seeded/*/; do
  n=$(basename $d)
  p=$(python3 -c "import json;print(json.load(open('$d/meta.json'))['property'])")
  if ! git -C /repo apply --check /verif/$d/patch.diff 2>/dev/null; then echo "NOAPPLY  $n"; continue; fi
  git -C /repo apply /verif/$d/patch.diff
  out=$(./check.py $p --tier quick 2>&1); rc=$?
  git -C /repo checkout -- .
  v=$(echo "$out" | grep -c "^VIOLATION")
  nf=$(echo "$out" | grep "^VIOLATION" | grep -c "no-failing-input-found")
  if [ $rc -ne 0 ] && [ $v -gt 0 ]; then echo "DETECTED $n property=$p violations=$v without-input=$nf"; else echo "MISSED   $n property=$p rc=$rc"; fi
done
# leave the harness and the evidence as the unchanged tree produces them
./check.py C15 --tier quick > /dev/null 2>&1
