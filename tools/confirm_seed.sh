#!/bin/bash
# confirm_seed.sh <worktree> <crate> <demo test file relative path> : confirm a seeded change
# (1) suite of the crate passes with the change (demo moved aside)  (2) demo fails with it  (3) demo passes without it
set -u
WT=$1; CRATE=$2; DEMO=$3
export CARGO_TARGET_DIR=$WT/target CARGO_NET_OFFLINE=true
cd $WT
name=$(basename $DEMO .rs)
mv $DEMO /tmp/_demo_$$.rs
echo "== suite with change"; cargo test -p $CRATE --offline 2>&1 | grep -E "^test result|FAILED|error(\[|:)" | sort | uniq -c | head -20
mv /tmp/_demo_$$.rs $DEMO
echo "== demo with change (expect failure)"; cargo test -p $CRATE --test $name --offline 2>&1 | grep -E "^test result|^test .*FAILED" | head
git apply -R MUTATION/patch.diff
echo "== demo without change (expect pass)"; cargo test -p $CRATE --test $name --offline 2>&1 | grep -E "^test result|^test .*FAILED" | head
git apply MUTATION/patch.diff
