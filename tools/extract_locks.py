#!/usr/bin/env python3
"""Lock-order extraction (C20, deadlock clause).

Reads the Rust sources of the lock-bearing structs and regenerates
lean/GrafeoModel/Generated/LockGraph.lean:

  lockEdges : every pair (held, acquired, function) where a function acquires lock `acquired`
              (`self.<field>.read()/.write()/.lock()`, directly or through a call of another method
              of the same struct) while a guard of lock `held` is alive;
  lockRank  : a rank certificate — a topological numbering of the locks; Lean checks by `decide`
              that every edge goes from a lower to a higher rank (impossible when the graph has a cycle);
  sections  : for selected functions, the ordered list of critical sections (which locks each holds),
              against which the interleaving models are checked.

Guard lifetimes follow Rust's rules as far as a text scan can see them:
  * `let [mut] g = self.f.write();`         named guard, alive to the end of its block or `drop(g)`
  * a guard created inside an expression     alive to the end of the statement; when it is created in
    the head of `if let` / `while let` / `match` / `for`, alive to the end of that construct
The scan over-approximates lifetimes where it is unsure (more edges, never fewer), does not see
locks inside other types (DashMap shards, PropertyStorage, ChunkedAdjacency are represented by one
pseudo lock each) and skips functions compiled only with the `tiered-storage` feature.
"""
import os
import re
import sys

REPO = os.environ.get("VERIF_REPO", "/repo")
ROOT = os.path.dirname(os.path.dirname(os.path.abspath(__file__)))
OUT = os.path.join(ROOT, "lean", "GrafeoModel", "Generated", "LockGraph.lean")

FILES = [
    ("LpgStore", "crates/grafeo-core/src/graph/lpg/store.rs"),
    ("RdfStore", "crates/grafeo-core/src/graph/rdf/store.rs"),
    ("TxMgr", "crates/grafeo-engine/src/transaction/manager.rs"),
    ("BufMgr", "crates/grafeo-common/src/memory/buffer/manager.rs"),
    ("QueryCache", "crates/grafeo-engine/src/query/cache.rs"),
    ("Catalog", "crates/grafeo-engine/src/catalog/mod.rs"),
]

# calls on these fields take (and release) a lock inside another type
PSEUDO = {
    "node_properties": "PropertyStorage.columns",
    "edge_properties": "PropertyStorage.columns",
    "forward_adj": "ChunkedAdjacency.lists",
    "backward_adj": "ChunkedAdjacency.lists",
}


def strip_comments_and_strings(src):
    out = []
    i, n = 0, len(src)
    while i < n:
        c = src[i]
        if src.startswith("//", i):
            j = src.find("\n", i)
            j = n if j < 0 else j
            out.append(" " * (j - i))
            i = j
        elif src.startswith("/*", i):
            j = src.find("*/", i + 2)
            j = n if j < 0 else j + 2
            out.append(re.sub(r"[^\n]", " ", src[i:j]))
            i = j
        elif c == '"':
            j = i + 1
            while j < n and src[j] != '"':
                j += 2 if src[j] == "\\" else 1
            out.append('"' + " " * (j - i - 1) + '"')
            i = j + 1
        elif c == "'" and i + 2 < n and (src[i + 2] == "'" or (src[i + 1] == "\\" and "'" in src[i + 2:i + 6])):
            j = src.find("'", i + 2 if src[i + 1] != "\\" else i + 3)
            out.append(" " * (j - i + 1))
            i = j + 1
        else:
            out.append(c)
            i += 1
    return "".join(out)


def functions(src):
    """yield (name, body, tiered_only) for every fn with a body"""
    for m in re.finditer(r"((?:#\[[^\]]*\]\s*)*)(?:pub(?:\([a-z]+\))?\s+)?fn\s+(\w+)", src):
        attrs, name = m.group(1), m.group(2)
        # find the body's opening brace: first `{` after the signature that is not inside <> / ()
        i = m.end()
        depth_par = 0
        while i < len(src):
            ch = src[i]
            if ch in "(<[":
                depth_par += 1 if ch != "<" else 0
            elif ch in ")]":
                depth_par -= 1
            elif ch == ";" and depth_par == 0:
                i = -1
                break
            elif ch == "{" and depth_par == 0:
                break
            i += 1
        if i < 0 or i >= len(src):
            continue
        j, d = i, 0
        while j < len(src):
            if src[j] == "{":
                d += 1
            elif src[j] == "}":
                d -= 1
                if d == 0:
                    break
            j += 1
        tiered = "cfg(TIERED)" in attrs
        yield name, src[i:j + 1], tiered


ACQ = re.compile(r"self\s*\.\s*(\w+)\s*\.\s*(read|write|lock)\s*\(\s*\)")
LET_GUARD = re.compile(r"let\s+(?:mut\s+)?(\w+)\s*=\s*self\s*\.\s*(\w+)\s*\.\s*(?:read|write|lock)\s*\(\s*\)\s*;")
CALL = re.compile(r"self\s*\.\s*(\w+)\s*\(")
FIELD_CALL = re.compile(r"self\s*\.\s*(\w+)\s*\.\s*\w+\s*\(")
DROP = re.compile(r"drop\s*\(\s*(\w+)\s*\)")
HEAD_KW = re.compile(r"\b(if|while|match|for)\b")


def analyse(struct, body, callee_locks):
    """returns (direct lock set, edges [(held, acquired)], sections [[locks]])"""
    named = []       # (var, lock, depth)
    temps = []       # (lock, depth, until_block_end: bool)
    edges = set()
    direct = set()
    sections = []
    depth = 0
    i, n = 0, len(body)
    stmt_start = 0
    in_head = False  # between if/while/match/for and its `{` at this depth
    head_depth = None

    def held():
        return [l for (_, l, _) in named] + [l for (l, _, _) in temps]

    def acquire(lock, until_block):
        for h in held():
            edges.add((h, lock))
        direct.add(lock)
        return lock

    events = []
    for m in LET_GUARD.finditer(body):
        events.append((m.start(), "let", m))
    for m in ACQ.finditer(body):
        events.append((m.start(), "acq", m))
    for m in CALL.finditer(body):
        events.append((m.start(), "call", m))
    for m in FIELD_CALL.finditer(body):
        events.append((m.start(), "fcall", m))
    for m in DROP.finditer(body):
        events.append((m.start(), "drop", m))
    for m in HEAD_KW.finditer(body):
        events.append((m.start(), "head", m))
    for k, ch in enumerate(body):
        if ch in "{};":
            events.append((k, ch, None))
    events.sort(key=lambda e: (e[0], 0 if e[1] == "let" else 1))
    let_spans = [(m.start(), m.end()) for m in LET_GUARD.finditer(body)]

    def in_let(pos):
        return any(a <= pos < b for a, b in let_spans)

    for pos, kind, m in events:
        if kind == "{":
            depth += 1
            if in_head and head_depth == depth - 1:
                in_head = False
        elif kind == "}":
            # guards declared in the block that closes die
            if any(d >= depth for (_, _, d) in named) or any(d >= depth for (_, d, _) in temps):
                pass
            named[:] = [(v, l, d) for (v, l, d) in named if d < depth]
            temps[:] = [(l, d, u) for (l, d, u) in temps if d < depth]
            depth -= 1
            # temporaries of a construct head die when the construct's block closes (an `else` keeps them)
            rest = body[pos + 1:pos + 40].lstrip()
            if not rest.startswith("else"):
                temps[:] = [(l, d, u) for (l, d, u) in temps if not (u and d == depth)]
        elif kind == ";":
            temps[:] = [(l, d, u) for (l, d, u) in temps if d != depth]
            in_head = False
        elif kind == "head":
            in_head = True
            head_depth = depth
        elif kind == "let":
            var, field = m.group(1), m.group(2)
            lock = struct + "." + field
            acquire(lock, False)
            named.append((var, lock, depth))
            sections.append(sorted(set(held())))
        elif kind == "acq":
            if in_let(pos):
                continue
            lock = struct + "." + m.group(1)
            acquire(lock, in_head)
            temps.append((lock, depth, in_head and head_depth == depth))
            sections.append(sorted(set(held())))
        elif kind == "drop":
            var = m.group(1)
            named[:] = [(v, l, d) for (v, l, d) in named if v != var]
        elif kind == "call":
            callee = m.group(1)
            for lock in sorted(callee_locks.get(callee, ())):
                for h in held():
                    edges.add((h, lock))
                direct.add(lock)
        elif kind == "fcall":
            f = m.group(1)
            if f in PSEUDO:
                lock = PSEUDO[f]
                for h in held():
                    edges.add((h, lock))
                direct.add(lock)
    return direct, edges, sections


def main():
    all_edges = []   # (held, acquired, fn)
    sections_out = {}
    for struct, rel in FILES:
        path = os.path.join(REPO, rel)
        if not os.path.exists(path):
            continue
        raw = open(path, encoding="utf-8").read()
        # keep the two cfg attributes recognisable after string contents are blanked
        raw = re.sub(r'#\[cfg\(not\(feature\s*=\s*"tiered-storage"\)\)\]', '#[cfg(NOT_TIERED)]', raw)
        raw = re.sub(r'#\[cfg\(feature\s*=\s*"tiered-storage"\)\]', '#[cfg(TIERED)]', raw)
        src = strip_comments_and_strings(raw)
        # statements inside a body that exist only with tiered storage
        src = re.sub(r'#\[cfg\(TIERED\)\]\s*(let|drop)[^;]*;', ' ', src)
        # test modules are not part of the analysed code
        k = src.find("#[cfg(test)]")
        if k > 0:
            src = src[:k]
        fns = [(n, b) for (n, b, t) in functions(src) if not t]
        # two rounds: callee lock sets first (fixpoint), then edges
        callee_locks = {}
        for _ in range(6):
            new = {}
            for name, body in fns:
                d, _, _ = analyse(struct, body, callee_locks)
                new[name] = new.get(name, set()) | d
            if new == callee_locks:
                break
            callee_locks = new
        for name, body in fns:
            _, edges, secs = analyse(struct, body, callee_locks)
            for (h, l) in sorted(edges):
                all_edges.append((h, l, struct + "::" + name))
            if secs:
                sections_out[struct + "::" + name] = secs
    # rank certificate: Kahn's algorithm over the lock graph
    locks = sorted({x for (h, l, _) in all_edges for x in (h, l)})
    pairs = sorted({(h, l) for (h, l, _) in all_edges})
    indeg = {x: 0 for x in locks}
    for (h, l) in pairs:
        if h != l:
            indeg[l] += 1
    rank = {}
    ready = sorted([x for x in locks if indeg[x] == 0])
    r = 0
    remaining = set(pairs)
    while ready:
        x = ready.pop(0)
        rank[x] = r
        r += 1
        for (h, l) in sorted(remaining):
            if h == x and h != l:
                remaining.discard((h, l))
                indeg[l] -= 1
                if indeg[l] == 0:
                    ready.append(l)
                    ready.sort()
    cyclic = [x for x in locks if x not in rank]
    for x in cyclic:
        rank[x] = 0   # no valid certificate exists; Lean's check fails on the cycle's edges

    def q(s):
        return '"' + s + '"'

    with open(OUT + ".tmp", "w") as f:
        f.write("/-! GENERATED by tools/extract_locks.py from /repo on every run - do not edit. -/\n")
        f.write("namespace Grafeo.Generated\n\n")
        f.write("/-- (held, acquired, function): `function` acquires `acquired` while a guard of `held` is alive -/\n")
        f.write("def lockEdges : List (String × String × String) := [\n")
        f.write(",\n".join("  (%s, %s, %s)" % (q(h), q(l), q(fn)) for (h, l, fn) in all_edges))
        f.write("]\n\n")
        f.write("/-- rank certificate (topological numbering of the locks) -/\n")
        f.write("def lockRank : List (String × Nat) := [\n")
        f.write(",\n".join("  (%s, %d)" % (q(x), rank[x]) for x in locks))
        f.write("]\n\n")
        keep = ["RdfStore::insert", "RdfStore::remove", "LpgStore::delete_node_at_epoch", "LpgStore::add_label",
                "LpgStore::remove_label", "LpgStore::set_node_property", "LpgStore::remove_node_property",
                "TxMgr::begin_with_isolation", "TxMgr::commit", "TxMgr::gc"]
        f.write("/-- critical sections (locks held at each acquisition) of the functions the interleaving models split into steps -/\n")
        f.write("def lockSections : List (String × List (List String)) := [\n")
        f.write(",\n".join("  (%s, [%s])" % (q(k), ", ".join("[" + ", ".join(q(x) for x in s) + "]" for s in sections_out.get(k, [])))
                           for k in keep))
        f.write("]\n\nend Grafeo.Generated\n")
    os.replace(OUT + ".tmp", OUT)
    print("locks=%d edges=%d functions=%d cyclic=%s" % (len(locks), len(pairs), len({fn for (_, _, fn) in all_edges}), ",".join(cyclic) or "none"))
    return 0


if __name__ == "__main__":
    sys.exit(main())
