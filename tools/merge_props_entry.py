#!/usr/bin/env python3
"""merge_props_entry.py <builder-copy> <Cxx> : replace the <Cxx> entry of tools/props.py by the builder copy's entry (text level)."""
import sys, re
def block(text, pid):
    m = re.search(r'^    "%s": \{\n' % pid, text, re.M)
    assert m, pid
    i = m.start()
    j = text.index('\n    },\n', i) + len('\n    },\n')
    return i, j
copy, pid = sys.argv[1], sys.argv[2]
mine = open('/verif/tools/props.py').read()
theirs = open(copy + '/tools/props.py').read()
i, j = block(mine, pid); a, b = block(theirs, pid)
open('/verif/tools/props.py', 'w').write(mine[:i] + theirs[a:b] + mine[j:])
print("merged", pid)
