#!/usr/bin/env python3
"""apply_findings_change.py <FINDINGS_CHANGE.json> <commit> [<commit2> ...] : replace entries of known_findings.json by id
(status fixed), substituting COMMIT / COMMIT1 / COMMIT2 ... by the given /repo commit hashes; entries with new ids are appended."""
import json, sys
k = json.load(open('/verif/known_findings.json'))
text = open(sys.argv[1]).read()
commits = sys.argv[2:]
for i, c in reversed(list(enumerate(commits, 1))):
    text = text.replace("COMMIT%d" % i, c)
if commits:
    text = text.replace("COMMIT", commits[0])
ch = json.loads(text)
by = {f['id']: i for i, f in enumerate(k)}
for f in ch:
    if f['id'] in by:
        k[by[f['id']]] = f; print("replaced", f['id'], f['status'])
    else:
        k.append(f); print("added", f['id'], f['status'])
json.dump(k, open('/verif/known_findings.json', 'w'), indent=1, ensure_ascii=False)
