#!/bin/bash
# integrate_builder.sh <copy-dir> : copy a builder's owned (new or changed) source files into /verif,
# restricted to paths matching the regex <owned> (second argument), and
# except tools/props.py (merged by hand: the diff is printed), seeded/, tools/ and pending_fixes/.
C=$1; OWN=$2
cd /verif
tools/builder_diff.sh $C | while read -r line; do
  case "$line" in
    "Only in /verif"*|"Only in seeded"*|"Only in tools"*|*"seeded/MATRIX.txt"*|*"tools/props.py"*|*"tools/BUILDER_BRIEF.md"*|*"DESIGN.md"*|*"MANIFEST.json"*|*"known_findings.json"*) ;;
    "Only in "*)
      d=$(echo "$line" | sed 's/^Only in \([^:]*\): .*/\1/'); f=$(echo "$line" | sed 's/^Only in [^:]*: //')
      case "$d" in /*) continue;; esac
      echo "$d/$f" | grep -Eq "$OWN" || continue; mkdir -p "$d"; cp -r "$C/$d/$f" "$d/$f"; echo "new   $d/$f";;
    "Files "*)
      f=$(echo "$line" | awk '{print $2}'); echo "$f" | grep -Eq "$OWN" || continue; cp "$C/$f" "$f"; echo "upd   $f";;
  esac
done
echo "---- props.py diff"; diff /verif/tools/props.py $C/tools/props.py
