"""Per-property configuration for check.py."""

COMMON_TB = [
    "correspondence harness /verif/harness (Rust) + line-protocol parsers on both sides + check.py",
    "tools/extract.py (constant regeneration)",
]

PROPS = {
    "C15": {
        "stream": "c15",
        "lean_module": "GrafeoModel.Props.C15",
        "lean_files": ["GrafeoModel/Model/Codec.lean", "GrafeoModel/Proofs/CodecLemmas.lean", "GrafeoModel/Props/C15.lean"],
        "allow_bv_decide": True,
        "cases": {"quick": 400, "thorough": 20000},
        "stateless": True,
        "trusted_base": COMMON_TB + [
            "bv_decide (one native LRAT-checker axiom) for the two zig-zag leaf lemmas zzDec_zzEnc / zzEnc_zzDec",
            "modelled, not verified: Rust Vec/slice semantics, u64/i64 primitive operations (modelled as Nat mod 2^64 / BitVec 64)",
        ],
        "modelled": "delta.rs (DeltaEncoding signed+unsigned, zigzag, to/from_bytes), bitpack.rs (BitPackedInts, DeltaBitPacked, to/from_bytes), runlength.rs (RunLengthEncoding, SignedRunLengthEncoding, get, iter, to/from_bytes)",
        "assumptions": [
            "unsigned delta / delta+bitpack: input sorted (the documented contract; the harness sorts before calling)",
            "counts below 2^32 for the byte formats (u32 count field)",
        ],
    },
}
