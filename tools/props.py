"""Per-property configuration for check.py."""

COMMON_TB = [
    "correspondence harness /verif/harness (Rust) + line-protocol parsers on both sides + check.py",
    "tools/extract.py (constant regeneration)",
]

PROPS = {
    "C15": {
        "stream": "c15",
        "lean_module": "GrafeoModel.Props.C15",
        "lean_files": ["GrafeoModel/Model/Codec.lean", "GrafeoModel/Proofs/CodecLemmas.lean", "GrafeoModel/Props/C15.lean"],
        "allow_bv_decide": True,
        "cases": {"quick": 400, "thorough": 20000},
        "stateless": True,
        "trusted_base": COMMON_TB + [
            "bv_decide (one native LRAT-checker axiom) for the two zig-zag leaf lemmas zzDec_zzEnc / zzEnc_zzDec",
            "modelled, not verified: Rust Vec/slice semantics, u64/i64 primitive operations (modelled as Nat mod 2^64 / BitVec 64)",
        ],
        "modelled": "delta.rs (DeltaEncoding signed+unsigned, zigzag, to/from_bytes), bitpack.rs (BitPackedInts, DeltaBitPacked, to/from_bytes), runlength.rs (RunLengthEncoding, SignedRunLengthEncoding, get, iter, to/from_bytes)",
        "assumptions": [
            "unsigned delta / delta+bitpack: input sorted (the documented contract; the harness sorts before calling)",
            "counts below 2^32 for the byte formats (u32 count field)",
        ],
    },
    "C03": {
        "stream": "tx",
        "lean_module": "GrafeoModel.Props.C03",
        "lean_files": ["GrafeoModel/Model/TxMgr.lean", "GrafeoModel/Proofs/TxMgrLemmas.lean", "GrafeoModel/Props/C03.lean", "GrafeoModel/Spec/TxSpec.lean"],
        "cases": {"quick": 1500, "thorough": 40000},
        "stateless": False,
        "ignore_sigs": ["readonly-ser-refused", "ser-refusal-unexpected", "write-skew-accepted"],
        "trusted_base": COMMON_TB + [
            "modelled, not verified: parking_lot RwLock (commit holds the transactions write lock for its whole body, so it is one atomic step), FxHashMap/HashSet (iteration order irrelevant: every loop is an existential test), AtomicU64",
            "representation: the two hash maps are one slot list indexed by tx id - 2 (ids are consecutive); mark_committed() is not modelled",
        ],
        "modelled": "transaction/manager.rs: begin_with_isolation, record_write, record_read, commit (both write-conflict loops, both SSI loops, epoch bump), abort, gc, state, min_active_epoch, active_count",
        "assumptions": ["single-threaded histories of manager calls (concurrent commits are C20's stream)"],
    },
    "C04": {
        "stream": "tx",
        "lean_module": "GrafeoModel.Props.C04",
        "lean_files": ["GrafeoModel/Model/TxMgr.lean", "GrafeoModel/Proofs/TxMgrLemmas.lean", "GrafeoModel/Props/C04.lean", "GrafeoModel/Spec/TxSpec.lean"],
        "cases": {"quick": 1500, "thorough": 40000},
        "stateless": False,
        "ignore_sigs": ["false-write-conflict", "lost-update-accepted"],
        "trusted_base": COMMON_TB + [
            "modelled, not verified: as C03",
        ],
        "modelled": "as C03 (same model); the SSI block of commit",
        "assumptions": ["reads and writes reach the manager through record_read/record_write (session level: see known findings)"],
    },
}
