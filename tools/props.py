"""Per-property configuration for check.py."""

COMMON_TB = [
    "correspondence harness /verif/harness (Rust) + line-protocol parsers on both sides + check.py",
    "tools/extract.py (constant regeneration)",
]

PROPS = {
    "C15": {
        "stream": "c15",
        "lean_module": "GrafeoModel.Props.C15",
        "lean_files": ["GrafeoModel/Model/Codec.lean", "GrafeoModel/Proofs/CodecLemmas.lean", "GrafeoModel/Props/C15.lean"],
        "allow_bv_decide": True,
        "cases": {"quick": 400, "thorough": 20000},
        "stateless": True,
        "trusted_base": COMMON_TB + [
            "bv_decide (one native LRAT-checker axiom) for the two zig-zag leaf lemmas zzDec_zzEnc / zzEnc_zzDec",
            "modelled, not verified: Rust Vec/slice semantics, u64/i64 primitive operations (modelled as Nat mod 2^64 / BitVec 64)",
        ],
        "modelled": "delta.rs (DeltaEncoding signed+unsigned, zigzag, to/from_bytes), bitpack.rs (BitPackedInts, DeltaBitPacked, to/from_bytes), runlength.rs (RunLengthEncoding, SignedRunLengthEncoding, get, iter, to/from_bytes)",
        "assumptions": [
            "unsigned delta / delta+bitpack: input sorted (the documented contract; the harness sorts before calling)",
            "counts below 2^32 for the byte formats (u32 count field)",
        ],
    },
    "C03": {
        "stream": "tx",
        "lean_module": "GrafeoModel.Props.C03",
        "lean_files": ["GrafeoModel/Model/TxMgr.lean", "GrafeoModel/Proofs/TxMgrLemmas.lean", "GrafeoModel/Props/C03.lean", "GrafeoModel/Spec/TxSpec.lean"],
        "cases": {"quick": 1500, "thorough": 40000},
        "stateless": False,
        "ignore_sigs": ["readonly-ser-refused", "ser-refusal-unexpected", "write-skew-accepted"],
        "trusted_base": COMMON_TB + [
            "modelled, not verified: parking_lot RwLock (commit holds the transactions write lock for its whole body, so it is one atomic step), FxHashMap/HashSet (iteration order irrelevant: every loop is an existential test), AtomicU64",
            "representation: the two hash maps are one slot list indexed by tx id - 2 (ids are consecutive); mark_committed() is not modelled",
        ],
        "modelled": "transaction/manager.rs: begin_with_isolation, record_write, record_read, commit (both write-conflict loops, both SSI loops, epoch bump), abort, gc, state, min_active_epoch, active_count",
        "assumptions": ["single-threaded histories of manager calls (concurrent commits are C20's stream)"],
    },
    "C04": {
        "stream": "tx",
        "lean_module": "GrafeoModel.Props.C04",
        "lean_files": ["GrafeoModel/Model/TxMgr.lean", "GrafeoModel/Proofs/TxMgrLemmas.lean", "GrafeoModel/Props/C04.lean", "GrafeoModel/Spec/TxSpec.lean"],
        "cases": {"quick": 1500, "thorough": 40000},
        "stateless": False,
        "ignore_sigs": ["false-write-conflict", "lost-update-accepted"],
        "trusted_base": COMMON_TB + [
            "modelled, not verified: as C03",
        ],
        "modelled": "as C03 (same model); the SSI block of commit",
        "assumptions": ["reads and writes reach the manager through record_read/record_write (session level: see known findings)"],
    },
    "C13": {
        "stream": "rdf",
        "lean_module": "GrafeoModel.Props.C13",
        "lean_files": ["GrafeoModel/Model/Rdf.lean", "GrafeoModel/Proofs/RdfLemmas.lean", "GrafeoModel/Props/C13.lean"],
        "cases": {"quick": 400, "thorough": 15000},
        "stateless": False,
        "trusted_base": COMMON_TB + [
            "modelled, not verified: FxHashSet / hashbrown maps (as an insertion-ordered duplicate-free list and association lists; results compared as sorted multisets), Term/Triple derive(PartialEq, Eq, Hash) (terms are codes of a pool of structurally distinct terms incl. look-alikes), parking_lot locks (single-threaded here; interleavings are C20)",
        ],
        "modelled": "graph/rdf/store.rs: insert, remove, clear, find (index selection), triples_with_*, len, stats, insert_in_tx/remove_in_tx/commit_tx/rollback_tx/find_with_pending",
        "assumptions": ["SPARQL parser/translator/planner are not modelled (query-level stream not yet built)"],
    },
    "C06": {
        "stream": "wal",
        "lean_module": "GrafeoModel.Props.C06",
        "lean_files": ["GrafeoModel/Model/Wal.lean", "GrafeoModel/Proofs/WalDefs.lean", "GrafeoModel/Proofs/WalLemmas.lean", "GrafeoModel/Props/C06.lean"],
        "allow_bv_decide": True,
        "cases": {"quick": 40, "thorough": 400},
        "stateless": True,
        "trusted_base": COMMON_TB + [
            "hypothesis of c06_corrupt_frame_never_applied, not proved: an in-place change of a payload changes its CRC-32 (true of CRC-32 for single-bit and short burst errors; the harness checks it on every generated flip)",
            "crash model (assumption about the file system): a crash leaves a byte prefix of each log file; rename is atomic",
            "modelled, not verified: BufWriter/File append semantics, bincode payloads are opaque byte strings here (their format is C16's stream), crc32fast (re-implemented bit by bit in the driver and compared through the file bytes)",
        ],
        "modelled": "wal/log.rs: WalManager::log framing, ensure_active_log append-on-reopen; wal/recovery.rs: read_record, recover_internal commit rule (TxCommit/TxAbort/Checkpoint), single log file",
        "assumptions": ["single log file per scenario in this stream (rotation / checkpoint.meta skipping is modelled in Wal.recover but not yet streamed)",
                        "GrafeoDB-level crash scenarios (open -> ops -> kill -> open) are C05's stream"],
    },
    "C11": {
        "stream": "ops",
        "lean_module": "GrafeoModel.Props.C11",
        "lean_files": ["GrafeoModel/Model/Ops.lean", "GrafeoModel/Props/C11.lean"],
        "cases": {"quick": 400, "thorough": 12000},
        "stateless": True,
        "trusted_base": COMMON_TB + [
            "modelled, not verified: DataChunk / DataChunkBuilder / ValueVector (a chunk is the list of its selected rows), the Operator pull protocol (a child is the list of chunks it returns before None)",
        ],
        "modelled": "operators/limit.rs (LimitOperator, SkipOperator, LimitSkipOperator), operators/union.rs, operators/distinct.rs (RowKey, seen set, builder capacity early return)",
        "assumptions": ["predicate three-valued partition (filter.rs), count(*), sort and the query-level identities in the five languages are not yet modelled/streamed: this check decides the limit/skip/union/distinct half at operator level"],
    },
    "C16": {
        "stream": "val",
        "lean_module": "GrafeoModel.Props.C16",
        "lean_files": ["GrafeoModel/Model/F64.lean", "GrafeoModel/Model/Val.lean", "GrafeoModel/Props/C16.lean"],
        "cases": {"quick": 3000, "thorough": 150000},
        "stateless": True,
        "trusted_base": COMMON_TB + [
            "modelled, not verified: IEEE-754 comparison/classification of f64 and the `i64 as f64` rounding (modelled on bit patterns, compared with the hardware on every generated pattern incl. an exhaustive table of special values), std::hash::Hash impls of primitives/str/slices (the words fed to a recording Hasher are compared exactly), derive(PartialEq/Hash) on Value/Timestamp/PropertyKey",
        ],
        "modelled": "types/value.rs: OrderedFloat64 (eq, cmp, hash), OrderableValue (eq, cmp, hash, type ordinals), HashableValue (eq, hash; nested lists, maps, vectors)",
        "assumptions": ["serialisation round-trips (bincode WAL/snapshot, spill serializer, JSON) are not yet modelled: this check decides the compare/hash/order half",
                        "HashableValue theorem covers values without maps; maps are covered by the correspondence stream only"],
    },
    "C17": {
        "stream": "exec",
        "lean_module": "GrafeoModel.Props.C17",
        "lean_files": ["GrafeoModel/Model/Exec.lean", "GrafeoModel/Props/C17.lean"],
        "cases": {"quick": 500, "thorough": 20000},
        "stateless": True,
        "trusted_base": COMMON_TB + [
            "modelled, not verified: std BinaryHeap (abstracted as 'pop a run whose head is minimal' - the theorem holds for every such discipline), rayon/crossbeam scheduling (abstracted as an arbitrary permutation of morsels), f64 sums (modelled over integers; the stream uses integer data below 2^53)",
        ],
        "modelled": "parallel/morsel.rs generate_morsels; parallel/merge.rs merge_sorted_runs (single ascending key), MergeableAccumulator add/merge (count, sum, min, max, first over integers)",
        "assumptions": ["push-based operators, ParallelPipeline::execute end-to-end, spilling sort/aggregate and spill-file cleanup are not yet modelled/streamed: this check decides the merge/partition building blocks"],
    },
}
