#!/usr/bin/env python3
"""merge_findings.py <file> : append the entries of a builder's NEW_FINDINGS.json to known_findings.json (ids must be new)."""
import json, sys
k = json.load(open('/verif/known_findings.json'))
ids = {f['id'] for f in k}
new = json.load(open(sys.argv[1]))
for f in new:
    if f['id'] in ids:
        print("skip (exists)", f['id']); continue
    for key in ('id', 'property', 'status', 'call_site', 'signature', 'witness', 'summary'):
        assert key in f, (f.get('id'), key)
    k.append(f); print("added", f['id'], f['signature'], f['witness'])
json.dump(k, open('/verif/known_findings.json', 'w'), indent=1, ensure_ascii=False)
