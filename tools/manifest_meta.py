"""Human-written manifest texts per property."""
HOOK_COMMITS = []

NOT_BUILT = "not claimed yet: model/theorems/correspondence for this property are not built in this round (planned in DESIGN.md section 7); the technique applies"

NOT_APPLICABLE = {pid: NOT_BUILT for pid in ["C%02d" % i for i in range(1, 21)]}

META = {
    "C15": {
        "text": "Machine-checked Lean 4 theorems: for every input sequence (any length, any values, any resulting bit width) the executable models of zig-zag, signed/unsigned delta, bit-packing (pack/unpack/get), delta+bit-packing, run-length (encode/decode/get, signed) and the byte serialisations round-trip; the model is tied to the Rust code by exact comparison of encoded words/bytes and decoded outputs on generated sequences. Full statement refuted for DeltaBitPacked on [0] (witness theorem, known finding).",
        "design_ref": "DESIGN.md 7 C15",
        "note": "Trusted: Lean kernel; propext/Classical.choice/Quot.sound; one bv_decide native axiom for the zig-zag leaf lemmas; the correspondence harness and generators; Rust integer/Vec semantics as modelled. Not yet modelled: dictionary, bitvec, codec selector, property-column compression, adjacency chunks, succinct structures (correspondence/theorems to be added).",
        "technique": "Lean 4 proof (induction, base-2^b digit argument) + differential correspondence of model vs implementation",
    },
}
