"""Human-written manifest texts per property."""
HOOK_COMMITS = ["116d336", "8bafbd8", "50a8b9e"]

NOT_BUILT = "not claimed yet: model/theorems/correspondence for this property are not built in this round (planned in DESIGN.md section 7); the technique applies"

NOT_APPLICABLE = {pid: NOT_BUILT for pid in ["C%02d" % i for i in range(1, 21)]}

META = {
    "C15": {
        "text": "Machine-checked Lean 4 theorems: for every input sequence (any length, any values, any resulting bit width) the executable models of zig-zag, signed/unsigned delta, bit-packing (pack/unpack/get), delta+bit-packing, run-length (encode/decode/get, signed) and the byte serialisations round-trip; the model is tied to the Rust code by exact comparison of encoded words/bytes and decoded outputs on generated sequences. Full statement refuted for DeltaBitPacked on [0] (witness theorem, known finding).",
        "design_ref": "DESIGN.md 7 C15",
        "note": "Trusted: Lean kernel; propext/Classical.choice/Quot.sound; one bv_decide native axiom for the zig-zag leaf lemmas; the correspondence harness and generators; Rust integer/Vec semantics as modelled. Not yet modelled: dictionary, bitvec, codec selector, property-column compression, adjacency chunks, succinct structures (correspondence/theorems to be added).",
        "technique": "Lean 4 proof (induction, base-2^b digit argument) + differential correspondence of model vs implementation",
    },
    "C03": {
        "text": "Machine-checked Lean 4 theorems over ALL histories of begin/write/read/commit/abort/gc (any number of transactions and entities, gc at any point): an inductive invariant of the manager model (retention of every committed transaction an active one may still conflict with) gives first-committer-wins safety, no false refusal (every WriteConflict has an overlapping committed writer as its cause), unique strictly increasing commit epochs, and gc-before-commit transparency; the model is tied to TransactionManager by running both on generated histories and comparing every return value and observer.",
        "design_ref": "DESIGN.md 7 C03",
        "note": "Trusted: Lean kernel + 3 standard axioms; correspondence harness; commit's atomicity under the transactions write lock (single-threaded histories here; threads in C20). gc transparency for gc placed anywhere in a history is checked against a gc-free specification run, proved only for gc immediately before a commit. Session level (sessions never call record_write) is not yet streamed.",
        "technique": "Lean 4 proof (inductive invariant over operation histories, ghost log) + differential correspondence with the real TransactionManager",
    },
    "C04": {
        "text": "Machine-checked Lean 4 theorems over ALL histories: every committed Serializable transaction's reads were not overwritten between its start and its commit (so commit order is an equivalent serial order), write skew between two Serializable transactions is impossible, non-overlapping transactions are never refused; 'read-only transactions are never refused' is refuted by a witness theorem and listed as a known finding. Tied to the code by the same correspondence stream as C03.",
        "design_ref": "DESIGN.md 7 C04",
        "note": "Trusted: as C03. Reads/writes are those recorded through record_read/record_write.",
        "technique": "Lean 4 proof (invariant: SSI validation + retention) + differential correspondence",
    },
    "C13": {
        "text": "Machine-checked Lean 4 theorems for ALL sequences of insert/remove/clear, with and without the object index, and all eight pattern shapes: the store model is a set (membership characterised by the last relevant operation), every lookup equals filtering the set, each match is returned once, the per-component accessors and the index key sets agree with the set, and a transaction's pending view equals the post-commit view while staying invisible to others. Tied to RdfStore by running both on generated sequences and comparing every return value as sorted multisets.",
        "design_ref": "DESIGN.md 7 C13",
        "note": "Trusted: Lean kernel + 3 standard axioms; harness; hash containers as modelled. SPARQL front end (parser, translator, planner_rdf) is not modelled and not yet streamed: the claim is for the store-level half of the property.",
        "technique": "Lean 4 proof (index invariant by induction over operations, refinement to a set) + differential correspondence with the real RdfStore",
    },
    "C06": {
        "text": "Machine-checked Lean 4 theorems about the log format and replay rule, for EVERY record list, payload, checksum function and EVERY truncation length: a log cut at any byte yields exactly the records whose frames were completely written (a torn frame is never returned; everything before the cut survives), an in-place corrupted frame stops replay before it, the commit rule is prefix-monotone and drops uncommitted tails. Tied to WalManager/WalRecovery by writing real logs, truncating them at every byte length, flipping bits, appending after a crash, and comparing recovered records with the model byte for byte.",
        "design_ref": "DESIGN.md 7 C06",
        "note": "Trusted: Lean kernel + standard axioms (+ the bv_decide axiom inherited from the shared codec lemma file); the CRC hypothesis; the file-system crash model. Known finding: records appended after a torn tail are never recovered. Rotation/checkpoint-metadata crash points and GrafeoDB-level scenarios are not yet streamed.",
        "technique": "Lean 4 proof (induction over the record list for every cut point) + fault-enumerating correspondence with the real WAL",
    },
    "C11": {
        "text": "Machine-checked Lean 4 theorems for EVERY chunking of the input (any number and sizes of chunks, so the 2047/2048/2049 boundaries are inside the quantifier) and every skip/limit value: LIMIT = take, SKIP = drop, SKIP+LIMIT = window (and equals Skip then Limit), UNION ALL = concatenation, window row counts, DISTINCT = first row of every key once in order (for input chunks within the builder capacity; an oversized chunk loses rows: witness + known finding). Tied to the real operators by feeding generated chunk streams through LimitOperator, SkipOperator, LimitSkipOperator, UnionOperator, DistinctOperator and comparing output chunk by chunk.",
        "design_ref": "DESIGN.md 7 C11",
        "note": "Trusted: Lean kernel + 3 standard axioms; harness; chunk abstraction. Not covered yet: the predicate partition p / NOT p / p IS NULL, count(*) through the aggregate operator, ORDER BY, and the query-level forms in each language.",
        "technique": "Lean 4 proof (induction over the chunk list) + differential correspondence with the real operators",
    },
    "C16": {
        "text": "Machine-checked Lean 4 theorems over ALL 2^64 float bit patterns and all integers: OrderedFloat64's cmp is a total order consistent with its eq (an equivalence), and equal OrderedFloat64 values hash equally (repaired code); HashableValue's equality is structural identity on the bit-level representation to any nesting depth, hence an equivalence whose equal values hash equally, and it never merges an int with a float or two floats with different bits. OrderableValue's cross-type equality is refuted by witness theorems (not transitive at 2^53; Int 1 = Float 1.0 with different hash input) and listed as known findings. Tied to the code by comparing ==, cmp and the exact words fed to a recording Hasher on generated values (special float table exhaustively pairwise).",
        "design_ref": "DESIGN.md 7 C16",
        "note": "Trusted: Lean kernel + 3 standard axioms; harness; IEEE comparison as modelled on bits. Not covered yet: the serialisation half (bincode, spill, JSON).",
        "technique": "Lean 4 proof (case analysis on float classes, order on an integer key; mutual structural induction for nested values) + differential correspondence incl. recorded hash input",
    },
    "C17": {
        "text": "Machine-checked Lean 4 theorems: morsels partition [0,total) exactly once for EVERY row count and morsel size; the k-way merge of sorted runs is a sorted permutation of all rows for EVERY number and length of runs and EVERY heap tie-breaking discipline; partial aggregates merged in worker order equal the sequential aggregate for EVERY split among any number of workers; a stateless per-row chain run over the morsels in ANY schedule is a permutation of the sequential output. Tied to generate_morsels, merge_sorted_runs and MergeableAccumulator by comparing outputs on generated inputs.",
        "design_ref": "DESIGN.md 7 C17",
        "note": "Trusted: Lean kernel + 3 standard axioms; harness; heap and scheduler abstractions. Not covered yet: push operators vs pull operators, the real ParallelPipeline with threads, external sort / spilling aggregation and spill-file cleanup.",
        "technique": "Lean 4 proof (induction; permutation + sortedness for any minimal-head selection) + differential correspondence",
    },
    "C14": {
        "text": "Machine-checked Lean 4 theorem over ALL sequences of store-level mutations (create/delete node, detach, create/delete edge, set/remove property, add/remove label, create/drop index): an inductive invariant (label index mirrors node_labels; identifiers are never reused; labelled nodes are live) gives 'label lookup = exactly the live nodes carrying the label' and 'a deleted node is listed under no label'. All other access paths (neighbour lists both directions, degrees, get_node, property lookup with and without index, counts, enumerations, with and without backward adjacency, crossing the adjacency chunk thresholds) are compared after every prefix with the model and with a plain-graph specification; two classes of genuine inconsistency are listed as known findings.",
        "design_ref": "DESIGN.md 7 C14",
        "note": "Trusted: Lean kernel + 3 standard axioms; harness; container abstractions. The theorem is for the label path only; the rest is correspondence (translation-validation strength).",
        "technique": "Lean 4 proof (inductive invariant over operation sequences) + differential correspondence against model and plain-graph specification",
    },
    "C01": {
        "text": "The full snapshot-read statement is REFUTED on this tree by machine-checked witness theorems (dirty read; entities created at epoch >= 1 missing from store-epoch enumerations), each replayed against the real sessions and listed as a known finding with its own signature. Proved for every state and reader (partial theorems): creations of transactions that began after the reader's snapshot are invisible; a transaction sees its own creations. The executable model of the session/store/manager layer reproduces the implementation exactly on generated multi-session histories (reads of every kind after almost every step, incl. GQL scans), and every impl-vs-snapshot-isolation-oracle difference must carry a listed signature.",
        "design_ref": "DESIGN.md 7 C01",
        "note": "Trusted: Lean kernel + 3 standard axioms; harness; the SI oracle in the driver. Histories use node/edge creation as mutations; property/label/delete mutations and SPARQL reads are not yet streamed.",
        "technique": "Lean 4 proof (visibility lemmas + witness theorems) + differential correspondence against model and snapshot-isolation oracle",
    },
    "C02": {
        "text": "Proved for every store state and every later reader: after rollback no versioned read returns a node all of whose versions the rolled-back transaction created; for the triple store, pending work is invisible to others and a transaction's view equals its post-commit view (shared with C13). Refuted by a witness theorem: an edge created in a rolled-back transaction stays in the adjacency lists (known finding). Correspondence: the same multi-session histories as C01, with every transaction ended by commit or rollback and all sessions reading everything afterwards.",
        "design_ref": "DESIGN.md 7 C02",
        "note": "Trusted: as C01. Mutations in the streamed histories are creations; failed commits and dropped sessions are not streamed.",
        "technique": "Lean 4 proof (rollback lemma over the version table; RDF buffer theorems) + differential correspondence",
    },
    "C05": {
        "text": "Machine-checked Lean 4 theorem over ALL sequences of logged API calls (create/delete node and edge, set property, add/remove label) interleaved with explicit checkpoints and close->reopen cycles, of any length: an invariant (replaying committed-then-pending log records reproduces the live store) gives 'reopen(close(db)) is exactly the same store', including the identifier counters. The unlogged calls are outside the fragment by necessity: witness theorem + two known findings (remove_*_property, query mutations). Tied to GrafeoDB by generated sessions on real temporary directories: mutate, checkpoint, dump, close, reopen, dump.",
        "design_ref": "DESIGN.md 7 C05",
        "note": "Trusted: Lean kernel + 3 standard axioms; harness; the record-level log abstraction (byte level is C06). A defect found by this check (checkpoint marker without commit marker discarded the session's earlier records) was repaired.",
        "technique": "Lean 4 proof (inductive invariant relating log replay to the live store) + differential correspondence on real directories",
    },
    "C07": {
        "text": "Copies (export->import, to_memory, save->open) are modelled as 'enumerate at the store epoch and re-create with ids'; the model reproduces the implementation's copies exactly on generated graphs (full dumps compared, export determinism and source-unchanged asserted). The full statement is refuted for graphs touched at a manager epoch >= 1 by a machine-checked witness (the copy is empty while the source has the node) - the same root cause as C01's store-epoch finding; the save->open path inherits C05's reopen theorem.",
        "design_ref": "DESIGN.md 7 C07",
        "note": "Trusted: as C05. No general theorem yet that copyStore preserves the dump of every epoch-0 store; invalid-bytes handling of import_snapshot is not streamed yet.",
        "technique": "Lean 4 witness + reuse of the C05 theorem; differential correspondence of copies against model and plain-graph specification",
    },
    "C08": {
        "text": "Lean 4 theorem c08_pipeline_bindings_eq_enumeration: for EVERY graph with unique node ids and EVERY chain pattern (any number of hops, any directions, labels, types), the rows the planner's pipeline produces (scan, then one adjacency expansion per hop) are exactly the assignments of the pattern-enumeration semantics; the clauses after the pattern (filter, projection, DISTINCT, ORDER BY, SKIP/LIMIT, aggregates) are one shared definition applied in clause order. The model is tied to the code by running every generated query, rendered as GQL and as Cypher, through the real front end on the real store and comparing rows with the model (and the two languages with each other).",
        "design_ref": "DESIGN.md 7 C08, 12",
        "note": "Theorems: same members (c08_pipeline_bindings_eq_enumeration) and same multiplicities (c08_pipeline_bindings_perm_enumeration: the pipeline's bindings are a permutation of the enumeration's; corollary for queries without DISTINCT/ORDER BY/SKIP/LIMIT). The clauses after the pattern are one shared definition, tied to the code by the correspondence only. Repaired: undirected self-loop matched twice, RETURN DISTINCT ignored, Cypher ORDER BY on a returned property, GQL LIMIT before ORDER BY, stacked filters. Gremlin/GraphQL renderings, variable-length paths and aggregates other than count are not streamed.",
        "technique": "Lean 4 proof (pipeline = enumeration, by induction over the hop list) + differential correspondence of query text -> rows against the executable model in two languages",
    },
    "C09": {
        "text": "Lean 4 theorems about a model of the logical plan algebra and of the optimizer's rewrite functions as coded (Model/Plan.lean): for EVERY graph, every interpretation of uninterpreted symbols and every plan, filter push-down preserves the rows as a list (pushFilters_sound, under the residual static condition wfPush, which every plan without duplicate column names and `*` items satisfies: wfPush_of_wfScope), projection push-down is the identity, and any join reordering accepted by the proved checker is a permutation; hence optimize_sound for all 2^3 switch sets. The model's rewrite is compared TEXTUALLY with the real Optimizer's output on every generated plan (translate -> bind -> optimize, s-expression serialisation), the model's eval with the real executor's rows, and every switch/statistics/factorized combination end to end with the query model.",
        "design_ref": "DESIGN.md 7 C09, 12",
        "note": "Partial: residual hypothesis for plans with duplicate column names (text-reachable only with a node variable named like a generated column) and `*` items (plan API only); join reordering (never fires on query text) is validated per sample, its plan-API defects are known findings. Repaired on the way: six unsound push-down shapes (29ddb25, cc52572, ec42546).",
        "technique": "Lean 4 proof (structural induction over plans: rewrite preserves bag semantics) + textual correspondence of the model rewrite with the real optimizer + executor-vs-eval + end-to-end switch matrix",
    },
    "C10": {
        "text": "Lean 4 theorems about a model of one property column with its zone map, the property indexes and the planner's filter paths, for EVERY history of node creation/deletion, property set/overwrite/remove, zone-map rebuild (any iteration order), index creation/drop and EVERY value (all f64 bit patterns incl. NaN, +-0, infinities, subnormals; all i64): if min/max pruning says 'no row can match' then no current value passes the engine's filter predicate (c10_zone_map_sound_filter, no value-class hypothesis), and every path the planner may take - prune, index lookup with its key set, range lookup, generic filter - returns the generic filter's node set, which depends only on the live nodes and their current values (c10_planner_path_independent, for histories writing to live nodes). The model is compared line by line with PropertyStorage / LpgStore / the planner on generated histories; physical configurations (factorized, index subsets, plan cache, data changes between executions) are compared end to end with the query model.",
        "design_ref": "DESIGN.md 7 C10, 12",
        "note": "Open findings (store API level, not reachable from query text): index keys are bit patterns while the scan uses Value == (+-0, NaN), writes to ids that are not live nodes, boolean order in find_nodes_in_range. Repaired on the way: nine defects across pruning / filter / range / index paths.",
        "technique": "Lean 4 proof (invariants by induction over operation histories; floating-point facts on bit patterns) + differential correspondence with the real storage, planner and engine",
    },
    "C12": {
        "text": "Lean 4 theorems about a model of the GQL lexer: for EVERY character list, every token's start and end are character boundaries within the input (so no slice can panic), every call of next_token on non-exhausted input consumes at least one character, and tokenize terminates with exactly one final EOF within length+1 tokens. The model is compared token by token with the real lexer on generated and mutated texts (incl. non-ASCII outside literals). The other four lexers and all parsers/translators/planners are covered by a crash/hang SEARCH only (child process, catch_unwind, watchdog, address-space limit).",
        "design_ref": "DESIGN.md 7 C12, 12",
        "note": "Partial: proof for one lexer; search for the rest. Known findings: deep nesting overflows the stack in all five front ends, plus SPARQL/Gremlin findings listed in known_findings.json.",
        "technique": "Lean 4 proof (lexer cursor invariant, progress, termination) + differential token correspondence; crash/hang search for unmodelled stages",
    },
    "C18": {
        "text": "Lean 4 theorems about a model of the HNSW search control logic (greedy descent, beam search with candidate/result heaps and visited set, final sort/truncate), for EVERY layered graph, distance key function, k, ef and fuel: results are at most k, distinct, members of the index, paired with their own distance key, sorted; an empty index returns nothing; with enough fuel every search returns k results when k reachable vectors exist; brute force returns the true k smallest; batch = singles. The model runs on the implementation's own dumped graph (hook) and its output is compared with search_with_ef; removed ids, re-inserts, all four metrics, ties and NaN distances are streamed as verdicts.",
        "design_ref": "DESIGN.md 7 C18, 12",
        "note": "Floating point, SIMD kernels, quantisation and graph construction are not modelled (differential only). Known finding: NaN distance breaks brute-force order.",
        "technique": "Lean 4 proof (search invariants by induction over fuel) + differential correspondence on the implementation's dumped graph",
    },
    "C20": {
        "text": "Lean 4 theorems over ALL interleavings (any number of threads, any programs, any schedule): (memory) the buffer manager's allocated total never exceeds the hard limit, always equals held plus in-flight bytes and returns to the held bytes at quiescence; (triple store) every interleaving of inserts and removes is linearizable and leaves the three indexes consistent with the primary set; (deadlock) the lock-order graph regenerated from the source on every run has a rank certificate checked by `decide`, and a ranked lock graph admits no deadlocked set of threads; (epochs) commit is one critical section, so C03's uniqueness theorem is the concurrent statement. The step models are tied to the code by executing generated programs under forced schedules (yield-point hook) and comparing results, final state and invariants with the model.",
        "design_ref": "DESIGN.md 7 C20, 12",
        "note": "Partial: LpgStore multi-step operations are covered by the lock-order theorem and by repairs only, not by an interleaving model; WAL/arena/HNSW/cache concurrency not modelled. Witness theorems show the pre-repair code failing each clause.",
        "technique": "Lean 4 proof (invariants over all schedules; rank-certificate acyclicity of the extracted lock graph) + forced-schedule differential correspondence + source-to-model lock-graph translator",
    },
    "C19": {
        "text": "Translation validation with machine-checked result checkers: Lean 4 theorems prove, for EVERY finite directed multigraph, source and candidate result, that a result accepted by the checker is correct - reach orders (hence BFS/DFS visit sets), shortest-path distance maps for any integer weights (accepted maps are unique, so Dijkstra = Bellman-Ford), negative-cycle certificates, topological orders (sound and complete; cyclic graphs admit none), weak and strong component partitions (same class iff connected / mutually reachable), spanning forests (connectivity and edge count). On every generated graph the implementation's result must equal a result that the proved checker accepts. The algorithms' code itself is not modelled (per-sample decision, not a proof about the algorithm on all graphs).",
        "design_ref": "DESIGN.md 7 C19",
        "note": "Trusted: Lean kernel + 3 standard axioms; the harness; canonicalisation of non-unique outputs (visit order -> set, predecessor choice -> distances, topological order -> valid/none verdict checked in Rust). Known findings: kruskal with parallel edges, prim ignoring incoming edges, prim on disconnected graphs.",
        "technique": "Lean 4 proofs of checker soundness (certificates) + per-sample validation of the real algorithms' outputs",
    },
}
