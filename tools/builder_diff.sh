#!/bin/bash
# builder_diff.sh <copy-dir> : files that differ between a builder's copy and /verif (sources only)
diff -rq /verif "$1" -x .git -x .lake -x target -x Audit -x __pycache__ -x replays -x evidence -x Generated -x '*.pyc' -x Cargo.lock 2>/dev/null | sed "s#/verif/##; s#$1/##"
