#!/bin/bash
# matrix_isolated.sh [seed-name ...] : like seeded_matrix.sh, but without touching /repo's working tree:
# a scratch worktree of /repo's HEAD (/tmp/repo-m) and a scratch copy of /verif (/tmp/vm) whose harness,
# extractors and check.py point at that worktree. Used while other jobs are building against /repo.
# Prints DETECTED / MISSED / NOAPPLY per seeded change; removes both scratch directories at the end.
set -u
R=/tmp/repo-m; V=/tmp/vm
git -C /repo worktree remove --force $R 2>/dev/null; rm -rf $R $V
git -C /repo worktree add --detach $R HEAD >/dev/null 2>&1 || { echo "cannot create worktree"; exit 2; }
mkdir -p $V
rsync -a --exclude .git --exclude replays /verif/ $V/
sed -i "s#/repo/#$R/#g" $V/harness/Cargo.toml $V/harness/src/ser.rs
sed -i "s#\"/repo/Cargo.lock\"#\"$R/Cargo.lock\"#; " $V/check.py
sed -i "s#^REPO = \"/repo\"#REPO = \"$R\"#" $V/tools/extract.py
export VERIF_REPO=$R
cd $V
names="$@"; [ -z "$names" ] && names=$(ls -d seeded/*/ | xargs -n1 basename)
for n in $names; do
  d=seeded/$n
  p=$(python3 -c "import json;print(json.load(open('$d/meta.json'))['property'])")
  if ! git -C $R apply --check $V/$d/patch.diff 2>/dev/null; then echo "NOAPPLY  $n"; continue; fi
  git -C $R apply $V/$d/patch.diff
  out=$(./check.py $p --tier quick 2>&1); rc=$?
  git -C $R checkout -- .
  v=$(echo "$out" | grep -c "^VIOLATION")
  nf=$(echo "$out" | grep "^VIOLATION" | grep -c "no-failing-input-found")
  if [ $rc -ne 0 ] && [ $v -gt 0 ]; then echo "DETECTED $n property=$p violations=$v without-input=$nf"; else echo "MISSED   $n property=$p rc=$rc"; echo "$out" | tail -5 | sed 's/^/    /'; fi
done
cd /
git -C /repo worktree remove --force $R 2>/dev/null; rm -rf $R $V
