#!/usr/bin/env python3
"""Write MANIFEST.json from tools/props.py + tools/manifest_meta.py (kept valid at all times)."""
import json, os, sys
ROOT = os.path.join(os.path.dirname(os.path.abspath(__file__)), "..")
sys.path.insert(0, os.path.dirname(os.path.abspath(__file__)))
from props import PROPS
from manifest_meta import META, NOT_APPLICABLE, HOOK_COMMITS

checks = []
for pid in sorted(PROPS):
    cfg = PROPS[pid]
    m = META[pid]
    checks.append({
        "property_id": pid,
        "quick_cmd": "./check.py %s --tier quick" % pid,
        "thorough_cmd": "./check.py %s --tier thorough" % pid,
        "evidence_file": "/verif/evidence/%s.json" % pid,
        "replay_cmd_template": "./check.py %s --replay {path}" % pid,
        "engine": "lean4-proof+correspondence",
        "level_claimed": {"category": cfg.get("level", "proof"), "text": m["text"], "design_ref": m["design_ref"]},
        "level_note": m["note"],
        "technique": m["technique"],
    })
manifest = {
    "version": 1,
    "setup_cmd": "./setup.sh",
    "hooks": {
        "guard": "--cfg grafeodb_grafeo_verif",
        "enable": "RUSTFLAGS='--cfg grafeodb_grafeo_verif' (set in /verif/harness/.cargo/config.toml; the harness crate path-depends on /repo/crates/*)",
        "baseline_off_cmd": "cd /repo && cargo nextest run --workspace --no-fail-fast --tool-config-file pb:/w/lib/nextest.toml --profile pb --test-threads 8 --offline || cargo test --workspace --no-fail-fast --offline",
        "source_commits": HOOK_COMMITS,
        "add_only": True,
    },
    "engines": [{
        "name": "lean4-proof+correspondence", "path": "/verif/check.py",
        "serves_properties": sorted(PROPS),
        "kind_free_text": "Lean 4 theorems about an executable model (lean/GrafeoModel), tied to /repo by a differential correspondence harness (harness/, Rust, path-depends on /repo/crates) and by constants regenerated from the source (tools/extract.py)",
    }],
    "checks": checks,
    "not_applicable": [{"property_id": k, "reason": v} for k, v in sorted(NOT_APPLICABLE.items()) if k not in PROPS],
    "notes": "See DESIGN.md. Known genuine defects of the pinned tree are listed in known_findings.json and printed as KNOWN-FINDING lines.",
}
json.dump(manifest, open(os.path.join(ROOT, "MANIFEST.json"), "w"), indent=1)
print("MANIFEST.json: %d checks, %d not_applicable" % (len(checks), len(manifest["not_applicable"])))
