//! Stream `push` — C17: push-based operators and `Pipeline`, the real `ParallelPipeline`,
//! external sort / spillable aggregation / partitioned state with spill-directory listing.
//!
//! Op lines (one output line each; rows are value tokens joined by `,`, rows joined by `;`,
//! the empty result is `norows`):
//!
//!   push chain <src> <table> <ops…>        push `Pipeline` (source → operators → sink)
//!   push pull  <src> <table> <ops…>        the pull operators of operators/*.rs on the same input
//!   push par <workers> <morsel> <chunk> <srckind> <table> <ops…>   real `ParallelPipeline`
//!   push xsort <threshold> <src> <table> <keys>     `SpillableSortPushOperator`
//!   push xruns <keys> <mem-table> <run-table>…      `ExternalSort` driven directly
//!   push xagg <threshold> <src> <table> <ops: one g: op>   `SpillableAggregatePushOperator`
//!   push part <nparts> <script…>            `PartitionedState<i64>`
//!   push selop <op> <phys-table> <sel>      one push operator on a chunk that carries a selection vector
//!   push big <n> <mult> <ops…>              chain over n generated rows in ONE chunk (u16 selection indices)
//!   push expr <op> <a> <b>                  `BinaryExpr` of the push project operator on one row
//!
//!   <src>   = c:<n1>,<n2>,…  explicit chunk sizes (a source that ignores the requested size)
//!           | v               `VectorSource` (honours the chunk size computed from the operator hints)
//!   <table> = r1;r2;…  | -  | gen:<n>:<mult>:<mod>   (row i = I((i*mult)%mod), I(i))
//!   <ops>   = f:<col>:<eq|ne|lt|le|gt|ge>:<tok>   filter
//!           | p:<e>,<e>…   e = c<k> | k<tok> | b<add|sub|mul|div|mod>.<e>.<e>   project
//!           | l:<n> | s:<n> | sl:<s>:<n>            limit / skip / skip+limit
//!           | d | d:<cols> | dm | dm:<cols>         distinct (incremental / materializing)
//!           | o:<col><a|d><f|l>.…                   sort
//!           | g:<cols or ->:<aggs>   aggs = cs | c<k> | s<k> | mn<k> | mx<k>  joined by `.`
use crate::util::*;
use crate::vals::{tok, untok};
use grafeo_common::memory::buffer::PressureLevel;
use grafeo_common::types::{LogicalType, Value};
use grafeo_core::execution::operators as ops;
use grafeo_core::execution::operators::push as pushops;
use grafeo_core::execution::operators::{Operator, OperatorError, OperatorResult};
use grafeo_core::execution::parallel::{
    self as par, CloneableOperatorFactory, Morsel, ParallelChunkSource, ParallelPipeline, ParallelPipelineConfig,
    ParallelSource, ParallelVectorSource,
};
use grafeo_core::execution::spill::{self, ExternalSort, PartitionedState, SpillManager};
use grafeo_core::execution::{
    DataChunk, Pipeline, PushOperator, SelectionVector, Sink, Source, ValueVector, VectorSource,
};
use std::collections::HashMap;
use std::path::PathBuf;
use std::sync::atomic::{AtomicU64, Ordering as AO};
use std::sync::{Arc, Mutex};

type Row = Vec<Value>;

// ---------------------------------------------------------------------------------------------
// text
// ---------------------------------------------------------------------------------------------

fn parse_row(s: &str) -> Row {
    s.split(',').map(untok).collect()
}

fn parse_table(s: &str) -> Vec<Row> {
    if s == "-" {
        return vec![];
    }
    if let Some(rest) = s.strip_prefix("gen:") {
        let p: Vec<u64> = rest.split(':').map(|x| x.parse().unwrap()).collect();
        let (n, mult, md) = (p[0], p[1], p[2]);
        return (0..n).map(|i| vec![Value::Int64(((i * mult) % md) as i64), Value::Int64(i as i64)]).collect();
    }
    s.split(';').map(parse_row).collect()
}

fn show_row(r: &Row) -> String {
    r.iter().map(tok).collect::<Vec<_>>().join(",")
}

fn show_rows(rs: &[Row]) -> String {
    if rs.is_empty() { "norows".into() } else { rs.iter().map(show_row).collect::<Vec<_>>().join(";") }
}

fn show_sorted(rs: &[Row]) -> String {
    let mut v: Vec<String> = rs.iter().map(show_row).collect();
    v.sort();
    if v.is_empty() { "norows".into() } else { v.join(";") }
}

fn parse_sizes(s: &str) -> Vec<usize> {
    let s = s.strip_prefix("c:").unwrap_or(s);
    if s.is_empty() || s == "-" { vec![] } else { s.split(',').map(|x| x.parse().unwrap()).collect() }
}

/// chunk of rows; a zero-row chunk keeps the column count `ncols`
fn build_chunk(rows: &[Row], ncols: usize) -> DataChunk {
    let cols: Vec<ValueVector> = (0..ncols)
        .map(|c| {
            let vals: Vec<Value> = rows.iter().map(|r| r[c].clone()).collect();
            ValueVector::from_values(&vals)
        })
        .collect();
    DataChunk::new(cols)
}

fn split_chunks(rows: &[Row], sizes: &[usize]) -> Vec<DataChunk> {
    let ncols = rows.first().map_or(1, |r| r.len());
    let mut out = Vec::new();
    let mut pos = 0;
    for &n in sizes {
        let end = (pos + n).min(rows.len());
        out.push(build_chunk(&rows[pos..end], ncols));
        pos = end;
    }
    if pos < rows.len() {
        out.push(build_chunk(&rows[pos..], ncols));
    }
    out
}

fn chunk_rows(chunk: &DataChunk) -> Vec<Row> {
    let n = chunk.column_count();
    chunk
        .selected_indices()
        .map(|i| (0..n).map(|c| chunk.column(c).and_then(|col| col.get_value(i)).unwrap_or(Value::Null)).collect())
        .collect()
}

fn columns_of(rows: &[Row]) -> Vec<Vec<Value>> {
    let ncols = rows.first().map_or(0, |r| r.len());
    (0..ncols).map(|c| rows.iter().map(|r| r[c].clone()).collect()).collect()
}

// ---------------------------------------------------------------------------------------------
// sources and sinks of our own (public traits of the crate)
// ---------------------------------------------------------------------------------------------

/// Emits a fixed list of chunks, ignoring the requested chunk size.
struct ListSource {
    chunks: Vec<Option<DataChunk>>,
    pos: usize,
}

impl Source for ListSource {
    fn next_chunk(&mut self, _chunk_size: usize) -> Result<Option<DataChunk>, OperatorError> {
        if self.pos < self.chunks.len() {
            let c = self.chunks[self.pos].take();
            self.pos += 1;
            Ok(c)
        } else {
            Ok(None)
        }
    }
    fn reset(&mut self) {
        self.pos = 0;
    }
    fn name(&self) -> &'static str {
        "ListSource"
    }
}

/// Delegates to a real source; gives up (error "hang") when the pipeline keeps asking although the
/// table is exhausted many times over.
struct Fuel<S: Source> {
    inner: S,
    calls: usize,
    max: usize,
}

impl<S: Source> Source for Fuel<S> {
    fn next_chunk(&mut self, chunk_size: usize) -> Result<Option<DataChunk>, OperatorError> {
        self.calls += 1;
        if self.calls > self.max {
            return Err(OperatorError::Execution("hang".into()));
        }
        self.inner.next_chunk(chunk_size)
    }
    fn reset(&mut self) {
        self.inner.reset()
    }
    fn name(&self) -> &'static str {
        "Fuel"
    }
}

#[derive(Clone, Default)]
struct SharedSink(Arc<Mutex<Vec<Row>>>);

impl Sink for SharedSink {
    fn consume(&mut self, chunk: DataChunk) -> Result<bool, OperatorError> {
        self.0.lock().unwrap().extend(chunk_rows(&chunk));
        Ok(true)
    }
    fn finalize(&mut self) -> Result<(), OperatorError> {
        Ok(())
    }
    fn name(&self) -> &'static str {
        "SharedSink"
    }
}

/// Pull-side child: a fixed list of chunks.
struct Mock {
    chunks: Vec<Option<DataChunk>>,
    pos: usize,
}

impl Operator for Mock {
    fn next(&mut self) -> OperatorResult {
        if self.pos < self.chunks.len() {
            let c = self.chunks[self.pos].take();
            self.pos += 1;
            Ok(c)
        } else {
            Ok(None)
        }
    }
    fn reset(&mut self) {
        self.pos = 0;
    }
    fn name(&self) -> &'static str {
        "Mock"
    }
}

// ---------------------------------------------------------------------------------------------
// operator descriptions
// ---------------------------------------------------------------------------------------------

#[derive(Clone, Debug)]
enum Ex {
    Col(usize),
    Const(Value),
    Bin(String, Box<Ex>, Box<Ex>),
}

#[derive(Clone, Debug)]
enum OpD {
    Filter(usize, String, Value),
    Project(Vec<Ex>),
    Limit(usize),
    Skip(usize),
    SkipLimit(usize, usize),
    Distinct(Option<Vec<usize>>),
    DistinctMat(Option<Vec<usize>>),
    Sort(Vec<(usize, bool, bool)>), // column, ascending, nulls first
    Agg(Vec<usize>, Vec<(String, usize)>),
}

fn parse_cols(s: &str) -> Vec<usize> {
    if s == "-" || s.is_empty() { vec![] } else { s.split('.').map(|x| x.parse().unwrap()).collect() }
}

fn parse_ex(s: &str) -> Ex {
    if let Some(r) = s.strip_prefix('c') {
        return Ex::Col(r.parse().unwrap());
    }
    if let Some(r) = s.strip_prefix('k') {
        return Ex::Const(untok(r));
    }
    if let Some(r) = s.strip_prefix('b') {
        let p: Vec<&str> = r.splitn(3, '.').collect();
        return Ex::Bin(p[0].to_string(), Box::new(parse_ex(p[1])), Box::new(parse_ex(p[2])));
    }
    panic!("bad expr {s}")
}

fn parse_keys(s: &str) -> Vec<(usize, bool, bool)> {
    s.split('.')
        .map(|k| {
            let n = k.len();
            let col: usize = k[..n - 2].parse().unwrap();
            (col, &k[n - 2..n - 1] == "a", &k[n - 1..] == "f")
        })
        .collect()
}

fn parse_op(s: &str) -> OpD {
    let p: Vec<&str> = s.split(':').collect();
    match p[0] {
        "f" => OpD::Filter(p[1].parse().unwrap(), p[2].to_string(), untok(p[3])),
        "p" => OpD::Project(p[1].split(',').map(parse_ex).collect()),
        "l" => OpD::Limit(p[1].parse().unwrap()),
        "s" => OpD::Skip(p[1].parse().unwrap()),
        "sl" => OpD::SkipLimit(p[1].parse().unwrap(), p[2].parse().unwrap()),
        "d" => OpD::Distinct(p.get(1).map(|c| parse_cols(c))),
        "dm" => OpD::DistinctMat(p.get(1).map(|c| parse_cols(c))),
        "o" => OpD::Sort(parse_keys(p[1])),
        "g" => {
            let aggs = p[2]
                .split('.')
                .filter(|a| !a.is_empty() && *a != "-")
                .map(|a| {
                    if a == "cs" {
                        ("cs".to_string(), 0)
                    } else if let Some(r) = a.strip_prefix("mn") {
                        ("mn".to_string(), r.parse().unwrap())
                    } else if let Some(r) = a.strip_prefix("mx") {
                        ("mx".to_string(), r.parse().unwrap())
                    } else if let Some(r) = a.strip_prefix('c') {
                        ("c".to_string(), r.parse().unwrap())
                    } else if let Some(r) = a.strip_prefix('s') {
                        ("s".to_string(), r.parse().unwrap())
                    } else {
                        panic!("bad agg {a}")
                    }
                })
                .collect();
            OpD::Agg(parse_cols(p[1]), aggs)
        }
        _ => panic!("bad op {s}"),
    }
}

fn push_cmp(op: &str) -> pushops::CompareOp {
    use pushops::CompareOp::*;
    match op {
        "eq" => Eq,
        "ne" => Ne,
        "lt" => Lt,
        "le" => Le,
        "gt" => Gt,
        _ => Ge,
    }
}

fn push_ex(e: &Ex) -> Box<dyn pushops::ProjectExpression> {
    match e {
        Ex::Col(c) => Box::new(pushops::ColumnExpr::new(*c)),
        Ex::Const(v) => Box::new(pushops::ConstantExpr::new(v.clone())),
        Ex::Bin(op, l, r) => {
            let o = match op.as_str() {
                "add" => pushops::ArithOp::Add,
                "sub" => pushops::ArithOp::Sub,
                "mul" => pushops::ArithOp::Mul,
                "div" => pushops::ArithOp::Div,
                _ => pushops::ArithOp::Mod,
            };
            Box::new(pushops::BinaryExpr::new(push_ex(l), push_ex(r), o))
        }
    }
}

fn push_keys(keys: &[(usize, bool, bool)]) -> Vec<pushops::SortKey> {
    keys.iter()
        .map(|&(column, asc, nf)| pushops::SortKey {
            column,
            direction: if asc { pushops::SortDirection::Ascending } else { pushops::SortDirection::Descending },
            null_order: if nf { pushops::NullOrder::First } else { pushops::NullOrder::Last },
        })
        .collect()
}

fn push_aggs(aggs: &[(String, usize)]) -> Vec<pushops::AggregateExpr> {
    aggs.iter()
        .map(|(k, c)| match k.as_str() {
            "cs" => pushops::AggregateExpr::count_star(),
            "c" => pushops::AggregateExpr::count(*c),
            "s" => pushops::AggregateExpr::sum(*c),
            "mn" => pushops::AggregateExpr::min(*c),
            _ => pushops::AggregateExpr::max(*c),
        })
        .collect()
}

fn make_push(d: &OpD) -> Box<dyn PushOperator> {
    match d {
        OpD::Filter(c, op, v) => Box::new(pushops::FilterPushOperator::column_compare(*c, push_cmp(op), v.clone())),
        OpD::Project(es) => Box::new(pushops::ProjectPushOperator::new(es.iter().map(push_ex).collect())),
        OpD::Limit(n) => Box::new(pushops::LimitPushOperator::new(*n)),
        OpD::Skip(n) => Box::new(pushops::SkipPushOperator::new(*n)),
        OpD::SkipLimit(s, n) => Box::new(pushops::SkipLimitPushOperator::new(*s, *n)),
        OpD::Distinct(None) => Box::new(pushops::DistinctPushOperator::new()),
        OpD::Distinct(Some(c)) => Box::new(pushops::DistinctPushOperator::on_columns(c.clone())),
        OpD::DistinctMat(None) => Box::new(pushops::DistinctMaterializingOperator::new()),
        OpD::DistinctMat(Some(c)) => Box::new(pushops::DistinctMaterializingOperator::on_columns(c.clone())),
        OpD::Sort(keys) => Box::new(pushops::SortPushOperator::new(push_keys(keys))),
        OpD::Agg(g, a) => Box::new(pushops::AggregatePushOperator::new(g.clone(), push_aggs(a))),
    }
}

/// number of output columns of an operator given its input width
fn out_width(d: &OpD, w: usize) -> usize {
    match d {
        OpD::Project(es) => es.len(),
        OpD::Agg(g, a) => g.len() + a.len(),
        _ => w,
    }
}

fn last_is_grouped_agg(ds: &[OpD]) -> bool {
    matches!(ds.last(), Some(OpD::Agg(g, _)) if !g.is_empty())
}

// ---------------------------------------------------------------------------------------------
// chain: the push pipeline
// ---------------------------------------------------------------------------------------------

fn run_chain(src: &str, table: &str, opds: &[OpD]) -> String {
    let rows = parse_table(table);
    let sink = SharedSink::default();
    let operators: Vec<Box<dyn PushOperator>> = opds.iter().map(make_push).collect();
    let source: Box<dyn Source> = if src == "v" {
        let max = rows.len() + 64;
        Box::new(Fuel { inner: VectorSource::new(columns_of(&rows)), calls: 0, max })
    } else {
        let chunks = split_chunks(&rows, &parse_sizes(src));
        Box::new(ListSource { chunks: chunks.into_iter().map(Some).collect(), pos: 0 })
    };
    let mut p = Pipeline::new(source, operators, Box::new(sink.clone()));
    match p.execute() {
        Ok(()) => {}
        Err(OperatorError::Execution(m)) if m == "hang" => return "hang".into(),
        Err(_) => return "err".into(),
    }
    let out = sink.0.lock().unwrap().clone();
    if last_is_grouped_agg(opds) { show_sorted(&out) } else { show_rows(&out) }
}

// ---------------------------------------------------------------------------------------------
// pull: the same chain from operators/*.rs
// ---------------------------------------------------------------------------------------------

fn any_schema(w: usize) -> Vec<LogicalType> {
    vec![LogicalType::Any; w]
}

fn run_pull(src: &str, table: &str, opds: &[OpD]) -> String {
    let rows = parse_table(table);
    let mut width = rows.first().map_or(1, |r| r.len());
    let chunks = split_chunks(&rows, &parse_sizes(src));
    let mut cur: Box<dyn Operator> = Box::new(Mock { chunks: chunks.into_iter().map(Some).collect(), pos: 0 });
    let store = Arc::new(grafeo_core::graph::lpg::LpgStore::new());
    for d in opds {
        let w2 = out_width(d, width);
        cur = match d {
            OpD::Filter(c, op, v) => {
                let bop = match op.as_str() {
                    "eq" => ops::BinaryFilterOp::Eq,
                    "ne" => ops::BinaryFilterOp::Ne,
                    "lt" => ops::BinaryFilterOp::Lt,
                    "le" => ops::BinaryFilterOp::Le,
                    "gt" => ops::BinaryFilterOp::Gt,
                    _ => ops::BinaryFilterOp::Ge,
                };
                let e = ops::FilterExpression::Binary {
                    left: Box::new(ops::FilterExpression::Variable("x".into())),
                    op: bop,
                    right: Box::new(ops::FilterExpression::Literal(v.clone())),
                };
                let mut vc = HashMap::new();
                vc.insert("x".to_string(), *c);
                Box::new(ops::FilterOperator::new(cur, Box::new(ops::ExpressionPredicate::new(e, vc, Arc::clone(&store)))))
            }
            OpD::Project(es) => {
                let ps: Vec<ops::ProjectExpr> = es
                    .iter()
                    .map(|e| match e {
                        Ex::Col(c) => ops::ProjectExpr::Column(*c),
                        Ex::Const(v) => ops::ProjectExpr::Constant(v.clone()),
                        Ex::Bin(..) => panic!("no pull counterpart"),
                    })
                    .collect();
                Box::new(ops::ProjectOperator::new(cur, ps, any_schema(w2)))
            }
            OpD::Limit(n) => Box::new(ops::LimitOperator::new(cur, *n, any_schema(w2))),
            OpD::Skip(n) => Box::new(ops::SkipOperator::new(cur, *n, any_schema(w2))),
            OpD::SkipLimit(s, n) => Box::new(ops::LimitSkipOperator::new(cur, *s, *n, any_schema(w2))),
            OpD::Distinct(None) | OpD::DistinctMat(None) => Box::new(ops::DistinctOperator::new(cur, any_schema(w2))),
            OpD::Distinct(Some(c)) | OpD::DistinctMat(Some(c)) => {
                Box::new(ops::DistinctOperator::on_columns(cur, c.clone(), any_schema(w2)))
            }
            OpD::Sort(keys) => {
                let ks: Vec<ops::SortKey> = keys
                    .iter()
                    .map(|&(c, asc, nf)| {
                        let k = if asc { ops::SortKey::ascending(c) } else { ops::SortKey::descending(c) };
                        k.with_null_order(if nf { ops::NullOrder::NullsFirst } else { ops::NullOrder::NullsLast })
                    })
                    .collect();
                Box::new(ops::SortOperator::new(cur, ks, any_schema(w2)))
            }
            OpD::Agg(g, a) => {
                let aggs: Vec<ops::AggregateExpr> = a
                    .iter()
                    .map(|(k, c)| match k.as_str() {
                        "cs" => ops::AggregateExpr::count_star(),
                        "c" => ops::AggregateExpr::count(*c),
                        "s" => ops::AggregateExpr::sum(*c),
                        "mn" => ops::AggregateExpr::min(*c),
                        _ => ops::AggregateExpr::max(*c),
                    })
                    .collect();
                if g.is_empty() {
                    Box::new(ops::SimpleAggregateOperator::new(cur, aggs, any_schema(w2)))
                } else {
                    Box::new(ops::HashAggregateOperator::new(cur, g.clone(), aggs, any_schema(w2)))
                }
            }
        };
        width = w2;
    }
    let mut out = Vec::new();
    let mut guard = 0;
    loop {
        match cur.next() {
            Ok(Some(c)) => out.extend(chunk_rows(&c)),
            Ok(None) => break,
            Err(_) => return "err".into(),
        }
        guard += 1;
        if guard > 100_000 {
            return "hang".into();
        }
    }
    if last_is_grouped_agg(opds) { show_sorted(&out) } else { show_rows(&out) }
}

// ---------------------------------------------------------------------------------------------
// par: the real ParallelPipeline
// ---------------------------------------------------------------------------------------------

/// A parallel source that cuts morsels of a size of our choosing (the trait's default method is
/// overridden; everything else is the crate's own source).
struct MorselSized<S: ParallelSource> {
    inner: S,
    morsel: usize,
}

impl<S: ParallelSource> Source for MorselSized<S> {
    fn next_chunk(&mut self, n: usize) -> Result<Option<DataChunk>, OperatorError> {
        self.inner.next_chunk(n)
    }
    fn reset(&mut self) {
        self.inner.reset()
    }
    fn name(&self) -> &'static str {
        "MorselSized"
    }
}

impl<S: ParallelSource> ParallelSource for MorselSized<S> {
    fn total_rows(&self) -> Option<usize> {
        self.inner.total_rows()
    }
    fn create_partition(&self, morsel: &Morsel) -> Box<dyn Source> {
        self.inner.create_partition(morsel)
    }
    fn generate_morsels(&self, _morsel_size: usize, source_id: usize) -> Vec<Morsel> {
        match self.total_rows() {
            Some(t) => par::generate_morsels(t, self.morsel, source_id),
            None => vec![],
        }
    }
    fn num_columns(&self) -> usize {
        self.inner.num_columns()
    }
}

/// rows in sequence, but every maximal block of rows whose sort-key columns print alike is put
/// into textual order (the order among ties is not specified by a merge of runs)
fn canon_ties(rows: &[Row], keys: &[(usize, bool, bool)]) -> Vec<Row> {
    let keytxt = |r: &Row| keys.iter().map(|k| r.get(k.0).map_or("?".to_string(), tok)).collect::<Vec<_>>().join(",");
    let mut out: Vec<Row> = Vec::new();
    let mut i = 0;
    while i < rows.len() {
        let mut j = i + 1;
        while j < rows.len() && keytxt(&rows[j]) == keytxt(&rows[i]) {
            j += 1;
        }
        let mut block: Vec<Row> = rows[i..j].to_vec();
        block.sort_by_key(show_row);
        out.extend(block);
        i = j;
    }
    out
}

fn run_par(workers: usize, morsel: &str, chunk: usize, srckind: &str, table: &str, opds: &[OpD]) -> String {
    let rows = parse_table(table);
    let total = rows.len();
    let mut config = ParallelPipelineConfig::default().with_workers(workers);
    config.chunk_size = chunk;
    let (pressure, custom): (Option<PressureLevel>, Option<usize>) = match morsel {
        "pN" => (Some(PressureLevel::Normal), None),
        "pM" => (Some(PressureLevel::Moderate), None),
        "pH" => (Some(PressureLevel::High), None),
        "pC" => (Some(PressureLevel::Critical), None),
        m => (None, Some(m.parse().unwrap())),
    };
    if let Some(p) = pressure {
        config = config.with_pressure(p);
    }
    let source: Arc<dyn ParallelSource> = if srckind == "v" {
        let s = ParallelVectorSource::new(columns_of(&rows));
        match custom {
            Some(m) => Arc::new(MorselSized { inner: s, morsel: m }),
            None => Arc::new(s),
        }
    } else {
        let s = ParallelChunkSource::new(split_chunks(&rows, &parse_sizes(srckind)));
        match custom {
            Some(m) => Arc::new(MorselSized { inner: s, morsel: m }),
            None => Arc::new(s),
        }
    };
    let mut factory = CloneableOperatorFactory::new();
    for d in opds {
        let d = d.clone();
        factory = factory.with_operator(move || make_push(&d));
    }
    let breaker = opds.iter().any(|d| matches!(d, OpD::Sort(_) | OpD::Distinct(_) | OpD::DistinctMat(_) | OpD::Agg(..)));
    if breaker {
        factory = factory.with_pipeline_breakers();
    }
    let pipeline = ParallelPipeline::new(source, Arc::new(factory), config);
    let res = match pipeline.execute() {
        Ok(r) => r,
        Err(_) => return "err".into(),
    };
    let meta = format!("m{}r{}", res.morsels_processed, res.rows_processed);
    let _ = total;
    let body = match opds.last() {
        Some(OpD::Sort(keys)) => {
            // every worker's sort operator emitted one sorted chunk: the runs of the merge phase
            let runs: Vec<Vec<DataChunk>> = res.chunks.into_iter().map(|c| vec![c]).collect();
            let mk: Vec<par::SortKey> =
                keys.iter().map(|&(column, ascending, nulls_first)| par::SortKey { column, ascending, nulls_first }).collect();
            let merged = par::merge_sorted_chunks(runs, &mk, 2048).unwrap();
            let rows: Vec<Row> = merged.iter().flat_map(chunk_rows).collect();
            show_rows(&canon_ties(&rows, keys))
        }
        Some(OpD::Distinct(_)) | Some(OpD::DistinctMat(_)) => {
            let merged = par::merge_distinct_results(vec![res.chunks]).unwrap();
            let rows: Vec<Row> = merged.iter().flat_map(chunk_rows).collect();
            show_sorted(&rows)
        }
        _ => {
            let rows: Vec<Row> = res.chunks.iter().flat_map(chunk_rows).collect();
            show_sorted(&rows)
        }
    };
    format!("{meta}|{body}")
}

// ---------------------------------------------------------------------------------------------
// spill directory
// ---------------------------------------------------------------------------------------------

static DIR_SEQ: AtomicU64 = AtomicU64::new(0);

pub fn spill_base() -> PathBuf {
    std::env::temp_dir().join("vh-push-spill")
}

fn fresh_dir() -> PathBuf {
    let d = spill_base().join(format!("d{}-{}", std::process::id(), DIR_SEQ.fetch_add(1, AO::Relaxed)));
    std::fs::create_dir_all(&d).unwrap();
    d
}

fn count_files(d: &PathBuf) -> usize {
    std::fs::read_dir(d).map(|it| it.count()).unwrap_or(0)
}

/// remove the directory only if it is empty: anything the code left behind stays visible
fn release_dir(d: &PathBuf) {
    let _ = std::fs::remove_dir(d);
}

// ---------------------------------------------------------------------------------------------
// xsort / xruns: external sort
// ---------------------------------------------------------------------------------------------

fn run_xsort(threshold: usize, src: &str, table: &str, keys: &[(usize, bool, bool)]) -> String {
    let rows = parse_table(table);
    let dir = fresh_dir();
    let manager = Arc::new(SpillManager::new(&dir).unwrap());
    let mut op = pushops::SpillableSortPushOperator::with_spilling(push_keys(keys), Arc::clone(&manager), threshold);
    let mut sink = SharedSink::default();
    let mut max_files = 0;
    for c in split_chunks(&rows, &parse_sizes(src)) {
        if op.push(c, &mut sink).is_err() {
            return "err".into();
        }
        max_files = max_files.max(count_files(&dir));
    }
    if op.finalize(&mut sink).is_err() {
        return "err".into();
    }
    let out = sink.0.lock().unwrap().clone();
    drop(op);
    let after_op = count_files(&dir);
    let active = manager.active_file_count();
    drop(manager);
    let after_mgr = count_files(&dir);
    release_dir(&dir);
    format!("{}|runs{}|left{},{}|active{}", show_rows(&out), max_files, after_op, after_mgr, active)
}

fn spill_keys(keys: &[(usize, bool, bool)]) -> Vec<spill::SortKey> {
    keys.iter()
        .map(|&(column, asc, nf)| spill::SortKey {
            column,
            direction: if asc { spill::SortDirection::Ascending } else { spill::SortDirection::Descending },
            null_order: if nf { spill::NullOrder::First } else { spill::NullOrder::Last },
        })
        .collect()
}

fn run_xruns(keys: &[(usize, bool, bool)], mem: &str, runs: &[&str]) -> String {
    let dir = fresh_dir();
    let manager = Arc::new(SpillManager::new(&dir).unwrap());
    let memrows = parse_table(mem);
    let ncols = runs.iter().map(|r| parse_table(r)).chain(std::iter::once(memrows.clone())).find_map(|t| t.first().map(|r| r.len())).unwrap_or(1);
    let mut xs = ExternalSort::new(Arc::clone(&manager), ncols, spill_keys(keys));
    for r in runs {
        if xs.spill_sorted_run(parse_table(r)).is_err() {
            return "err".into();
        }
    }
    let files = count_files(&dir);
    let out = match xs.merge_all(memrows) {
        Ok(o) => o,
        Err(_) => return "err".into(),
    };
    drop(xs);
    let after_op = count_files(&dir);
    let active = manager.active_file_count();
    drop(manager);
    let after_mgr = count_files(&dir);
    release_dir(&dir);
    format!("{}|runs{}|left{},{}|active{}", show_rows(&out), files, after_op, after_mgr, active)
}

// ---------------------------------------------------------------------------------------------
// xagg: spillable aggregation
// ---------------------------------------------------------------------------------------------

fn run_xagg(threshold: usize, src: &str, table: &str, d: &OpD) -> String {
    let OpD::Agg(g, a) = d else { return "bad-op".into() };
    let rows = parse_table(table);
    let dir = fresh_dir();
    let manager = Arc::new(SpillManager::new(&dir).unwrap());
    let mut op =
        pushops::SpillableAggregatePushOperator::with_spilling(g.clone(), push_aggs(a), Arc::clone(&manager), threshold);
    let mut sink = SharedSink::default();
    let mut max_files = 0;
    for c in split_chunks(&rows, &parse_sizes(src)) {
        if op.push(c, &mut sink).is_err() {
            return "err".into();
        }
        max_files = max_files.max(count_files(&dir));
    }
    if op.finalize(&mut sink).is_err() {
        return "err".into();
    }
    let out = sink.0.lock().unwrap().clone();
    drop(op);
    let after_op = count_files(&dir);
    drop(manager);
    let after_mgr = count_files(&dir);
    release_dir(&dir);
    format!("{}|spilled{}|left{},{}", show_sorted(&out), if max_files > 0 { 1 } else { 0 }, after_op, after_mgr)
}

// ---------------------------------------------------------------------------------------------
// part: PartitionedState<i64>
// ---------------------------------------------------------------------------------------------

fn spill_res(nparts: usize, bytes: usize) -> String {
    if nparts != 1 {
        "x".into()
    } else if bytes > 0 {
        "w".into()
    } else {
        "0".into()
    }
}

fn run_part(nparts: usize, script: &[&str]) -> String {
    let dir = fresh_dir();
    let manager = Arc::new(SpillManager::new(&dir).unwrap());
    let mut st: PartitionedState<i64> = PartitionedState::new(
        Arc::clone(&manager),
        nparts,
        |v: &i64, w: &mut dyn std::io::Write| w.write_all(&v.to_le_bytes()),
        |r: &mut dyn std::io::Read| {
            let mut b = [0u8; 8];
            r.read_exact(&mut b)?;
            Ok(i64::from_le_bytes(b))
        },
    );
    let mut out: Vec<String> = Vec::new();
    let show_pairs = |mut v: Vec<(Vec<Value>, i64)>| -> String {
        let mut s: Vec<String> = v.drain(..).map(|(k, x)| format!("{}={}", show_row(&k), x)).collect();
        s.sort();
        if s.is_empty() { "none".into() } else { s.join(";") }
    };
    for cmd in script {
        let p: Vec<&str> = cmd.split(':').collect();
        let r = match p[0] {
            "i" => match st.insert(parse_row(p[1]), p[2].parse().unwrap()) {
                Ok(old) => old.map_or("new".to_string(), |o| format!("old{o}")),
                Err(_) => "err".into(),
            },
            "a" => match st.get_or_insert_with(parse_row(p[1]), || 0) {
                Ok(v) => {
                    *v += p[2].parse::<i64>().unwrap();
                    format!("{}", *v)
                }
                Err(_) => "err".into(),
            },
            "g" => match st.get(&parse_row(p[1])) {
                Ok(v) => v.map_or("none".to_string(), |x| x.to_string()),
                Err(_) => "err".into(),
            },
            // with several partitions the placement depends on the hash: only the fact is printed
            "sp" => st.spill_partition(p[1].parse().unwrap()).map_or("err".into(), |b| spill_res(nparts, b)),
            "sl" => st.spill_largest().map_or("err".into(), |b| spill_res(nparts, b)),
            "su" => st.spill_lru().map_or("err".into(), |b| spill_res(nparts, b)),
            "it" => st.iter_all().map_or("err".into(), |v| show_pairs(v)),
            "dr" => st.drain_all().map_or("err".into(), |v| show_pairs(v)),
            "cl" => {
                st.cleanup();
                "ok".into()
            }
            "sz" => format!("{}", st.total_size()),
            "fs" => if nparts == 1 { format!("{}", count_files(&dir)) } else { "x".into() },
            _ => "bad".into(),
        };
        out.push(r);
    }
    drop(st);
    let after_op = count_files(&dir);
    let bytes = manager.spilled_bytes();
    drop(manager);
    let after_mgr = count_files(&dir);
    release_dir(&dir);
    format!("{}|left{},{}|bytes{}", out.join(" "), after_op, after_mgr, if bytes == 0 { "0" } else { "+" })
}

// ---------------------------------------------------------------------------------------------
// selop / big / expr
// ---------------------------------------------------------------------------------------------

fn run_selop(op: &str, phys: &str, sel: &str) -> String {
    let rows = parse_table(phys);
    let ncols = rows.first().map_or(1, |r| r.len());
    let mut chunk = build_chunk(&rows, ncols);
    let idx = parse_u64s(sel).unwrap();
    let mut sv = SelectionVector::new_empty();
    for i in idx {
        sv.push(i as usize);
    }
    chunk.set_selection(sv);
    let mut o = make_push(&parse_op(op));
    let mut sink = SharedSink::default();
    let cont = match o.push(chunk, &mut sink) {
        Ok(c) => c,
        Err(_) => return "err".into(),
    };
    if o.finalize(&mut sink).is_err() {
        return "err".into();
    }
    let out = sink.0.lock().unwrap().clone();
    format!("{}|{}", show_rows(&out), if cont { "go" } else { "stop" })
}

/// digest of a long result: row count, first and last three rows, and a checksum of every row
fn digest(rows: &[Row]) -> String {
    let n = rows.len();
    let mut h: u64 = 1469598103934665603;
    for r in rows {
        for b in show_row(r).bytes() {
            h = (h ^ b as u64).wrapping_mul(1099511628211) % 1000000007;
        }
        h = (h ^ 59).wrapping_mul(1099511628211) % 1000000007;
    }
    let head: Vec<String> = rows.iter().take(3).map(show_row).collect();
    let tail: Vec<String> = rows.iter().skip(n.saturating_sub(3).max(3.min(n))).map(show_row).collect();
    format!("n{}|{}|{}|h{}", n, head.join(";"), tail.join(";"), h)
}

fn run_big(n: u64, mult: u64, opds: &[OpD]) -> String {
    let rows = parse_table(&format!("gen:{n}:{mult}:{n}"));
    let sink = SharedSink::default();
    let operators: Vec<Box<dyn PushOperator>> = opds.iter().map(make_push).collect();
    let chunk = build_chunk(&rows, 2);
    let source = Box::new(ListSource { chunks: vec![Some(chunk)], pos: 0 });
    let mut p = Pipeline::new(source, operators, Box::new(sink.clone()));
    if p.execute().is_err() {
        return "err".into();
    }
    let out = sink.0.lock().unwrap().clone();
    digest(&out)
}

fn run_expr(op: &str, a: &str, b: &str) -> String {
    let e = Ex::Bin(op.to_string(), Box::new(Ex::Col(0)), Box::new(Ex::Col(1)));
    let chunk = build_chunk(&[vec![untok(a), untok(b)]], 2);
    let v = push_ex(&e).evaluate(&chunk, 0);
    tok(&v)
}

// ---------------------------------------------------------------------------------------------
// dispatch
// ---------------------------------------------------------------------------------------------

pub fn run(args: &[&str]) -> String {
    let a: Vec<String> = args.iter().map(|s| s.to_string()).collect();
    guarded(move || {
        let a: Vec<&str> = a.iter().map(|s| s.as_str()).collect();
        match a.as_slice() {
            ["chain", src, table, ops @ ..] => run_chain(src, table, &ops.iter().map(|o| parse_op(o)).collect::<Vec<_>>()),
            ["pull", src, table, ops @ ..] => run_pull(src, table, &ops.iter().map(|o| parse_op(o)).collect::<Vec<_>>()),
            ["par", w, m, c, sk, table, ops @ ..] => run_par(
                w.parse().unwrap(),
                m,
                c.parse().unwrap(),
                sk,
                table,
                &ops.iter().map(|o| parse_op(o)).collect::<Vec<_>>(),
            ),
            ["xsort", t, src, table, keys] => run_xsort(t.parse().unwrap(), src, table, &parse_keys(keys)),
            ["xruns", keys, mem, runs @ ..] => run_xruns(&parse_keys(keys), mem, runs),
            ["xagg", t, src, table, op] => run_xagg(t.parse().unwrap(), src, table, &parse_op(op)),
            ["part", n, script @ ..] => run_part(n.parse().unwrap(), script),
            ["selop", op, phys, sel] => run_selop(op, phys, sel),
            ["big", n, m, ops @ ..] => run_big(n.parse().unwrap(), m.parse().unwrap(), &ops.iter().map(|o| parse_op(o)).collect::<Vec<_>>()),
            ["expr", op, x, y] => run_expr(op, x, y),
            _ => "bad-op".into(),
        }
    })
}

pub fn generate(_seed: u64, _cases: usize, _out: &mut Vec<String>) {}
