//! Stream `push` — C17: push-based operators and `Pipeline`, the real `ParallelPipeline`,
//! external sort / spillable aggregation / partitioned state with spill-directory listing.
//!
//! Op lines (one output line each; rows are value tokens joined by `,`, rows joined by `;`,
//! the empty result is `norows`):
//!
//!   push chain <src> <table> <ops…>        push `Pipeline` (source → operators → sink)
//!   push pull  <src> <table> <ops…>        the pull operators of operators/*.rs on the same input
//!   push par <workers> <morsel> <chunk> <srckind> <table> <ops…>   real `ParallelPipeline`
//!   push xsort <threshold> <src> <table> <keys>     `SpillableSortPushOperator`
//!   push xruns <keys> <mem-table> <run-table>…      `ExternalSort` driven directly
//!   push xagg <threshold> <src> <table> <ops: one g: op>   `SpillableAggregatePushOperator`
//!   push part <nparts> <script…>            `PartitionedState<i64>`
//!   push selop <op> <phys-table> <sel>      one push operator on a chunk that carries a selection vector
//!   push big <n> <mult> <ops…>              chain over n generated rows in ONE chunk (u16 selection indices)
//!   push expr <op> <a> <b>                  `BinaryExpr` of the push project operator on one row
//!
//!   <src>   = c:<n1>,<n2>,…  explicit chunk sizes (a source that ignores the requested size)
//!           | v               `VectorSource` (honours the chunk size computed from the operator hints)
//!   <table> = r1;r2;…  | -  | gen:<n>:<mult>:<mod>   (row i = I((i*mult)%mod), I(i))
//!   <ops>   = f:<col>:<eq|ne|lt|le|gt|ge>:<tok>   filter
//!           | p:<e>,<e>…   e = c<k> | k<tok> | b<add|sub|mul|div|mod>.<e>.<e>   project
//!           | l:<n> | s:<n> | sl:<s>:<n>            limit / skip / skip+limit
//!           | d | d:<cols> | dm | dm:<cols>         distinct (incremental / materializing)
//!           | o:<col><a|d><f|l>.…                   sort
//!           | g:<cols or ->:<aggs>   aggs = cs | c<k> | s<k> | mn<k> | mx<k>  joined by `.`
use crate::util::*;
use crate::vals::{tok, untok};
use grafeo_common::memory::buffer::PressureLevel;
use grafeo_common::types::{LogicalType, Value};
use grafeo_core::execution::operators as ops;
use grafeo_core::execution::operators::push as pushops;
use grafeo_core::execution::operators::{Operator, OperatorError, OperatorResult};
use grafeo_core::execution::parallel::{
    self as par, CloneableOperatorFactory, Morsel, ParallelChunkSource, ParallelPipeline, ParallelPipelineConfig,
    ParallelSource, ParallelVectorSource,
};
use grafeo_core::execution::spill::{self, ExternalSort, PartitionedState, SpillManager};
use grafeo_core::execution::{
    DataChunk, Pipeline, PushOperator, SelectionVector, Sink, Source, ValueVector, VectorSource,
};
use std::collections::HashMap;
use std::path::PathBuf;
use std::sync::atomic::{AtomicU64, Ordering as AO};
use std::sync::{Arc, Mutex};

type Row = Vec<Value>;

// ---------------------------------------------------------------------------------------------
// text
// ---------------------------------------------------------------------------------------------

fn parse_row(s: &str) -> Row {
    s.split(',').map(untok).collect()
}

fn parse_table(s: &str) -> Vec<Row> {
    if s == "-" || s.starts_with('e') {
        return vec![];
    }
    if let Some(rest) = s.strip_prefix("gen:") {
        let p: Vec<u64> = rest.split(':').map(|x| x.parse().unwrap()).collect();
        let (n, mult, md) = (p[0], p[1], p[2]);
        return (0..n).map(|i| vec![Value::Int64(((i * mult) % md) as i64), Value::Int64(i as i64)]).collect();
    }
    s.split(';').map(parse_row).collect()
}

fn show_row(r: &Row) -> String {
    r.iter().map(tok).collect::<Vec<_>>().join(",")
}

fn show_rows(rs: &[Row]) -> String {
    if rs.is_empty() { "norows".into() } else { rs.iter().map(show_row).collect::<Vec<_>>().join(";") }
}

fn show_sorted(rs: &[Row]) -> String {
    let mut v: Vec<String> = rs.iter().map(show_row).collect();
    v.sort();
    if v.is_empty() { "norows".into() } else { v.join(";") }
}

fn parse_sizes(s: &str) -> Vec<usize> {
    let s = s.strip_prefix("c:").unwrap_or(s);
    if s.is_empty() || s == "-" { vec![] } else { s.split(',').map(|x| x.parse().unwrap()).collect() }
}

/// chunk of rows; a zero-row chunk keeps the column count `ncols`
fn build_chunk(rows: &[Row], ncols: usize) -> DataChunk {
    let cols: Vec<ValueVector> = (0..ncols)
        .map(|c| {
            let vals: Vec<Value> = rows.iter().map(|r| r[c].clone()).collect();
            ValueVector::from_values(&vals)
        })
        .collect();
    DataChunk::new(cols)
}

/// number of columns of a table token (`e<w>` = empty table with w columns)
fn table_width(s: &str, rows: &[Row]) -> usize {
    if let Some(w) = s.strip_prefix('e') {
        return w.parse().unwrap();
    }
    rows.first().map_or(1, |r| r.len())
}

fn split_chunks(rows: &[Row], sizes: &[usize]) -> Vec<DataChunk> {
    split_chunks_w(rows, sizes, rows.first().map_or(1, |r| r.len()))
}

fn split_chunks_w(rows: &[Row], sizes: &[usize], ncols: usize) -> Vec<DataChunk> {
    let mut out = Vec::new();
    let mut pos = 0;
    for &n in sizes {
        let end = (pos + n).min(rows.len());
        out.push(build_chunk(&rows[pos..end], ncols));
        pos = end;
    }
    if pos < rows.len() {
        out.push(build_chunk(&rows[pos..], ncols));
    }
    out
}

fn chunk_rows(chunk: &DataChunk) -> Vec<Row> {
    let n = chunk.column_count();
    chunk
        .selected_indices()
        .map(|i| (0..n).map(|c| chunk.column(c).and_then(|col| col.get_value(i)).unwrap_or(Value::Null)).collect())
        .collect()
}

fn columns_of(rows: &[Row]) -> Vec<Vec<Value>> {
    let ncols = rows.first().map_or(0, |r| r.len());
    (0..ncols).map(|c| rows.iter().map(|r| r[c].clone()).collect()).collect()
}

// ---------------------------------------------------------------------------------------------
// sources and sinks of our own (public traits of the crate)
// ---------------------------------------------------------------------------------------------

/// Emits a fixed list of chunks, ignoring the requested chunk size.
struct ListSource {
    chunks: Vec<Option<DataChunk>>,
    pos: usize,
}

impl Source for ListSource {
    fn next_chunk(&mut self, _chunk_size: usize) -> Result<Option<DataChunk>, OperatorError> {
        if self.pos < self.chunks.len() {
            let c = self.chunks[self.pos].take();
            self.pos += 1;
            Ok(c)
        } else {
            Ok(None)
        }
    }
    fn reset(&mut self) {
        self.pos = 0;
    }
    fn name(&self) -> &'static str {
        "ListSource"
    }
}

/// Delegates to a real source; gives up (error "hang") when the pipeline keeps asking although the
/// table is exhausted many times over.
struct Fuel<S: Source> {
    inner: S,
    calls: usize,
    max: usize,
}

impl<S: Source> Source for Fuel<S> {
    fn next_chunk(&mut self, chunk_size: usize) -> Result<Option<DataChunk>, OperatorError> {
        self.calls += 1;
        if self.calls > self.max {
            return Err(OperatorError::Execution("hang".into()));
        }
        self.inner.next_chunk(chunk_size)
    }
    fn reset(&mut self) {
        self.inner.reset()
    }
    fn name(&self) -> &'static str {
        "Fuel"
    }
}

#[derive(Clone, Default)]
struct SharedSink(Arc<Mutex<Vec<Row>>>);

impl Sink for SharedSink {
    fn consume(&mut self, chunk: DataChunk) -> Result<bool, OperatorError> {
        self.0.lock().unwrap().extend(chunk_rows(&chunk));
        Ok(true)
    }
    fn finalize(&mut self) -> Result<(), OperatorError> {
        Ok(())
    }
    fn name(&self) -> &'static str {
        "SharedSink"
    }
}

/// Pull-side child: a fixed list of chunks.
struct Mock {
    chunks: Vec<Option<DataChunk>>,
    pos: usize,
}

impl Operator for Mock {
    fn next(&mut self) -> OperatorResult {
        if self.pos < self.chunks.len() {
            let c = self.chunks[self.pos].take();
            self.pos += 1;
            Ok(c)
        } else {
            Ok(None)
        }
    }
    fn reset(&mut self) {
        self.pos = 0;
    }
    fn name(&self) -> &'static str {
        "Mock"
    }
}

// ---------------------------------------------------------------------------------------------
// operator descriptions
// ---------------------------------------------------------------------------------------------

#[derive(Clone, Debug)]
enum Ex {
    Col(usize),
    Const(Value),
    Bin(String, Box<Ex>, Box<Ex>),
}

#[derive(Clone, Debug)]
enum OpD {
    Filter(usize, String, Value),
    Project(Vec<Ex>),
    Limit(usize),
    Skip(usize),
    SkipLimit(usize, usize),
    Distinct(Option<Vec<usize>>),
    DistinctMat(Option<Vec<usize>>),
    Sort(Vec<(usize, bool, bool)>), // column, ascending, nulls first
    Agg(Vec<usize>, Vec<(String, usize)>),
}

fn parse_cols(s: &str) -> Vec<usize> {
    if s == "-" || s.is_empty() { vec![] } else { s.split('.').map(|x| x.parse().unwrap()).collect() }
}

fn parse_ex(s: &str) -> Ex {
    if let Some(r) = s.strip_prefix('c') {
        return Ex::Col(r.parse().unwrap());
    }
    if let Some(r) = s.strip_prefix('k') {
        return Ex::Const(untok(r));
    }
    if let Some(r) = s.strip_prefix('b') {
        let p: Vec<&str> = r.splitn(3, '.').collect();
        return Ex::Bin(p[0].to_string(), Box::new(parse_ex(p[1])), Box::new(parse_ex(p[2])));
    }
    panic!("bad expr {s}")
}

fn parse_keys(s: &str) -> Vec<(usize, bool, bool)> {
    s.split('.')
        .map(|k| {
            let n = k.len();
            let col: usize = k[..n - 2].parse().unwrap();
            (col, &k[n - 2..n - 1] == "a", &k[n - 1..] == "f")
        })
        .collect()
}

fn parse_op(s: &str) -> OpD {
    let p: Vec<&str> = s.split(':').collect();
    match p[0] {
        "f" => OpD::Filter(p[1].parse().unwrap(), p[2].to_string(), untok(p[3])),
        "p" => OpD::Project(p[1].split(',').map(parse_ex).collect()),
        "l" => OpD::Limit(p[1].parse().unwrap()),
        "s" => OpD::Skip(p[1].parse().unwrap()),
        "sl" => OpD::SkipLimit(p[1].parse().unwrap(), p[2].parse().unwrap()),
        "d" => OpD::Distinct(p.get(1).map(|c| parse_cols(c))),
        "dm" => OpD::DistinctMat(p.get(1).map(|c| parse_cols(c))),
        "o" => OpD::Sort(parse_keys(p[1])),
        "g" => {
            let aggs = p[2]
                .split('.')
                .filter(|a| !a.is_empty() && *a != "-")
                .map(|a| {
                    if a == "cs" {
                        ("cs".to_string(), 0)
                    } else if let Some(r) = a.strip_prefix("mn") {
                        ("mn".to_string(), r.parse().unwrap())
                    } else if let Some(r) = a.strip_prefix("mx") {
                        ("mx".to_string(), r.parse().unwrap())
                    } else if let Some(r) = a.strip_prefix('c') {
                        ("c".to_string(), r.parse().unwrap())
                    } else if let Some(r) = a.strip_prefix('s') {
                        ("s".to_string(), r.parse().unwrap())
                    } else {
                        panic!("bad agg {a}")
                    }
                })
                .collect();
            OpD::Agg(parse_cols(p[1]), aggs)
        }
        _ => panic!("bad op {s}"),
    }
}

fn push_cmp(op: &str) -> pushops::CompareOp {
    use pushops::CompareOp::*;
    match op {
        "eq" => Eq,
        "ne" => Ne,
        "lt" => Lt,
        "le" => Le,
        "gt" => Gt,
        _ => Ge,
    }
}

fn push_ex(e: &Ex) -> Box<dyn pushops::ProjectExpression> {
    match e {
        Ex::Col(c) => Box::new(pushops::ColumnExpr::new(*c)),
        Ex::Const(v) => Box::new(pushops::ConstantExpr::new(v.clone())),
        Ex::Bin(op, l, r) => {
            let o = match op.as_str() {
                "add" => pushops::ArithOp::Add,
                "sub" => pushops::ArithOp::Sub,
                "mul" => pushops::ArithOp::Mul,
                "div" => pushops::ArithOp::Div,
                _ => pushops::ArithOp::Mod,
            };
            Box::new(pushops::BinaryExpr::new(push_ex(l), push_ex(r), o))
        }
    }
}

fn push_keys(keys: &[(usize, bool, bool)]) -> Vec<pushops::SortKey> {
    keys.iter()
        .map(|&(column, asc, nf)| pushops::SortKey {
            column,
            direction: if asc { pushops::SortDirection::Ascending } else { pushops::SortDirection::Descending },
            null_order: if nf { pushops::NullOrder::First } else { pushops::NullOrder::Last },
        })
        .collect()
}

fn push_aggs(aggs: &[(String, usize)]) -> Vec<pushops::AggregateExpr> {
    aggs.iter()
        .map(|(k, c)| match k.as_str() {
            "cs" => pushops::AggregateExpr::count_star(),
            "c" => pushops::AggregateExpr::count(*c),
            "s" => pushops::AggregateExpr::sum(*c),
            "mn" => pushops::AggregateExpr::min(*c),
            _ => pushops::AggregateExpr::max(*c),
        })
        .collect()
}

fn make_push(d: &OpD) -> Box<dyn PushOperator> {
    match d {
        OpD::Filter(c, op, v) => Box::new(pushops::FilterPushOperator::column_compare(*c, push_cmp(op), v.clone())),
        OpD::Project(es) => Box::new(pushops::ProjectPushOperator::new(es.iter().map(push_ex).collect())),
        OpD::Limit(n) => Box::new(pushops::LimitPushOperator::new(*n)),
        OpD::Skip(n) => Box::new(pushops::SkipPushOperator::new(*n)),
        OpD::SkipLimit(s, n) => Box::new(pushops::SkipLimitPushOperator::new(*s, *n)),
        OpD::Distinct(None) => Box::new(pushops::DistinctPushOperator::new()),
        OpD::Distinct(Some(c)) => Box::new(pushops::DistinctPushOperator::on_columns(c.clone())),
        OpD::DistinctMat(None) => Box::new(pushops::DistinctMaterializingOperator::new()),
        OpD::DistinctMat(Some(c)) => Box::new(pushops::DistinctMaterializingOperator::on_columns(c.clone())),
        OpD::Sort(keys) => Box::new(pushops::SortPushOperator::new(push_keys(keys))),
        OpD::Agg(g, a) => Box::new(pushops::AggregatePushOperator::new(g.clone(), push_aggs(a))),
    }
}

/// number of output columns of an operator given its input width
fn out_width(d: &OpD, w: usize) -> usize {
    match d {
        OpD::Project(es) => es.len(),
        OpD::Agg(g, a) => g.len() + a.len(),
        _ => w,
    }
}

fn last_is_grouped_agg(ds: &[OpD]) -> bool {
    matches!(ds.last(), Some(OpD::Agg(g, _)) if !g.is_empty())
}

// ---------------------------------------------------------------------------------------------
// chain: the push pipeline
// ---------------------------------------------------------------------------------------------

fn run_chain(src: &str, table: &str, opds: &[OpD]) -> String {
    let rows = parse_table(table);
    let sink = SharedSink::default();
    let operators: Vec<Box<dyn PushOperator>> = opds.iter().map(make_push).collect();
    let source: Box<dyn Source> = if src == "v" {
        let max = rows.len() + 64;
        Box::new(Fuel { inner: VectorSource::new(columns_of(&rows)), calls: 0, max })
    } else {
        let chunks = split_chunks_w(&rows, &parse_sizes(src), table_width(table, &rows));
        Box::new(ListSource { chunks: chunks.into_iter().map(Some).collect(), pos: 0 })
    };
    let mut p = Pipeline::new(source, operators, Box::new(sink.clone()));
    match p.execute() {
        Ok(()) => {}
        Err(OperatorError::Execution(m)) if m == "hang" => return "hang".into(),
        Err(_) => return "err".into(),
    }
    let out = sink.0.lock().unwrap().clone();
    if last_is_grouped_agg(opds) { show_sorted(&out) } else { show_rows(&out) }
}

// ---------------------------------------------------------------------------------------------
// pull: the same chain from operators/*.rs
// ---------------------------------------------------------------------------------------------

fn any_schema(w: usize) -> Vec<LogicalType> {
    vec![LogicalType::Any; w]
}

fn run_pull(src: &str, table: &str, opds: &[OpD]) -> String {
    let rows = parse_table(table);
    let mut width = table_width(table, &rows);
    let chunks = split_chunks_w(&rows, &parse_sizes(src), width);
    let mut cur: Box<dyn Operator> = Box::new(Mock { chunks: chunks.into_iter().map(Some).collect(), pos: 0 });
    let store = Arc::new(grafeo_core::graph::lpg::LpgStore::new());
    for d in opds {
        let w2 = out_width(d, width);
        cur = match d {
            OpD::Filter(c, op, v) => {
                let bop = match op.as_str() {
                    "eq" => ops::BinaryFilterOp::Eq,
                    "ne" => ops::BinaryFilterOp::Ne,
                    "lt" => ops::BinaryFilterOp::Lt,
                    "le" => ops::BinaryFilterOp::Le,
                    "gt" => ops::BinaryFilterOp::Gt,
                    _ => ops::BinaryFilterOp::Ge,
                };
                let e = ops::FilterExpression::Binary {
                    left: Box::new(ops::FilterExpression::Variable("x".into())),
                    op: bop,
                    right: Box::new(ops::FilterExpression::Literal(v.clone())),
                };
                let mut vc = HashMap::new();
                vc.insert("x".to_string(), *c);
                Box::new(ops::FilterOperator::new(cur, Box::new(ops::ExpressionPredicate::new(e, vc, Arc::clone(&store)))))
            }
            OpD::Project(es) => {
                let ps: Vec<ops::ProjectExpr> = es
                    .iter()
                    .map(|e| match e {
                        Ex::Col(c) => ops::ProjectExpr::Column(*c),
                        Ex::Const(v) => ops::ProjectExpr::Constant(v.clone()),
                        Ex::Bin(..) => panic!("no pull counterpart"),
                    })
                    .collect();
                Box::new(ops::ProjectOperator::new(cur, ps, any_schema(w2)))
            }
            OpD::Limit(n) => Box::new(ops::LimitOperator::new(cur, *n, any_schema(w2))),
            OpD::Skip(n) => Box::new(ops::SkipOperator::new(cur, *n, any_schema(w2))),
            OpD::SkipLimit(s, n) => Box::new(ops::LimitSkipOperator::new(cur, *s, *n, any_schema(w2))),
            OpD::Distinct(None) | OpD::DistinctMat(None) => Box::new(ops::DistinctOperator::new(cur, any_schema(w2))),
            OpD::Distinct(Some(c)) | OpD::DistinctMat(Some(c)) => {
                Box::new(ops::DistinctOperator::on_columns(cur, c.clone(), any_schema(w2)))
            }
            OpD::Sort(keys) => {
                let ks: Vec<ops::SortKey> = keys
                    .iter()
                    .map(|&(c, asc, nf)| {
                        let k = if asc { ops::SortKey::ascending(c) } else { ops::SortKey::descending(c) };
                        k.with_null_order(if nf { ops::NullOrder::NullsFirst } else { ops::NullOrder::NullsLast })
                    })
                    .collect();
                Box::new(ops::SortOperator::new(cur, ks, any_schema(w2)))
            }
            OpD::Agg(g, a) => {
                let aggs: Vec<ops::AggregateExpr> = a
                    .iter()
                    .map(|(k, c)| match k.as_str() {
                        "cs" => ops::AggregateExpr::count_star(),
                        "c" => ops::AggregateExpr::count(*c),
                        "s" => ops::AggregateExpr::sum(*c),
                        "mn" => ops::AggregateExpr::min(*c),
                        _ => ops::AggregateExpr::max(*c),
                    })
                    .collect();
                if g.is_empty() {
                    Box::new(ops::SimpleAggregateOperator::new(cur, aggs, any_schema(w2)))
                } else {
                    Box::new(ops::HashAggregateOperator::new(cur, g.clone(), aggs, any_schema(w2)))
                }
            }
        };
        width = w2;
    }
    let mut out = Vec::new();
    let mut guard = 0;
    loop {
        match cur.next() {
            Ok(Some(c)) => out.extend(chunk_rows(&c)),
            Ok(None) => break,
            Err(_) => return "err".into(),
        }
        guard += 1;
        if guard > 100_000 {
            return "hang".into();
        }
    }
    if last_is_grouped_agg(opds) { show_sorted(&out) } else { show_rows(&out) }
}

// ---------------------------------------------------------------------------------------------
// par: the real ParallelPipeline
// ---------------------------------------------------------------------------------------------

/// A parallel source that cuts morsels of a size of our choosing (the trait's default method is
/// overridden; everything else is the crate's own source).
struct MorselSized<S: ParallelSource> {
    inner: S,
    morsel: usize,
}

impl<S: ParallelSource> Source for MorselSized<S> {
    fn next_chunk(&mut self, n: usize) -> Result<Option<DataChunk>, OperatorError> {
        self.inner.next_chunk(n)
    }
    fn reset(&mut self) {
        self.inner.reset()
    }
    fn name(&self) -> &'static str {
        "MorselSized"
    }
}

impl<S: ParallelSource> ParallelSource for MorselSized<S> {
    fn total_rows(&self) -> Option<usize> {
        self.inner.total_rows()
    }
    fn create_partition(&self, morsel: &Morsel) -> Box<dyn Source> {
        self.inner.create_partition(morsel)
    }
    fn generate_morsels(&self, _morsel_size: usize, source_id: usize) -> Vec<Morsel> {
        match self.total_rows() {
            Some(t) => par::generate_morsels(t, self.morsel, source_id),
            None => vec![],
        }
    }
    fn num_columns(&self) -> usize {
        self.inner.num_columns()
    }
}

/// rows in sequence, but every maximal block of rows whose sort-key columns print alike is put
/// into textual order (the order among ties is not specified by a merge of runs)
fn canon_ties(rows: &[Row], keys: &[(usize, bool, bool)]) -> Vec<Row> {
    let keytxt = |r: &Row| keys.iter().map(|k| r.get(k.0).map_or("?".to_string(), tok)).collect::<Vec<_>>().join(",");
    let mut out: Vec<Row> = Vec::new();
    let mut i = 0;
    while i < rows.len() {
        let mut j = i + 1;
        while j < rows.len() && keytxt(&rows[j]) == keytxt(&rows[i]) {
            j += 1;
        }
        let mut block: Vec<Row> = rows[i..j].to_vec();
        block.sort_by_key(show_row);
        out.extend(block);
        i = j;
    }
    out
}

fn run_par(workers: usize, morsel: &str, chunk: usize, srckind: &str, table: &str, opds: &[OpD]) -> String {
    let rows = parse_table(table);
    let total = rows.len();
    let mut config = ParallelPipelineConfig::default().with_workers(workers);
    config.chunk_size = chunk;
    let (pressure, custom): (Option<PressureLevel>, Option<usize>) = match morsel {
        "pN" => (Some(PressureLevel::Normal), None),
        "pM" => (Some(PressureLevel::Moderate), None),
        "pH" => (Some(PressureLevel::High), None),
        "pC" => (Some(PressureLevel::Critical), None),
        m => (None, Some(m.parse().unwrap())),
    };
    if let Some(p) = pressure {
        config = config.with_pressure(p);
    }
    let source: Arc<dyn ParallelSource> = if srckind == "v" {
        let s = ParallelVectorSource::new(columns_of(&rows));
        match custom {
            Some(m) => Arc::new(MorselSized { inner: s, morsel: m }),
            None => Arc::new(s),
        }
    } else {
        let s = ParallelChunkSource::new(split_chunks(&rows, &parse_sizes(srckind)));
        match custom {
            Some(m) => Arc::new(MorselSized { inner: s, morsel: m }),
            None => Arc::new(s),
        }
    };
    let mut factory = CloneableOperatorFactory::new();
    for d in opds {
        let d = d.clone();
        factory = factory.with_operator(move || make_push(&d));
    }
    let breaker = opds.iter().any(|d| matches!(d, OpD::Sort(_) | OpD::Distinct(_) | OpD::DistinctMat(_) | OpD::Agg(..)));
    if breaker {
        factory = factory.with_pipeline_breakers();
    }
    let pipeline = ParallelPipeline::new(source, Arc::new(factory), config);
    let res = match pipeline.execute() {
        Ok(r) => r,
        Err(_) => return "err".into(),
    };
    let meta = format!("m{}r{}", res.morsels_processed, res.rows_processed);
    let _ = total;
    let body = match opds.last() {
        Some(OpD::Sort(keys)) => {
            // every worker's sort operator emitted one sorted chunk: the runs of the merge phase
            let runs: Vec<Vec<DataChunk>> = res.chunks.into_iter().map(|c| vec![c]).collect();
            let mk: Vec<par::SortKey> =
                keys.iter().map(|&(column, ascending, nulls_first)| par::SortKey { column, ascending, nulls_first }).collect();
            let merged = par::merge_sorted_chunks(runs, &mk, 2048).unwrap();
            let rows: Vec<Row> = merged.iter().flat_map(chunk_rows).collect();
            show_rows(&canon_ties(&rows, keys))
        }
        Some(OpD::Distinct(_)) | Some(OpD::DistinctMat(_)) => {
            let merged = par::merge_distinct_results(vec![res.chunks]).unwrap();
            let rows: Vec<Row> = merged.iter().flat_map(chunk_rows).collect();
            show_sorted(&rows)
        }
        _ => {
            let rows: Vec<Row> = res.chunks.iter().flat_map(chunk_rows).collect();
            show_sorted(&rows)
        }
    };
    format!("{meta}|{body}")
}

// ---------------------------------------------------------------------------------------------
// spill directory
// ---------------------------------------------------------------------------------------------

static DIR_SEQ: AtomicU64 = AtomicU64::new(0);

pub fn spill_base() -> PathBuf {
    std::env::temp_dir().join("vh-push-spill")
}

fn fresh_dir() -> PathBuf {
    let d = spill_base().join(format!("d{}-{}", std::process::id(), DIR_SEQ.fetch_add(1, AO::Relaxed)));
    std::fs::create_dir_all(&d).unwrap();
    d
}

fn count_files(d: &PathBuf) -> usize {
    std::fs::read_dir(d).map(|it| it.count()).unwrap_or(0)
}

/// remove the directory only if it is empty: anything the code left behind stays visible
fn release_dir(d: &PathBuf) {
    let _ = std::fs::remove_dir(d);
}

// ---------------------------------------------------------------------------------------------
// xsort / xruns: external sort
// ---------------------------------------------------------------------------------------------

fn run_xsort(threshold: usize, src: &str, table: &str, keys: &[(usize, bool, bool)]) -> String {
    let rows = parse_table(table);
    let dir = fresh_dir();
    let manager = Arc::new(SpillManager::new(&dir).unwrap());
    let mut op = pushops::SpillableSortPushOperator::with_spilling(push_keys(keys), Arc::clone(&manager), threshold);
    let mut sink = SharedSink::default();
    let mut max_files = 0;
    for c in split_chunks(&rows, &parse_sizes(src)) {
        if op.push(c, &mut sink).is_err() {
            return "err".into();
        }
        max_files = max_files.max(count_files(&dir));
    }
    if op.finalize(&mut sink).is_err() {
        return "err".into();
    }
    let out = sink.0.lock().unwrap().clone();
    drop(op);
    let after_op = count_files(&dir);
    let active = manager.active_file_count();
    drop(manager);
    let after_mgr = count_files(&dir);
    release_dir(&dir);
    format!("{}|runs{}|left{},{}|active{}", show_rows(&out), max_files, after_op, after_mgr, active)
}

fn spill_keys(keys: &[(usize, bool, bool)]) -> Vec<spill::SortKey> {
    keys.iter()
        .map(|&(column, asc, nf)| spill::SortKey {
            column,
            direction: if asc { spill::SortDirection::Ascending } else { spill::SortDirection::Descending },
            null_order: if nf { spill::NullOrder::First } else { spill::NullOrder::Last },
        })
        .collect()
}

fn run_xruns(keys: &[(usize, bool, bool)], mem: &str, runs: &[&str]) -> String {
    let dir = fresh_dir();
    let manager = Arc::new(SpillManager::new(&dir).unwrap());
    let memrows = parse_table(mem);
    let ncols = runs.iter().map(|r| parse_table(r)).chain(std::iter::once(memrows.clone())).find_map(|t| t.first().map(|r| r.len())).unwrap_or(1);
    let mut xs = ExternalSort::new(Arc::clone(&manager), ncols, spill_keys(keys));
    for r in runs {
        if xs.spill_sorted_run(parse_table(r)).is_err() {
            return "err".into();
        }
    }
    let files = count_files(&dir);
    let out = match xs.merge_all(memrows) {
        Ok(o) => o,
        Err(_) => return "err".into(),
    };
    drop(xs);
    let after_op = count_files(&dir);
    let active = manager.active_file_count();
    drop(manager);
    let after_mgr = count_files(&dir);
    release_dir(&dir);
    format!("{}|runs{}|left{},{}|active{}", show_rows(&out), files, after_op, after_mgr, active)
}

// ---------------------------------------------------------------------------------------------
// xagg: spillable aggregation
// ---------------------------------------------------------------------------------------------

fn run_xagg(threshold: usize, src: &str, table: &str, d: &OpD) -> String {
    let OpD::Agg(g, a) = d else { return "bad-op".into() };
    let rows = parse_table(table);
    let dir = fresh_dir();
    let manager = Arc::new(SpillManager::new(&dir).unwrap());
    let mut op =
        pushops::SpillableAggregatePushOperator::with_spilling(g.clone(), push_aggs(a), Arc::clone(&manager), threshold);
    let mut sink = SharedSink::default();
    let mut max_files = 0;
    for c in split_chunks(&rows, &parse_sizes(src)) {
        if op.push(c, &mut sink).is_err() {
            return "err".into();
        }
        max_files = max_files.max(count_files(&dir));
    }
    if op.finalize(&mut sink).is_err() {
        return "err".into();
    }
    let out = sink.0.lock().unwrap().clone();
    drop(op);
    let after_op = count_files(&dir);
    drop(manager);
    let after_mgr = count_files(&dir);
    release_dir(&dir);
    format!("{}|spilled{}|left{},{}", show_sorted(&out), if max_files > 0 { 1 } else { 0 }, after_op, after_mgr)
}

// ---------------------------------------------------------------------------------------------
// part: PartitionedState<i64>
// ---------------------------------------------------------------------------------------------

fn spill_res(nparts: usize, bytes: usize) -> String {
    if nparts != 1 {
        "x".into()
    } else if bytes > 0 {
        "w".into()
    } else {
        "0".into()
    }
}

fn run_part(nparts: usize, script: &[&str]) -> String {
    let dir = fresh_dir();
    let manager = Arc::new(SpillManager::new(&dir).unwrap());
    let mut st: PartitionedState<i64> = PartitionedState::new(
        Arc::clone(&manager),
        nparts,
        |v: &i64, w: &mut dyn std::io::Write| w.write_all(&v.to_le_bytes()),
        |r: &mut dyn std::io::Read| {
            let mut b = [0u8; 8];
            r.read_exact(&mut b)?;
            Ok(i64::from_le_bytes(b))
        },
    );
    let mut out: Vec<String> = Vec::new();
    let show_pairs = |mut v: Vec<(Vec<Value>, i64)>| -> String {
        let mut s: Vec<String> = v.drain(..).map(|(k, x)| format!("{}={}", show_row(&k), x)).collect();
        s.sort();
        if s.is_empty() { "none".into() } else { s.join(";") }
    };
    for cmd in script {
        let p: Vec<&str> = cmd.split(':').collect();
        let r = match p[0] {
            "i" => match st.insert(parse_row(p[1]), p[2].parse().unwrap()) {
                Ok(old) => old.map_or("new".to_string(), |o| format!("old{o}")),
                Err(_) => "err".into(),
            },
            "a" => match st.get_or_insert_with(parse_row(p[1]), || 0) {
                Ok(v) => {
                    *v += p[2].parse::<i64>().unwrap();
                    format!("{}", *v)
                }
                Err(_) => "err".into(),
            },
            "g" => match st.get(&parse_row(p[1])) {
                Ok(v) => v.map_or("none".to_string(), |x| x.to_string()),
                Err(_) => "err".into(),
            },
            // with several partitions the placement depends on the hash: only the fact is printed
            "sp" => st.spill_partition(p[1].parse().unwrap()).map_or("err".into(), |b| spill_res(nparts, b)),
            "sl" => st.spill_largest().map_or("err".into(), |b| spill_res(nparts, b)),
            "su" => st.spill_lru().map_or("err".into(), |b| spill_res(nparts, b)),
            "it" => st.iter_all().map_or("err".into(), |v| show_pairs(v)),
            "dr" => st.drain_all().map_or("err".into(), |v| show_pairs(v)),
            "cl" => {
                st.cleanup();
                "ok".into()
            }
            "sz" => format!("{}", st.total_size()),
            "fs" => if nparts == 1 { format!("{}", count_files(&dir)) } else { "x".into() },
            _ => "bad".into(),
        };
        out.push(r);
    }
    drop(st);
    let after_op = count_files(&dir);
    let bytes = manager.spilled_bytes();
    drop(manager);
    let after_mgr = count_files(&dir);
    release_dir(&dir);
    format!("{}|left{},{}|bytes{}", out.join(" "), after_op, after_mgr, if bytes == 0 { "0" } else { "+" })
}

// ---------------------------------------------------------------------------------------------
// selop / big / expr
// ---------------------------------------------------------------------------------------------

fn run_selop(op: &str, phys: &str, sel: &str) -> String {
    let rows = parse_table(phys);
    let ncols = rows.first().map_or(1, |r| r.len());
    let mut chunk = build_chunk(&rows, ncols);
    let idx = parse_u64s(sel).unwrap();
    let mut sv = SelectionVector::new_empty();
    for i in idx {
        sv.push(i as usize);
    }
    chunk.set_selection(sv);
    let mut o = make_push(&parse_op(op));
    let mut sink = SharedSink::default();
    let cont = match o.push(chunk, &mut sink) {
        Ok(c) => c,
        Err(_) => return "err".into(),
    };
    if o.finalize(&mut sink).is_err() {
        return "err".into();
    }
    let out = sink.0.lock().unwrap().clone();
    format!("{}|{}", show_rows(&out), if cont { "go" } else { "stop" })
}

/// digest of a long result: row count, first and last three rows, and a checksum of every row
fn digest(rows: &[Row]) -> String {
    let n = rows.len();
    let mut h: u64 = 1469598103934665603;
    for r in rows {
        for b in show_row(r).bytes() {
            h = (h ^ b as u64).wrapping_mul(1099511628211) % 1000000007;
        }
        h = (h ^ 59).wrapping_mul(1099511628211) % 1000000007;
    }
    let head: Vec<String> = rows.iter().take(3).map(show_row).collect();
    let tail: Vec<String> = rows.iter().skip(n.saturating_sub(3).max(3.min(n))).map(show_row).collect();
    format!("n{}|{}|{}|h{}", n, head.join(";"), tail.join(";"), h)
}

fn run_big(n: u64, mult: u64, opds: &[OpD]) -> String {
    let rows = parse_table(&format!("gen:{n}:{mult}:{n}"));
    let sink = SharedSink::default();
    let operators: Vec<Box<dyn PushOperator>> = opds.iter().map(make_push).collect();
    let chunk = build_chunk(&rows, 2);
    let source = Box::new(ListSource { chunks: vec![Some(chunk)], pos: 0 });
    let mut p = Pipeline::new(source, operators, Box::new(sink.clone()));
    if p.execute().is_err() {
        return "err".into();
    }
    let out = sink.0.lock().unwrap().clone();
    digest(&out)
}

fn run_dmerge(tables: &[&str]) -> String {
    let results: Vec<Vec<DataChunk>> = tables
        .iter()
        .map(|t| {
            let rows = parse_table(t);
            if rows.is_empty() { vec![] } else { vec![build_chunk(&rows, rows[0].len())] }
        })
        .collect();
    match par::merge_distinct_results(results) {
        Ok(cs) => show_rows(&cs.iter().flat_map(chunk_rows).collect::<Vec<_>>()),
        Err(_) => "err".into(),
    }
}

fn run_expr(op: &str, a: &str, b: &str) -> String {
    let e = Ex::Bin(op.to_string(), Box::new(Ex::Col(0)), Box::new(Ex::Col(1)));
    let chunk = build_chunk(&[vec![untok(a), untok(b)]], 2);
    let v = push_ex(&e).evaluate(&chunk, 0);
    tok(&v)
}

// ---------------------------------------------------------------------------------------------
// dispatch
// ---------------------------------------------------------------------------------------------

pub fn run(args: &[&str]) -> String {
    let a: Vec<String> = args.iter().map(|s| s.to_string()).collect();
    guarded(move || {
        let a: Vec<&str> = a.iter().map(|s| s.as_str()).collect();
        match a.as_slice() {
            ["chain", src, table, ops @ ..] => run_chain(src, table, &ops.iter().map(|o| parse_op(o)).collect::<Vec<_>>()),
            ["pull", src, table, ops @ ..] => run_pull(src, table, &ops.iter().map(|o| parse_op(o)).collect::<Vec<_>>()),
            ["par", w, m, c, sk, table, ops @ ..] => run_par(
                w.parse().unwrap(),
                m,
                c.parse().unwrap(),
                sk,
                table,
                &ops.iter().map(|o| parse_op(o)).collect::<Vec<_>>(),
            ),
            ["xsort", t, src, table, keys] => run_xsort(t.parse().unwrap(), src, table, &parse_keys(keys)),
            ["xruns", keys, mem, runs @ ..] => run_xruns(&parse_keys(keys), mem, runs),
            ["xagg", t, src, table, op] => run_xagg(t.parse().unwrap(), src, table, &parse_op(op)),
            ["part", n, script @ ..] => run_part(n.parse().unwrap(), script),
            ["selop", op, phys, sel] => run_selop(op, phys, sel),
            ["big", n, m, ops @ ..] => run_big(n.parse().unwrap(), m.parse().unwrap(), &ops.iter().map(|o| parse_op(o)).collect::<Vec<_>>()),
            ["expr", op, x, y] => run_expr(op, x, y),
            ["dmerge", tables @ ..] => run_dmerge(tables),
            _ => "bad-op".into(),
        }
    })
}


// ---------------------------------------------------------------------------------------------
// generator
// ---------------------------------------------------------------------------------------------

#[derive(Clone, Copy, PartialEq, Debug)]
enum Kind {
    Int, // small integers and NULL
    Str, // short strings and NULL
    Mix, // anything, including values whose hash keys collide
}

fn gen_val(r: &mut Rng, k: Kind) -> Value {
    match k {
        Kind::Int => {
            if r.chance(1, 7) {
                Value::Null
            } else {
                Value::Int64(r.below(9) as i64 - 3)
            }
        }
        Kind::Str => {
            if r.chance(1, 7) {
                Value::Null
            } else {
                Value::String(r.pick(&["", "a", "b", "ab", "é"]).to_string().into())
            }
        }
        Kind::Mix => match r.below(12) {
            0 => Value::Null,
            1 => Value::Bool(false),
            2 => Value::Bool(true),
            3 => Value::Int64(0),
            4 => Value::Int64(1),
            5 => Value::Float64(0.0),
            6 => Value::Float64(1.5),
            7 => Value::Int64(1.5f64.to_bits() as i64),
            8 => Value::String("".into()),
            9 => Value::String("a".into()),
            10 => r.pick(&[Value::Float64(-0.0), Value::Float64(f64::NAN), Value::Float64(2.0), Value::Float64(1.0)]).clone(),
            _ => Value::Int64(2),
        }
        .clone(),
    }
}

fn gen_table(r: &mut Rng, kinds: &[Kind], n: usize) -> Vec<Row> {
    (0..n).map(|_| kinds.iter().map(|k| gen_val(r, *k)).collect()).collect()
}

fn table_str_w(rows: &[Row], w: usize) -> String {
    if rows.is_empty() { format!("e{w}") } else { table_str(rows) }
}

fn table_str(rows: &[Row]) -> String {
    if rows.is_empty() { "-".into() } else { rows.iter().map(show_row).collect::<Vec<_>>().join(";") }
}

fn gen_sizes(r: &mut Rng, n: usize) -> String {
    let mut left = n;
    let mut v: Vec<usize> = Vec::new();
    let style = r.below(5);
    while left > 0 && v.len() < 12 {
        let s = match style {
            0 => 1,
            1 => r.below(3) as usize,
            2 => left,
            _ => r.below(left as u64 + 2) as usize,
        };
        let s = s.min(left);
        v.push(s);
        left -= s;
    }
    if r.chance(1, 5) {
        v.push(0);
    }
    // whatever is left over becomes one more chunk on both sides
    format!("c:{}", if v.is_empty() { "-".to_string() } else { join(&v) })
}

fn gen_count(r: &mut Rng, n: usize) -> usize {
    match r.below(8) {
        0 => 0,
        1 => 1,
        2 => n,
        3 => n + 2,
        4 => *r.pick(&[255usize, 256, 999, 1000, 300]),
        _ => r.below(n as u64 + 2) as usize,
    }
}

fn gen_const(r: &mut Rng, k: Kind) -> Value {
    if r.chance(1, 8) {
        // a constant of another type: exposes the comparison semantics
        return r.pick(&[Value::Float64(2.0), Value::Bool(true), Value::Bool(false), Value::Null, Value::Int64(1)]).clone();
    }
    loop {
        let v = gen_val(r, k);
        if !matches!(v, Value::Null) || r.chance(1, 6) {
            return v;
        }
    }
}

fn cols_of_kind(kinds: &[Kind], pred: impl Fn(Kind) -> bool) -> Vec<usize> {
    kinds.iter().enumerate().filter(|(_, k)| pred(**k)).map(|(i, _)| i).collect()
}

fn gen_keys(r: &mut Rng, cols: &[usize]) -> String {
    let n = 1 + r.below(2.min(cols.len() as u64)) as usize;
    let mut used: Vec<usize> = Vec::new();
    let mut out = Vec::new();
    for _ in 0..n {
        let c = *r.pick(cols);
        if used.contains(&c) {
            continue;
        }
        used.push(c);
        out.push(format!("{}{}{}", c, if r.chance(1, 2) { "a" } else { "d" }, if r.chance(1, 2) { "f" } else { "l" }));
    }
    out.join(".")
}

/// one operator item that is well-typed for `kinds`; returns the item and the new column kinds.
/// `ordered` = the row order is determined so far (false after a grouped aggregate).
fn gen_op(r: &mut Rng, kinds: &[Kind], nrows: usize, allow_limit: bool, pull_ok: bool) -> Option<(String, Vec<Kind>, bool)> {
    let w = kinds.len();
    match r.below(11) {
        0 | 1 => {
            let c = r.below(w as u64) as usize;
            let op = *r.pick(&["eq", "ne", "lt", "le", "gt", "ge"]);
            Some((format!("f:{}:{}:{}", c, op, tok(&gen_const(r, kinds[c]))), kinds.to_vec(), true))
        }
        2 => {
            let n = 1 + r.below(3) as usize;
            let ints = cols_of_kind(kinds, |k| k == Kind::Int);
            let mut es = Vec::new();
            let mut ks = Vec::new();
            for _ in 0..n {
                match r.below(if ints.is_empty() || pull_ok { 3 } else { 5 }) {
                    0 | 1 => {
                        let c = r.below(w as u64) as usize;
                        es.push(format!("c{c}"));
                        ks.push(kinds[c]);
                    }
                    2 => {
                        let kk = *r.pick(&[Kind::Int, Kind::Str, Kind::Mix]);
                        let v = gen_val(r, kk);
                        ks.push(match v {
                            Value::Int64(i) if (-3..=5).contains(&i) => Kind::Int,
                            Value::Null => Kind::Int,
                            _ => Kind::Mix,
                        });
                        es.push(format!("k{}", tok(&v)));
                    }
                    _ => {
                        let a = *r.pick(&ints);
                        let op = *r.pick(&["add", "sub", "mul", "div", "mod"]);
                        let rhs = if r.chance(1, 2) {
                            format!("c{}", r.pick(&ints))
                        } else {
                            format!("kI{}", *r.pick(&[0i64, 1, -1, 2, 3, 9223372036854775807, -9223372036854775807]))
                        };
                        es.push(format!("b{op}.c{a}.{rhs}"));
                        // products of huge constants leave the small-integer range: no longer summed
                        ks.push(Kind::Mix);
                    }
                }
            }
            Some((format!("p:{}", es.join(",")), ks, true))
        }
        3 if allow_limit => Some((format!("l:{}", gen_count(r, nrows)), kinds.to_vec(), true)),
        4 => Some((format!("s:{}", gen_count(r, nrows)), kinds.to_vec(), true)),
        5 if allow_limit => Some((format!("sl:{}:{}", gen_count(r, nrows), gen_count(r, nrows)), kinds.to_vec(), true)),
        6 | 7 => {
            let tag = if r.chance(2, 3) { "d" } else { "dm" };
            if r.chance(1, 2) {
                Some((tag.to_string(), kinds.to_vec(), true))
            } else {
                let c: Vec<usize> = (0..w).filter(|_| r.chance(1, 2)).collect();
                if c.is_empty() {
                    Some((tag.to_string(), kinds.to_vec(), true))
                } else {
                    Some((format!("{}:{}", tag, c.iter().map(|x| x.to_string()).collect::<Vec<_>>().join(".")), kinds.to_vec(), true))
                }
            }
        }
        8 => {
            let cols = cols_of_kind(kinds, |k| k != Kind::Mix);
            if cols.is_empty() {
                return None;
            }
            Some((format!("o:{}", gen_keys(r, &cols)), kinds.to_vec(), true))
        }
        9 | 10 => {
            let g: Vec<usize> = (0..w).filter(|_| r.chance(1, 3)).collect();
            let ints = cols_of_kind(kinds, |k| k == Kind::Int);
            let mut aggs: Vec<String> = Vec::new();
            let mut ks: Vec<Kind> = g.iter().map(|c| kinds[*c]).collect();
            for _ in 0..r.below(4) {
                if ints.is_empty() || r.chance(1, 4) {
                    aggs.push("cs".into());
                    ks.push(Kind::Int);
                } else {
                    let c = *r.pick(&ints);
                    let f = *r.pick(&["c", "s", "mn", "mx"]);
                    aggs.push(format!("{f}{c}"));
                    ks.push(if f == "s" { Kind::Mix } else { Kind::Int });
                }
            }
            if g.is_empty() && aggs.is_empty() {
                aggs.push("cs".into());
                ks.push(Kind::Int);
            }
            let gs = if g.is_empty() { "-".to_string() } else { g.iter().map(|x| x.to_string()).collect::<Vec<_>>().join(".") };
            let al = if aggs.is_empty() { "-".to_string() } else { aggs.join(".") };
            Some((format!("g:{gs}:{al}"), ks, g.is_empty()))
        }
        _ => None,
    }
}

/// a chain of 0..4 items; a limit-like item in non-final position only when `early_limits`
fn gen_chain(r: &mut Rng, kinds0: &[Kind], nrows: usize, early_limits: bool, pull_ok: bool) -> Vec<String> {
    let len = r.below(5) as usize;
    let mut kinds = kinds0.to_vec();
    let mut out: Vec<String> = Vec::new();
    let mut ordered = true;
    let mut tries = 0;
    while out.len() < len && tries < 40 {
        tries += 1;
        if !ordered {
            // after a grouped aggregate the row order is the hash map's: only a total sort on the
            // group columns (unique, comparable keys) may follow
            break;
        }
        let last = out.len() + 1 == len;
        if let Some((item, ks, ord)) = gen_op(r, &kinds, nrows, last || early_limits, pull_ok) {
            if ks.is_empty() {
                continue;
            }
            out.push(item);
            kinds = ks;
            ordered = ord;
        }
    }
    out
}

fn cmp_val(a: &Value, b: &Value) -> std::cmp::Ordering {
    use std::cmp::Ordering::*;
    match (a, b) {
        (Value::Int64(x), Value::Int64(y)) => x.cmp(y),
        (Value::String(x), Value::String(y)) => x.as_str().cmp(y.as_str()),
        _ => Equal,
    }
}

/// the comparator every sort of the code base implements, for integer / string / NULL keys
fn cmp_keys(keys: &[(usize, bool, bool)], a: &Row, b: &Row) -> std::cmp::Ordering {
    use std::cmp::Ordering::*;
    for &(c, asc, nf) in keys {
        let o = match (&a[c], &b[c]) {
            (Value::Null, Value::Null) => Equal,
            (Value::Null, _) => if nf { Less } else { Greater },
            (_, Value::Null) => if nf { Greater } else { Less },
            (x, y) => cmp_val(x, y),
        };
        let o = if asc { o } else { o.reverse() };
        if o != Equal {
            return o;
        }
    }
    Equal
}

fn gen_part_script(r: &mut Rng, single: bool) -> Vec<String> {
    let keys = ["I1", "I2", "N", "S61", "I1,I2", "B0", "F0000000000000000", "I0"];
    let n = 2 + r.below(10);
    let mut v: Vec<String> = Vec::new();
    for _ in 0..n {
        let k = *r.pick(&keys);
        v.push(match r.below(if single { 13 } else { 9 }) {
            0 | 1 | 2 => format!("i:{}:{}", k, r.below(50)),
            3 | 4 => format!("a:{}:{}", k, r.below(9) as i64 - 3),
            5 => format!("g:{k}"),
            6 => "sl".into(),
            7 => "su".into(),
            8 => "sz".into(),
            9 => "sp:0".into(),
            10 => "fs".into(),
            11 => "it".into(),
            _ => if r.chance(1, 2) { "cl".into() } else { "dr".into() },
        });
    }
    if !single || r.chance(1, 2) {
        v.push(if !single || r.chance(1, 2) { "dr".into() } else { "cl".into() });
    }
    v
}

pub fn generate(seed: u64, cases: usize, out: &mut Vec<String>) {
    let mut r = Rng::new(seed ^ 0x70757368);
    // fixed lines: single chunks beyond the 16-bit selection index, arithmetic edge cases
    for l in [
        "push big 65535 7919 o:0al s:10",
        "push big 65537 7919 o:0al s:1",
        "push big 70000 7919 o:0al f:0:ge:I5",
        "push big 66000 3 o:0al d",
        "push big 66000 3 o:0al l:65535",
        "push big 66000 3 o:0al l:65536",
        "push big 66000 1 s:65990",
        "push expr div I-9223372036854775808 I-1",
        "push expr mod I-9223372036854775808 I-1",
        "push expr mul I4611686018427387904 I2",
        "push expr div I7 I0",
        "push expr mod I-7 I2",
        "push expr add S61 I1",
        "push dmerge N,I0 I0,N",
        "push dmerge I1,I2;I1,I2 I1,I2;I2,I1",
    ] {
        out.push(l.to_string());
    }
    for c in 0..cases {
        out.push(format!("# case {} seed {}", c, seed));
        // --- push pipeline and pull operators on the same table and chain
        for _ in 0..3 {
            let w = 1 + r.below(3) as usize;
            let kinds: Vec<Kind> = (0..w).map(|_| *r.pick(&[Kind::Int, Kind::Int, Kind::Str, Kind::Mix])).collect();
            let n = match r.below(6) {
                0 => 0,
                1 => 1,
                _ => r.below(30) as usize,
            };
            let rows = gen_table(&mut r, &kinds, n);
            let pull_ok = r.chance(2, 3);
            let early = r.chance(1, 5);
            let chain = gen_chain(&mut r, &kinds, n, early, pull_ok);
            let ops = chain.join(" ");
            let t = table_str_w(&rows, w);
            let src = if r.chance(1, 4) { "v".to_string() } else { gen_sizes(&mut r, n) };
            out.push(format!("push chain {} {} {}", src, t, ops).trim_end().to_string());
            if pull_ok {
                let src = if src == "v" { gen_sizes(&mut r, n) } else { src };
                out.push(format!("push pull {} {} {}", src, t, ops).trim_end().to_string());
            }
        }
        // --- real parallel pipeline
        {
            let kinds = [Kind::Int, *r.pick(&[Kind::Int, Kind::Str])];
            let (t, n) = if r.chance(1, 6) {
                let n = *r.pick(&[1000usize, 1024, 1025, 2500, 3000]);
                (format!("gen:{}:{}:{}", n, r.pick(&[1u64, 7, 13]), r.pick(&[5u64, 11, 1000])), n)
            } else {
                let n = r.below(25) as usize;
                (table_str(&gen_table(&mut r, &kinds, n)), n)
            };
            let workers = *r.pick(&[1usize, 1, 2, 3, 4, 7, 8, 16]);
            let morsel = if n >= 1000 {
                r.pick(&["pC", "pC", "100", "333", "1000", "1024", "1025", "5000", "pN", "pH", "pM"]).to_string()
            } else {
                match r.below(6) {
                    0 => "1".to_string(),
                    1 => n.to_string(),
                    2 => (n + 1).to_string(),
                    3 => r.pick(&["pC", "pN"]).to_string(),
                    _ => r.range(1, 8).to_string(),
                }
            };
            let morsel = if morsel == "0" { "1".to_string() } else { morsel };
            let chunk = *r.pick(&[1usize, 2, 3, 7, 2048, 2048]);
            let sk = if n < 1000 && r.chance(1, 3) { gen_sizes(&mut r, n) } else { "v".to_string() };
            let mut ops: Vec<String> = Vec::new();
            for _ in 0..r.below(3) {
                if r.chance(2, 3) {
                    let c = r.below(2) as usize;
                    let k = if n >= 1000 { Value::Int64(r.below(6) as i64) } else { gen_val(&mut r, kinds[c]) };
                    ops.push(format!("f:{}:{}:{}", c, r.pick(&["eq", "ne", "lt", "le", "gt", "ge"]), tok(&k)));
                } else {
                    ops.push("p:c0,c1".to_string());
                }
            }
            let mut t = t;
            match r.below(4) {
                0 => ops.push(format!("o:{}", gen_keys(&mut r, &[0, 1]))),
                1 if n <= 1025 => {
                    ops.push("d".to_string());
                    // `merge_distinct_results` hashes the concatenated column feeds: (NULL, 0) and
                    // (0, NULL) collide and which of them survives depends on the schedule. The
                    // collision itself is exercised by `push dmerge`; here the table has no NULLs.
                    if !t.starts_with("gen:") && t != "-" {
                        let rows: Vec<Row> = parse_table(&t)
                            .into_iter()
                            .map(|row| row.into_iter().map(|v| if matches!(v, Value::Null) { Value::Int64(9) } else { v }).collect())
                            .collect();
                        t = table_str(&rows);
                    }
                }
                _ => {}
            }
            out.push(format!("push par {} {} {} {} {} {}", workers, morsel, chunk, sk, t, ops.join(" ")).trim_end().to_string());
        }
        // --- external sort
        {
            let kinds = [*r.pick(&[Kind::Int, Kind::Str]), Kind::Int];
            let n = r.below(24) as usize;
            let mut rows = gen_table(&mut r, &kinds, n);
            if r.chance(1, 2) {
                // make every row unique so that the order among equal keys is observable
                for (i, row) in rows.iter_mut().enumerate() {
                    row[1] = Value::Int64(100 + i as i64);
                }
            }
            let thr = match r.below(7) {
                0 => 0,
                1 => 1,
                2 => n,
                3 => n + 1,
                4 => 100_000,
                _ => r.below(n as u64 + 2) as usize,
            };
            let keys = if r.chance(2, 3) { format!("0{}{}", r.pick(&["a", "d"]), r.pick(&["f", "l"])) } else { gen_keys(&mut r, &[0, 1]) };
            out.push(format!("push xsort {} {} {} {}", thr, gen_sizes(&mut r, n), table_str(&rows), keys));
            if r.chance(1, 2) {
                let pk = parse_keys(&keys);
                let k = r.below(4) as usize;
                let mut runs: Vec<String> = Vec::new();
                for _ in 0..k {
                    let m = r.below(6) as usize;
                    let mut run = gen_table(&mut r, &kinds, m);
                    run.sort_by(|a, b| cmp_keys(&pk, a, b));
                    runs.push(table_str(&run));
                }
                let mm = r.below(5) as usize;
                let mem = gen_table(&mut r, &kinds, mm);
                out.push(format!("push xruns {} {} {}", keys, table_str(&mem), runs.join(" ")).trim_end().to_string());
            }
        }
        // --- spillable aggregation
        {
            let kinds = [*r.pick(&[Kind::Int, Kind::Str, Kind::Mix]), Kind::Int, *r.pick(&[Kind::Int, Kind::Mix])];
            let n = r.below(24) as usize;
            let rows = gen_table(&mut r, &kinds, n);
            let thr = *r.pick(&[0usize, 1, 2, 3, 5, 100_000]);
            let g = *r.pick(&["0", "0", "0.2", "2", "-"]);
            let aggs = *r.pick(&["cs", "cs.s1", "c1.mn1.mx1", "s1", "-"]);
            let aggs = if g == "-" && aggs == "-" { "cs" } else { aggs };
            out.push(format!("push xagg {} {} {} g:{}:{}", thr, gen_sizes(&mut r, n), table_str(&rows), g, aggs));
        }
        // --- partitioned state
        if r.chance(1, 2) {
            let single = r.chance(2, 3);
            let n = if single { 1 } else { *r.pick(&[2usize, 4, 256]) };
            out.push(format!("push part {} {}", n, gen_part_script(&mut r, single).join(" ")));
        }
        // --- a chunk that carries a selection vector
        {
            let kinds = [*r.pick(&[Kind::Int, Kind::Mix])];
            let n = r.below(10) as usize + 1;
            let rows = gen_table(&mut r, &kinds, n);
            let sel: Vec<usize> = (0..n).filter(|_| r.chance(1, 2)).collect();
            let op = match r.below(6) {
                0 => format!("f:0:{}:{}", r.pick(&["eq", "ne", "gt", "le"]), tok(&gen_val(&mut r, kinds[0]))),
                1 => format!("l:{}", r.below(n as u64 + 1)),
                2 => format!("s:{}", r.below(n as u64 + 1)),
                3 => "d".to_string(),
                4 => "p:c0,kI7".to_string(),
                _ => "dm".to_string(),
            };
            out.push(format!("push selop {} {} {}", op, table_str(&rows), list_arg(&sel)));
        }
        if r.chance(1, 3) {
            // merge of per-worker DISTINCT results, one chunk per worker
            let kinds = [*r.pick(&[Kind::Int, Kind::Mix]), *r.pick(&[Kind::Int, Kind::Mix])];
            let k = 1 + r.below(3) as usize;
            let ts: Vec<String> = (0..k)
                .map(|_| {
                    let n = r.below(6) as usize;
                    table_str(&gen_table(&mut r, &kinds, n))
                })
                .collect();
            out.push(format!("push dmerge {}", ts.join(" ")));
        }
        if r.chance(1, 3) {
            let big = [i64::MIN, i64::MAX, -1, 0, 1, 2, 3037000500, -3037000500];
            out.push(format!(
                "push expr {} I{} I{}",
                r.pick(&["add", "sub", "mul", "div", "mod"]),
                r.pick(&big),
                r.pick(&big)
            ));
        }
    }
}
