//! Stream `tx` — TransactionManager driven directly (C03, C04).
use crate::util::*;
use grafeo_common::types::{EdgeId, NodeId, TxId};
use grafeo_common::utils::error::{Error, TransactionError};
use grafeo_engine::transaction::{EntityId, IsolationLevel, TransactionManager, TxState};

pub struct TxState_ {
    mgr: TransactionManager,
    ids: Vec<TxId>,
}

impl TxState_ {
    pub fn new() -> Self {
        TxState_ { mgr: TransactionManager::new(), ids: Vec::new() }
    }
}

fn ent(s: &str) -> Option<EntityId> {
    let k: u64 = s[1..].parse().ok()?;
    match &s[..1] {
        "n" => Some(EntityId::Node(NodeId::new(k))),
        "e" => Some(EntityId::Edge(EdgeId::new(k))),
        _ => None,
    }
}

pub fn generate(seed: u64, cases: usize, out: &mut Vec<String>) {
    let mut r = Rng::new(seed ^ 0x7478);
    for c in 0..cases {
        out.push(format!("# case {} seed {}", c, seed));
        let n_ent = r.range(1, 4);
        let len = r.range(4, 40);
        let max_tx = r.range(2, 6);
        let ser_bias = r.below(3); // 0: all ser, 1: mixed, 2: mostly si
        let mut begun = 0u64;
        for _ in 0..len {
            let k = r.below(100);
            if begun == 0 || (k < 18 && begun < max_tx + 4) {
                let iso = match ser_bias {
                    0 => "ser",
                    1 => *r.pick(&["ser", "si", "rc"]),
                    _ => *r.pick(&["si", "si", "ser"]),
                };
                out.push(format!("tx begin {}", iso));
                begun += 1;
                continue;
            }
            // mostly recent transactions, sometimes an old or a non-existent one
            let i = if r.chance(1, 25) { begun + r.below(2) } else if r.chance(2, 3) { begun - 1 - r.below(begun.min(3)) } else { r.below(begun) };
            let e = format!("{}{}", if r.chance(1, 5) { "e" } else { "n" }, r.below(n_ent));
            match k {
                18..=44 => out.push(format!("tx write {} {}", i, e)),
                45..=62 => out.push(format!("tx read {} {}", i, e)),
                63..=84 => out.push(format!("tx commit {}", i)),
                85..=89 => out.push(format!("tx abort {}", i)),
                90..=95 => out.push("tx gc".to_string()),
                _ => out.push("tx obs".to_string()),
            }
        }
        // finish: commit everything still open, in random order, then observe
        let mut order: Vec<u64> = (0..begun).collect();
        for i in (1..order.len()).rev() {
            order.swap(i, r.below(i as u64 + 1) as usize);
        }
        for i in order {
            out.push(format!("tx commit {}", i));
        }
        out.push("tx obs".to_string());
        out.push("tx gc".to_string());
        out.push("tx obs".to_string());
    }
}

fn err_kind(e: &Error) -> &'static str {
    match e {
        Error::Transaction(TransactionError::InvalidState(_)) => "err:invalid",
        Error::Transaction(TransactionError::WriteConflict(_)) => "err:conflict",
        Error::Transaction(TransactionError::SerializationFailure(_)) => "err:serialization",
        _ => "err:other",
    }
}

pub fn run(st: &mut TxState_, args: &[&str]) -> String {
    let a = args.to_vec();
    guarded(move || {
        let tx = |st: &TxState_, s: &str| -> TxId {
            let i: usize = s.parse().unwrap();
            // ids are consecutive from the first one handed out; an index that was never
            // begun maps to the id it would get (the manager does not know it)
            match st.ids.get(i) {
                Some(t) => *t,
                None => TxId::new(2 + i as u64),
            }
        };
        match a.as_slice() {
            ["begin", iso] => {
                let lvl = match *iso {
                    "rc" => IsolationLevel::ReadCommitted,
                    "si" => IsolationLevel::SnapshotIsolation,
                    _ => IsolationLevel::Serializable,
                };
                let t = st.mgr.begin_with_isolation(lvl);
                st.ids.push(t);
                format!("{}", t.as_u64() - 2)
            }
            ["write", i, e] => match st.mgr.record_write(tx(st, i), ent(e).unwrap()) {
                Ok(()) => "ok".into(),
                Err(_) => "err".into(),
            },
            ["read", i, e] => match st.mgr.record_read(tx(st, i), ent(e).unwrap()) {
                Ok(()) => "ok".into(),
                Err(_) => "err".into(),
            },
            ["commit", i] => match st.mgr.commit(tx(st, i)) {
                Ok(e) => format!("ok:{}", e.as_u64()),
                Err(e) => err_kind(&e).into(),
            },
            ["abort", i] => match st.mgr.abort(tx(st, i)) {
                Ok(()) => "ok".into(),
                Err(_) => "err".into(),
            },
            ["gc"] => format!("{}", st.mgr.gc()),
            ["obs"] => {
                let states: String = st
                    .ids
                    .iter()
                    .map(|t| match st.mgr.state(*t) {
                        None => "-",
                        Some(TxState::Active) => "A",
                        Some(TxState::Committed) => "C",
                        Some(TxState::Aborted) => "X",
                    })
                    .collect();
                format!(
                    "{};{};{};{}",
                    st.mgr.current_epoch().as_u64(),
                    st.mgr.min_active_epoch().as_u64(),
                    st.mgr.active_count(),
                    states
                )
            }
            _ => "bad-op".into(),
        }
    })
}
