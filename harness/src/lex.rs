//! Stream `lex` (stub: filled in by the owner of this stream).
#![allow(unused)]
use crate::util::*;

pub fn generate(_seed: u64, _cases: usize, _out: &mut Vec<String>) {}

pub fn run(_args: &[&str]) -> String {
    "bad-op".into()
}
