//! Stream `lex` — C12 "no query text can crash or hang the embedding process".
//!
//! Stateless lines; query text travels as the lowercase hex of its UTF-8 bytes (`-` = empty).
//!
//!   lex gql <hex>               CORRESPONDENCE with `Model/Lex.lean`: the real GQL lexer's token list
//!                               `class:start-end,…` (byte offsets); `panic` on unwind; `,runaway`
//!                               appended when no `eof` arrived within 10000 tokens
//!   lex gql.ok <hex>            `no-panic` / `panic` for the same lexer loop
//!   lex run <lang> <db> <hex>   EXPLORATION (search, not proof): the whole front end
//!                               lang ∈ gql|cypher|gremlin|graphql|sparql, db ∈ empty|small.
//!                               Executed in a CHILD PROCESS (`vh run` fed one `lex run1 …` line),
//!                               because a stack overflow or an allocation failure aborts the process
//!                               and cannot be caught: `returned` (Ok or Err), `panic` (unwound),
//!                               `abort` (child died: signal / non-zero exit), `timeout` (> 20 s, killed)
//!   lex run1 <lang> <db> <hex>  the in-process half of `run` (what the child executes)
//!
//! Token classes: the Debug name of `TokenKind` — Eof→eof, Error→error, String→string,
//! QuotedIdentifier→qident, Parameter→param, Integer→int, Float→float; every other kind is `word`
//! when the token text starts with an ASCII letter or `_` (identifiers and keywords) and `punct`
//! otherwise (operators and punctuation).
#![allow(unused)]
use crate::util::*;
use grafeo_adapters::query::gql::Lexer;
use grafeo_common::types::Value;
use grafeo_engine::database::GrafeoDB;
use std::io::{Read, Write};
use std::process::{Command, Stdio};
use std::time::{Duration, Instant};

const MAX_TOKENS: usize = 10_000;
const WATCHDOG: Duration = Duration::from_secs(20);
/// address-space cap of the child in KiB (`ulimit -v`): an allocation blow-up aborts the child
/// instead of exhausting the machine
const CHILD_VMEM_KIB: u64 = 16 * 1024 * 1024;

pub const LANGS: [&str; 5] = ["gql", "cypher", "gremlin", "graphql", "sparql"];

fn hex_arg(s: &str) -> String {
    if s.is_empty() { "-".to_string() } else { hex(s.as_bytes()) }
}

fn text_arg(h: &str) -> Option<String> {
    String::from_utf8(unhex(h)?).ok()
}

// ------------------------------------------------------------------------------- implementation

fn class_of(kind: &str, text: &str) -> &'static str {
    match kind {
        "Eof" => "eof",
        "Error" => "error",
        "String" => "string",
        "QuotedIdentifier" => "qident",
        "Parameter" => "param",
        "Integer" => "int",
        "Float" => "float",
        _ => match text.chars().next() {
            Some(c) if c.is_ascii_alphabetic() || c == '_' => "word",
            _ => "punct",
        },
    }
}

/// the real lexer, driven to `Eof` (or to the token cap)
fn lex_gql(text: &str) -> String {
    let mut lx = Lexer::new(text);
    let mut out: Vec<String> = Vec::new();
    let mut ended = false;
    for _ in 0..MAX_TOKENS {
        let t = lx.next_token();
        let kind = format!("{:?}", t.kind);
        out.push(format!("{}:{}-{}", class_of(&kind, &t.text), t.span.start, t.span.end));
        if kind == "Eof" {
            ended = true;
            break;
        }
    }
    if !ended {
        out.push("runaway".to_string());
    }
    out.join(",")
}

fn small_db(db: &GrafeoDB) {
    let alice = db.create_node_with_props(
        &["Person"],
        vec![("name", Value::from("Alice")), ("age", Value::Int64(30)), ("score", Value::Float64(1.5))],
    );
    let bob = db.create_node_with_props(
        &["Person", "Employee"],
        vec![("name", Value::from("Bob")), ("age", Value::Int64(25)), ("score", Value::Float64(-2.25))],
    );
    let paris = db.create_node_with_props(
        &["City"],
        vec![("name", Value::from("Paris")), ("pop", Value::Int64(2_100_000)), ("lat", Value::Float64(48.85))],
    );
    db.create_edge(alice, bob, "KNOWS");
    db.create_edge(alice, paris, "LIVES_IN");
    // the SPARQL front end reads the RDF store: give it three triples as well
    let s = db.session();
    let _ = s.execute_sparql(
        "INSERT DATA { <http://ex/alice> <http://ex/knows> <http://ex/bob> . \
         <http://ex/alice> <http://ex/age> 30 . <http://ex/bob> <http://ex/name> \"Bob\" }",
    );
}

/// in-process execution of one front end; `returned` whether the engine answered Ok or Err
fn run1(lang: &str, dbk: &str, text: &str) -> String {
    guarded(|| {
        let db = GrafeoDB::new_in_memory();
        if dbk == "small" {
            small_db(&db);
        }
        let s = db.session();
        let ok = match lang {
            "gql" => s.execute(text).is_ok(),
            "cypher" => s.execute_cypher(text).is_ok(),
            "gremlin" => s.execute_gremlin(text).is_ok(),
            "graphql" => s.execute_graphql(text).is_ok(),
            "sparql" => s.execute_sparql(text).is_ok(),
            _ => return "bad-op".to_string(),
        };
        let _ = ok;
        "returned".to_string()
    })
}

/// run one `lex run1 …` line in a child `vh run` with a watchdog
fn run_child(lang: &str, dbk: &str, h: &str) -> String {
    let exe = match std::env::current_exe() {
        Ok(p) => p,
        Err(_) => return "spawn-failed".to_string(),
    };
    let line = format!("lex run1 {} {} {}\n", lang, dbk, h);
    // `sh -c 'ulimit -v …; exec vh run'` caps the child's memory; plain spawn if there is no sh
    let spawn = |with_sh: bool| {
        let mut c = if with_sh {
            let mut c = Command::new("sh");
            c.arg("-c").arg(format!("ulimit -v {} 2>/dev/null; exec \"$0\" run", CHILD_VMEM_KIB)).arg(&exe);
            c
        } else {
            let mut c = Command::new(&exe);
            c.arg("run");
            c
        };
        c.stdin(Stdio::piped()).stdout(Stdio::piped()).stderr(Stdio::null()).spawn()
    };
    let mut child = match spawn(true).or_else(|_| spawn(false)) {
        Ok(c) => c,
        Err(_) => return "spawn-failed".to_string(),
    };
    if let Some(mut si) = child.stdin.take() {
        let _ = si.write_all(line.as_bytes());
        // dropping `si` closes the pipe: the child sees end of input after this one line
    }
    let t0 = Instant::now();
    let status = loop {
        match child.try_wait() {
            Ok(Some(st)) => break Some(st),
            Ok(None) => {
                if t0.elapsed() > WATCHDOG {
                    let _ = child.kill();
                    let _ = child.wait();
                    break None;
                }
                std::thread::sleep(Duration::from_millis(1));
            }
            Err(_) => {
                let _ = child.kill();
                let _ = child.wait();
                return "wait-failed".to_string();
            }
        }
    };
    let st = match status {
        None => return "timeout".to_string(),
        Some(st) => st,
    };
    if !st.success() {
        return "abort".to_string();
    }
    let mut outp = String::new();
    if let Some(mut so) = child.stdout.take() {
        let _ = so.read_to_string(&mut outp);
    }
    match outp.lines().next().map(|l| l.trim()) {
        Some("returned") => "returned".to_string(),
        Some("panic") => "panic".to_string(),
        Some(other) => format!("child-said:{}", other.replace(char::is_whitespace, "_")),
        None => "abort".to_string(),
    }
}

pub fn run(args: &[&str]) -> String {
    match args {
        ["gql", h] => match text_arg(h) {
            Some(t) => guarded(|| lex_gql(&t)),
            None => "bad-op".into(),
        },
        ["gql.ok", h] => match text_arg(h) {
            Some(t) => {
                if guarded(|| lex_gql(&t)) == "panic" {
                    "panic".into()
                } else {
                    "no-panic".into()
                }
            }
            None => "bad-op".into(),
        },
        ["run", lang, dbk, h] => {
            if !LANGS.contains(lang) || !["empty", "small"].contains(dbk) || text_arg(h).is_none() {
                return "bad-op".into();
            }
            run_child(lang, dbk, h)
        }
        ["run1", lang, dbk, h] => match text_arg(h) {
            Some(t) if LANGS.contains(lang) && ["empty", "small"].contains(dbk) => {
                // a thread with a fixed 8 MiB stack, so that the outcome does not depend on `ulimit -s`
                let (lang, dbk) = (lang.to_string(), dbk.to_string());
                std::thread::Builder::new()
                    .stack_size(8 << 20)
                    .spawn(move || run1(&lang, &dbk, &t))
                    .map(|h| h.join().unwrap_or_else(|_| "panic".to_string()))
                    .unwrap_or_else(|_| "spawn-failed".to_string())
            }
            _ => "bad-op".into(),
        },
        _ => "bad-op".into(),
    }
}

// ------------------------------------------------------------------------------------ generator

/// every kind of Unicode White_Space (`char::is_whitespace`)
const WS: &[char] = &[
    '\u{9}', '\u{A}', '\u{B}', '\u{C}', '\u{D}', ' ', '\u{85}', '\u{A0}', '\u{1680}', '\u{2000}', '\u{2001}',
    '\u{2002}', '\u{2003}', '\u{2004}', '\u{2005}', '\u{2006}', '\u{2007}', '\u{2008}', '\u{2009}', '\u{200A}',
    '\u{2028}', '\u{2029}', '\u{202F}', '\u{205F}', '\u{3000}',
];

/// things that look like whitespace or letters but are neither for the lexer, plus controls
const ODD: &[&str] = &[
    "é", "ß", "漢", "😀", "\u{0}", "\u{1}", "\u{1b}", "\u{7f}", "\u{200B}", "\u{FEFF}", "\u{301}", "\u{180E}",
    "\u{80}", "\u{7FF}", "\u{800}", "\u{FFFF}", "\u{10000}", "\u{10FFFF}", "Ω", "٣", "\u{A0}", "\u{2028}",
];

const LEX_FRAGS: &[&str] = &[
    // keywords / identifiers
    "MATCH", "match", "RETURN", "WHERE", "AND", "OR", "NOT", "INSERT", "DELETE", "SET", "AS", "ORDER", "BY", "LIMIT",
    "NULL", "TRUE", "IN", "IS", "CASE", "END", "EXISTS", "UNWIND", "VECTOR", "n", "x1", "_", "_a9", "Person", "a_b",
    "MATCHx", "é", "ß", "漢", "😀", "né", "éa", "a漢b", "x😀", "Ωmega",
    // numbers
    "0", "1", "42", "007", "1.5", "1..2", "1.", ".5", "1.5.2", "1e5", "9223372036854775808", "1.é", "1.5é", "1_0",
    // operators, every multi-character one and its prefixes
    "(", ")", "[", "]", "{", "}", ":", ",", ".", "+", "*", "/", "%", "=", "<", ">", "-", "|", "<>", "<=", "<-", ">=",
    "->", "--", "||", "<--", "-->", "<->", "|||", "!", "&", "^", "~", "?", "@", "#", ";", "\\",
    // strings
    "'abc'", "\"abc\"", "''", "'", "\"", "'abc", "\"abc", "'a\\'b'", "'a\\", "\"a\\", "'é'", "'é", "'\\é", "'a\"b'",
    "\"a'b\"", "'😀\\",
    // backticks
    "`a`", "`a b`", "``", "`", "`a", "`a``b`", "`a``", "````", "`é`", "`é",
    // parameters
    "$", "$1", "$a", "$_a1", "$é", "$$", "$a$b",
    // NUL
    "\u{0}", "a\u{0}b",
];

fn lex_string(r: &mut Rng) -> String {
    let n = r.below(13);
    let mut s = String::new();
    for _ in 0..n {
        match r.below(10) {
            0 | 1 => s.push(*r.pick(WS)),
            2 => s.push_str(*r.pick(ODD)),
            _ => s.push_str(*r.pick(LEX_FRAGS)),
        }
        // fragments mostly touch each other (token boundaries without a separator)
        if r.chance(1, 3) {
            s.push(if r.chance(3, 4) { ' ' } else { *r.pick(WS) });
        }
    }
    s
}

fn emit_lex(out: &mut Vec<String>, s: &str) {
    out.push(format!("lex gql {}", hex_arg(s)));
    out.push(format!("lex gql.ok {}", hex_arg(s)));
}

/// every proper prefix that ends on a character boundary
fn emit_all_truncations(out: &mut Vec<String>, s: &str) {
    for (i, _) in s.char_indices() {
        out.push(format!("lex gql {}", hex_arg(&s[..i])));
    }
}

// ---- query grammars ---------------------------------------------------------------------------

const LABELS: &[&str] = &["Person", "City", "Employee", "Nope", "`rdf:type`"];
const PROPS: &[&str] = &["name", "age", "score", "pop", "lat", "missing"];
const RELS: &[&str] = &["KNOWS", "LIVES_IN", "NOPE"];
const INTS: &[&str] = &[
    "0", "1", "2", "-1", "30", "9223372036854775807", "-9223372036854775808", "9223372036854775808",
    "18446744073709551616", "99999999999999999999999999", "007", "4294967296",
];
const FLOATS: &[&str] = &["1.5", "0.0", "-0.0", "1e308", "1.7976931348623157e309", "0.1"];
const STRS: &[&str] = &["'Alice'", "'Bob'", "''", "'é'", "\"x\"", "'a\\'b'", "'%'"];

/// arithmetic on extreme literals (the expression evaluators' panic candidates)
const EXTREME: &[&str] = &[
    "9223372036854775807 + 1",
    "1 / 0",
    "5 % 0",
    "-9223372036854775808 / -1",
    "-9223372036854775808 % -1",
    "-9223372036854775807 - 2",
    "9223372036854775807 * 2",
    "- -9223372036854775808",
    "0 - -9223372036854775808",
    "1.0 / 0",
    "0.0 / 0.0",
    "1 % 0.0",
    "n.age / 0",
    "n.age % 0",
    "n.age + 9223372036854775807",
    "n.age * 9223372036854775807",
];

/// out-of-range list indexes / slices
const INDEXES: &[&str] = &[
    "[1, 2, 3][3]",
    "[1, 2, 3][-1]",
    "[1, 2, 3][-4]",
    "[1, 2, 3][9223372036854775807]",
    "[1, 2, 3][-9223372036854775808]",
    "[][0]",
    "[1, 2, 3][1..9]",
    "[1, 2, 3][5..2]",
    "[1, 2, 3][-9..]",
    "[1, 2, 3][null]",
    "[1, 2, 3]['a']",
    "[1, 2, 3][1.5]",
];

/// built-in functions and aggregates with out-of-range / degenerate arguments (index and
/// allocation panic candidates behind the expression and aggregate evaluators)
const CALLS: &[&str] = &[
    "percentile_disc(n.age, 2)",
    "percentile_cont(n.age, 1.5)",
    "percentile_disc(n.age, 99999999999)",
    "percentile_cont(n.age, 1e308)",
    "percentile_disc(n.age, 0)",
    "percentile_cont(n.score, 1)",
    "percentile_disc(n.missing, 0.5)",
    "percentile_cont(n.name, 0.5)",
    "stdev(n.age)",
    "stdev(n.name)",
    "avg(n.name)",
    "sum(n.name)",
    "min(n.missing)",
    "collect(n.age)[5]",
    "collect(n.age)[-1]",
    "substring(n.name, 9, 2)",
    "substring(n.name, -1)",
    "substring(n.name, 1, -1)",
    "left(n.name, 99)",
    "right(n.name, -1)",
    "head([])",
    "last([])",
    "tail([])",
    "size(null)",
    "range(1, 3, 0)",
    "range(3, 1)",
    "toInteger('x')",
    "toInteger(1e308)",
    "toFloat('1e999')",
    "abs(-9223372036854775808)",
    "round(1e308)",
    "sqrt(-1)",
    "log(0)",
    "toString(null)",
    "coalesce()",
    "reverse(null)",
    "split('a', '')",
    "replace('aaa', '', 'b')",
    "count(DISTINCT n.missing)",
];

/// variable-length patterns with degenerate bounds
const VARLEN: &[&str] = &[
    "MATCH (a)-[*4294967295..]->(b) RETURN a",
    "MATCH (a)-[*4294967294..]->(b) RETURN a",
    "MATCH (a)-[*0..0]->(b) RETURN b",
    "MATCH (a)-[*5..2]->(b) RETURN b",
    "MATCH (a)-[*..0]->(b) RETURN b",
    "MATCH (a)-[*99999999999]->(b) RETURN b",
    "MATCH (a)-[*0..]->(a) RETURN a",
    "MATCH p = (a)-[*1..3]->(b) RETURN length(p), p",
    "MATCH p = shortestPath((a)-[*]->(b)) RETURN length(p)",
    "MATCH p = shortestPath((a)-[*0..0]->(a)) RETURN p",
    "MATCH (a)-[:KNOWS*2..1]-(b) RETURN count(b)",
];

fn cy_atom(r: &mut Rng) -> String {
    match r.below(12) {
        0 | 1 => r.pick(INTS).to_string(),
        2 => r.pick(FLOATS).to_string(),
        3 => r.pick(STRS).to_string(),
        4 | 5 | 6 => format!("n.{}", r.pick(PROPS)),
        7 => (*r.pick(&["NULL", "TRUE", "FALSE", "null", "true"])).to_string(),
        8 => format!("[{}, {}]", r.pick(INTS), r.pick(STRS)),
        9 => (*r.pick(&["$p", "$missing", "n", "x"])).to_string(),
        10 => format!("{}({})", r.pick(&["count", "sum", "avg", "min", "max", "collect", "abs", "toString", "size", "type", "id", "labels", "nope"]), if r.chance(1, 2) { format!("n.{}", r.pick(PROPS)) } else { "n".to_string() }),
        _ => format!("CASE WHEN n.age > {} THEN {} ELSE {} END", r.pick(INTS), r.pick(STRS), r.pick(INTS)),
    }
}

fn cy_expr(r: &mut Rng, depth: u32) -> String {
    if depth == 0 || r.chance(1, 3) {
        return cy_atom(r);
    }
    match r.below(8) {
        0 => format!("({})", cy_expr(r, depth - 1)),
        1 => format!("-{}", cy_expr(r, depth - 1)),
        2 => format!("NOT {}", cy_expr(r, depth - 1)),
        _ => format!(
            "{} {} {}",
            cy_expr(r, depth - 1),
            r.pick(&["+", "-", "*", "/", "%", "=", "<>", "<", "<=", ">", ">=", "AND", "OR", "IN", "STARTS WITH", "CONTAINS", "||"]),
            cy_expr(r, depth - 1)
        ),
    }
}

fn cy_pred(r: &mut Rng) -> String {
    match r.below(6) {
        0 => format!("n.{} IS NULL", r.pick(PROPS)),
        1 => format!("n.{} IS NOT NULL", r.pick(PROPS)),
        2 => format!("n.{} IN [{}, {}]", r.pick(PROPS), r.pick(INTS), r.pick(STRS)),
        3 => format!("NOT (n.{} {} {})", r.pick(PROPS), r.pick(&["=", "<", ">"]), cy_atom(r)),
        _ => cy_expr(r, 2),
    }
}

/// valid (or nearly valid) GQL / Cypher
fn cypherish(r: &mut Rng, lang: &str) -> String {
    let l = *r.pick(LABELS);
    let t = *r.pick(RELS);
    match r.below(16) {
        0 => format!("MATCH (n:{}) RETURN {}", l, cy_expr(r, 2)),
        1 => format!("MATCH (n:{}) WHERE {} RETURN n.{}", l, cy_pred(r), r.pick(PROPS)),
        2 => format!("MATCH (a)-[e:{}]->(b) RETURN a.name, b.name, e", t),
        3 => format!("MATCH (a:{})-[:{}*{}]->(b) RETURN b", l, t, r.pick(&["", "2", "1..3", "0..", "..2", "9223372036854775807", "0..18446744073709551616"])),
        4 => format!("UNWIND [{}, {}, {}] AS x RETURN x", cy_atom(r), cy_atom(r), cy_atom(r)),
        5 => format!("MATCH (n) RETURN count(n), sum(n.age), avg(n.score), min(n.name), max(n.{}), collect(n.age)", r.pick(PROPS)),
        6 => format!("MATCH (n:{}) RETURN n.name AS a ORDER BY n.{} {} SKIP {} LIMIT {}", l, r.pick(PROPS), r.pick(&["", "ASC", "DESC"]), r.pick(INTS), r.pick(INTS)),
        7 => format!("{} (:{} {{name: {}, age: {}}})", if lang == "gql" { "INSERT" } else { "CREATE" }, l, r.pick(STRS), cy_expr(r, 1)),
        8 => format!("MATCH (n:{}) SET n.{} = {} RETURN n", l, r.pick(PROPS), cy_expr(r, 1)),
        9 => format!("MATCH (n:{}) DETACH DELETE n", l),
        10 => format!("MATCH (n:{}) WITH n.age AS a, n WHERE a > {} RETURN a, n.name", l, r.pick(INTS)),
        11 => format!("MATCH (a:{}) OPTIONAL MATCH (a)-[:{}]->(b) RETURN a, b", l, t),
        12 => format!("MERGE (n:{} {{name: {}}}) ON CREATE SET n.age = {} RETURN n", l, r.pick(STRS), r.pick(INTS)),
        13 => format!("MATCH (n) RETURN DISTINCT n.{}, {}", r.pick(PROPS), cy_expr(r, 1)),
        14 => format!("MATCH (a)<-[:{}]-(b), (a)-[:{}]-(c) WHERE a.age > b.age RETURN *", t, r.pick(RELS)),
        _ => {
            if lang == "cypher" {
                format!("RETURN {}", cy_expr(r, 2))
            } else {
                format!("MATCH (n:{}) WHERE EXISTS {{ MATCH (n)-[:{}]->(m) }} RETURN n", l, t)
            }
        }
    }
}

fn gremlin_q(r: &mut Rng) -> String {
    let mut s = String::from(*r.pick(&["g.V()", "g.V()", "g.E()", "g.V(0)", "g.V(0, 1, 99)", "g.V(9223372036854775808)", "g.addV('Person')"]));
    let n = r.below(5);
    for _ in 0..n {
        let step = match r.below(24) {
            0 => format!(".hasLabel('{}')", r.pick(&["Person", "City", "Nope"])),
            1 => format!(".has('{}', {})", r.pick(PROPS), r.pick(&["'Alice'", "30", "1.5", "true", "-1"])),
            2 => format!(".has('{}', {}({}))", r.pick(PROPS), r.pick(&["gt", "lt", "gte", "lte", "eq", "neq"]), r.pick(INTS)),
            3 => format!(".has('{}', P.{}({}))", r.pick(PROPS), r.pick(&["gt", "lt", "within", "between"]), r.pick(INTS)),
            4 => format!(".has('{}', within('a', 'b', {}))", r.pick(PROPS), r.pick(INTS)),
            5 => format!(".out('{}')", r.pick(RELS)),
            6 => format!(".{}()", r.pick(&["out", "in", "both", "outE", "inE", "bothE", "inV", "outV", "otherV"])),
            7 => format!(".values('{}')", r.pick(PROPS)),
            8 => format!(".{}()", r.pick(&["count", "sum", "min", "max", "fold", "unfold", "dedup", "path", "id", "label", "valueMap", "elementMap", "drop"])),
            9 => format!(".limit({})", r.pick(INTS)),
            10 => format!(".range({}, {})", r.pick(INTS), r.pick(INTS)),
            11 => format!(".skip({})", r.pick(INTS)),
            12 => format!(".order().by('{}'{})", r.pick(PROPS), r.pick(&["", ", asc", ", desc", ", shuffle"])),
            13 => format!(".property('{}', {})", r.pick(PROPS), r.pick(&["'x'", "1", "1.5", "9223372036854775808"])),
            14 => ".as('a').select('a')".to_string(),
            15 => format!(".hasId({})", r.pick(INTS)),
            16 => format!(".hasNot('{}')", r.pick(PROPS)),
            17 => ".groupCount().by('name')".to_string(),
            18 => format!(".constant({})", r.pick(&["1", "'c'", "1.5"])),
            19 => ".addE('KNOWS').from('a').to(g.V().has('name', 'Bob'))".to_string(),
            20 => format!(".where(out('{}'))", r.pick(RELS)),
            21 => ".not(out())".to_string(),
            22 => ".union(out(), in())".to_string(),
            _ => ".project('a', 'b').by('name').by(out().count())".to_string(),
        };
        s.push_str(&step);
    }
    s
}

fn graphql_q(r: &mut Rng) -> String {
    let ty = *r.pick(&["person", "Person", "city", "user", "nope"]);
    match r.below(14) {
        0 => format!("{{ {} {{ name }} }}", ty),
        1 => format!("query {{ {} {{ name age }} }}", ty),
        2 => format!("query Q {{ {}(filter: {{ age_gt: {} }}) {{ name }} }}", ty, r.pick(INTS)),
        3 => format!("{{ {}(name: {}) {{ name knows {{ name knows {{ name }} }} }} }}", ty, r.pick(&["\"Alice\"", "\"\"", "\"é\"", "\"a\\\"b\"", "\"\\u00e9\"", "\"\\uD800\""])),
        4 => format!("{{ {}(first: {}, skip: {}) {{ id }} }}", ty, r.pick(INTS), r.pick(INTS)),
        5 => format!("query ($a: Int = {}, $b: [String!]!) {{ {}(age: $a) {{ name }} }}", r.pick(INTS), ty),
        6 => format!("{{ a: {} {{ name }} b: {} {{ n: name }} }}", ty, ty),
        7 => format!("{{ {} @include(if: {}) {{ name @skip(if: {}) }} }}", ty, r.pick(&["true", "false", "$x", "1"]), r.pick(&["true", "false"])),
        8 => format!("query {{ {} {{ ...F }} }} fragment F on Person {{ name age }}", ty),
        9 => format!("{{ {} {{ ... on Person {{ name }} ...G }} }}", ty),
        10 => format!("mutation {{ createPerson(name: \"Zed\", age: {}) {{ id name }} }}", r.pick(INTS)),
        11 => format!("mutation {{ deletePerson(id: {}) }}", r.pick(INTS)),
        12 => format!("{{ {}(where: {{ age: [{}, [{}]], o: {{ a: {{ b: null }} }}, e: ENUM, f: {} }}) {{ name }} }}", ty, r.pick(INTS), r.pick(INTS), r.pick(FLOATS)),
        _ => format!("query {{ {} {{ name }} }} query {{ {} {{ age }} }} # comment", ty, ty),
    }
}

fn sparql_q(r: &mut Rng) -> String {
    let filt = match r.below(8) {
        0 => format!("FILTER(?o > {})", r.pick(INTS)),
        1 => format!("FILTER(?o + {} = {} / {})", r.pick(INTS), r.pick(INTS), r.pick(INTS)),
        2 => "FILTER(REGEX(STR(?o), \"^B\", \"i\"))".to_string(),
        3 => "FILTER(!BOUND(?x) || isIRI(?s) && LANG(?o) = \"\")".to_string(),
        4 => "FILTER NOT EXISTS { ?s <http://ex/name> ?n }".to_string(),
        5 => format!("FILTER(?o IN ({}, \"Bob\", <http://ex/bob>))", r.pick(INTS)),
        6 => format!("BIND({} * ?o AS ?d)", r.pick(INTS)),
        _ => String::new(),
    };
    match r.below(16) {
        0 => format!("SELECT ?s ?p ?o WHERE {{ ?s ?p ?o {} }}", filt),
        1 => format!("SELECT * WHERE {{ ?s <http://ex/knows> ?o . ?o <http://ex/name> ?n {} }} LIMIT {} OFFSET {}", filt, r.pick(INTS), r.pick(INTS)),
        2 => "ASK { ?s ?p ?o }".to_string(),
        3 => "CONSTRUCT { ?o ?p ?s } WHERE { ?s ?p ?o }".to_string(),
        4 => "DESCRIBE <http://ex/alice>".to_string(),
        5 => format!("SELECT ?s WHERE {{ ?s ?p ?o OPTIONAL {{ ?o ?q ?z {} }} }}", filt),
        6 => "SELECT ?s WHERE { { ?s <http://ex/knows> ?o } UNION { ?s <http://ex/age> ?o } }".to_string(),
        7 => "SELECT (COUNT(?s) AS ?c) (SUM(?o) AS ?t) (AVG(?o) AS ?a) WHERE { ?s ?p ?o } GROUP BY ?p HAVING (COUNT(?s) > 0)".to_string(),
        8 => format!("SELECT DISTINCT ?s WHERE {{ ?s ?p ?o }} ORDER BY {}(?s) ?o", r.pick(&["ASC", "DESC"])),
        9 => format!("SELECT ?s WHERE {{ ?s <http://ex/knows>{} ?o }}", r.pick(&["+", "*", "?", "/<http://ex/name>", "|<http://ex/age>", "{2}", ""])),
        10 => "PREFIX ex: <http://ex/> SELECT ?o WHERE { ex:alice ex:knows ?o ; ex:age ?a , 30 }".to_string(),
        11 => format!("INSERT DATA {{ <http://ex/c> <http://ex/age> {} . <http://ex/c> <http://ex/name> \"é\"@fr , \"1\"^^<http://www.w3.org/2001/XMLSchema#integer> }}", r.pick(INTS)),
        12 => "DELETE DATA { <http://ex/alice> <http://ex/age> 30 }".to_string(),
        13 => "DELETE { ?s ?p ?o } INSERT { ?o ?p ?s } WHERE { ?s ?p ?o }".to_string(),
        14 => "SELECT ?s WHERE { VALUES ?s { <http://ex/alice> <http://ex/zed> } { SELECT ?s WHERE { ?s ?p ?o } LIMIT 1 } MINUS { ?s <http://ex/none> ?q } }".to_string(),
        _ => format!("SELECT ({} AS ?x) WHERE {{ }}", r.pick(&["1/0", "9223372036854775807 + 1", "-9223372036854775808 / -1", "1.0e0 / 0", "\"a\" + 1", "-(-9223372036854775808)"])),
    }
}

fn valid_query(r: &mut Rng, lang: &str) -> String {
    match lang {
        "gql" | "cypher" => cypherish(r, lang),
        "gremlin" => gremlin_q(r),
        "graphql" => graphql_q(r),
        _ => sparql_q(r),
    }
}

/// extreme-literal arithmetic in the place where each language evaluates expressions
fn extreme_query(r: &mut Rng, lang: &str, i: usize) -> String {
    let e = EXTREME[i % EXTREME.len()];
    match lang {
        "gql" | "cypher" => match r.below(4) {
            0 => format!("MATCH (n:Person) RETURN {}", e),
            1 => format!("MATCH (n:Person) WHERE {} > 0 RETURN n.name", e),
            2 => format!("MATCH (n:Person) WHERE n.age = {} RETURN n", e),
            _ => {
                if lang == "cypher" {
                    format!("RETURN {}", e)
                } else {
                    format!("UNWIND [{}] AS x RETURN x", e)
                }
            }
        },
        "gremlin" => {
            let big = *r.pick(&["9223372036854775807", "9223372036854775808", "-9223372036854775808", "-9223372036854775809", "18446744073709551616"]);
            match r.below(4) {
                0 => format!("g.V().has('age', gt({}))", big),
                1 => format!("g.V().limit({})", big),
                2 => format!("g.V().range({}, {})", big, big),
                _ => format!("g.V().values('age').sum().is({})", big),
            }
        }
        "graphql" => {
            let big = *r.pick(&["9223372036854775807", "9223372036854775808", "-9223372036854775808", "-9223372036854775809", "1e400", "-0"]);
            match r.below(3) {
                0 => format!("{{ person(filter: {{ age_gt: {} }}) {{ name }} }}", big),
                1 => format!("{{ person(first: {}, skip: {}) {{ name }} }}", big, big),
                _ => format!("{{ person(age: {}) {{ name }} }}", big),
            }
        }
        _ => {
            let e = e.replace("n.age", "?o").replace('%', "/");
            match r.below(3) {
                0 => format!("SELECT ?s WHERE {{ ?s <http://ex/age> ?o FILTER({} > 0) }}", e),
                1 => format!("SELECT ({} AS ?x) WHERE {{ ?s <http://ex/age> ?o }}", e),
                _ => format!("SELECT ?s WHERE {{ ?s <http://ex/age> ?o BIND({} AS ?x) }} LIMIT 9223372036854775808", e),
            }
        }
    }
}

fn index_query(r: &mut Rng, lang: &str, i: usize) -> String {
    let e = INDEXES[i % INDEXES.len()];
    match lang {
        "gql" | "cypher" => match r.below(3) {
            0 => format!("MATCH (n:Person) RETURN {}", e),
            1 => format!("MATCH (n:Person) WHERE {} = 1 RETURN n.name", e),
            _ => {
                if lang == "cypher" {
                    format!("RETURN {}", e)
                } else {
                    format!("UNWIND {} AS x RETURN x", e)
                }
            }
        },
        "gremlin" => format!("g.V().fold().range({}, {})", r.pick(&["-1", "5", "9223372036854775807"]), r.pick(&["-1", "2", "0"])),
        "graphql" => format!("{{ person(first: {}, skip: {}) {{ name }} }}", r.pick(&["-1", "0", "99"]), r.pick(&["-1", "99", "9223372036854775807"])),
        _ => format!("SELECT (SUBSTR(\"abc\", {}, {}) AS ?x) WHERE {{ }} LIMIT {} OFFSET {}", r.pick(&["0", "-1", "99", "9223372036854775807"]), r.pick(&["-1", "0", "99"]), r.pick(&["0", "-1"]), r.pick(&["99", "-1"])),
    }
}

/// the nesting shapes of each language: (name, opening, core, closing); query = open^d core close^d
/// wrapped by `wrap`
pub fn nest_kinds(lang: &str) -> Vec<(&'static str, &'static str, &'static str, &'static str, &'static str, &'static str)> {
    // (name, prefix, open, core, close, suffix)
    match lang {
        "gql" | "cypher" => vec![
            ("paren", "MATCH (n) RETURN ", "(", "1", ")", ""),
            ("paren-where", "MATCH (n) WHERE ", "(", "n.age > 1", ")", " RETURN n"),
            ("list", "MATCH (n) RETURN ", "[", "", "]", ""),
            ("not-paren", "MATCH (n) WHERE ", "NOT (", "n.age > 1", ")", " RETURN n"),
            ("not", "MATCH (n) WHERE ", "NOT ", "n.age > 1", "", " RETURN n"),
            ("neg", "MATCH (n) RETURN ", "- ", "1", "", ""),
            ("call", "MATCH (n) RETURN ", "abs(", "1", ")", ""),
            ("map", if lang == "gql" { "INSERT (:X {a: " } else { "CREATE (:X {a: " }, "{a: ", "1", "}", "})"),
            ("case", "MATCH (n) RETURN ", "CASE WHEN TRUE THEN ", "1", " ELSE 0 END", ""),
            ("plus-chain", "MATCH (n) RETURN 1", " + 1", "", "", ""),
            ("and-chain", "MATCH (n) WHERE n.age > 1", " AND n.age > 1", "", "", " RETURN n"),
            ("path-chain", "MATCH (a)", "-->()", "", "", " RETURN a"),
        ],
        "gremlin" => vec![
            ("paren", "g.V().has('age', ", "(", "1", ")", ")"),
            ("from", "g.V().addE('K')", ".from(g.V().addE('K')", "", ".to('a'))", ".to('a')"),
            ("where", "g.V()", ".where(out()", "", ")", ""),
            ("not", "g.V()", ".not(__", "", ")", ""),
            ("within", "g.V().has('age', ", "within(", "1", ")", ")"),
            ("list", "g.V().has('age', within(", "[", "1", "]", "))"),
            ("step-chain", "g.V()", ".out()", "", "", ""),
            ("union", "g.V()", ".union(g.V()", "", ")", ""),
        ],
        "graphql" => vec![
            ("selection", "{ person ", "{ knows ", "{ name }", " }", " }"),
            ("list", "{ person(a: ", "[", "1", "]", ") { name } }"),
            ("object", "{ person(a: ", "{a: ", "1", "}", ") { name } }"),
            ("type", "query ($a: ", "[", "Int", "]", ") { person { name } }"),
            ("inline-fragment", "{ person ", "{ ... on Person ", "{ name }", " }", " }"),
            ("brace-only", "", "{", "", "}", ""),
            ("field-chain", "{ person { name", " name", "", "", " } }"),
        ],
        _ => vec![
            ("group", "SELECT * WHERE ", "{ ", "?s ?p ?o", " }", ""),
            ("paren-filter", "SELECT * WHERE { ?s ?p ?o FILTER", "(", "1", ")", " }"),
            ("not-filter", "SELECT * WHERE { ?s ?p ?o FILTER(", "!(", "true", ")", ") }"),
            ("optional", "SELECT * WHERE { ?s ?p ?o ", "OPTIONAL { ?s ?p ?o ", "", "}", " }"),
            ("subquery", "SELECT * WHERE ", "{ SELECT * WHERE ", "{ ?s ?p ?o }", " }", ""),
            ("path-paren", "SELECT * WHERE { ?s ", "(", "<http://ex/knows>", ")", " ?o }"),
            ("collection", "SELECT * WHERE { ?s ?p ", "(", "1", ")", " }"),
            ("bnode", "SELECT * WHERE { ?s ?p ", "[ <http://ex/p> ", "1", " ]", " }"),
            ("call", "SELECT (", "STR(", "1", ")", " AS ?x) WHERE { }"),
            ("neg", "SELECT (", "- ", "1", "", " AS ?x) WHERE { }"),
            ("plus-chain", "SELECT (1", " + 1", "", "", " AS ?x) WHERE { }"),
            ("union-chain", "SELECT * WHERE { { ?s ?p ?o }", " UNION { ?s ?p ?o }", "", "", " }"),
        ],
    }
}

pub const DEPTHS: [usize; 5] = [1, 10, 100, 1000, 5000];

fn nested(kind: &(&str, &str, &str, &str, &str, &str), d: usize) -> String {
    let (_, pre, open, core, close, suf) = *kind;
    let mut s = String::with_capacity(pre.len() + d * (open.len() + close.len()) + core.len() + suf.len());
    s.push_str(pre);
    for _ in 0..d {
        s.push_str(open);
    }
    s.push_str(core);
    for _ in 0..d {
        s.push_str(close);
    }
    s.push_str(suf);
    s
}

/// pieces: maximal runs of [A-Za-z0-9_], single other characters (whitespace kept as pieces)
fn pieces(q: &str) -> Vec<String> {
    let mut v: Vec<String> = Vec::new();
    let mut cur = String::new();
    for c in q.chars() {
        if c.is_ascii_alphanumeric() || c == '_' {
            cur.push(c);
        } else {
            if !cur.is_empty() {
                v.push(std::mem::take(&mut cur));
            }
            v.push(c.to_string());
        }
    }
    if !cur.is_empty() {
        v.push(cur);
    }
    v
}

fn mutate(r: &mut Rng, q: &str) -> String {
    let mut p = pieces(q);
    let solid: Vec<usize> = (0..p.len()).filter(|&i| !p[i].trim().is_empty()).collect();
    if solid.is_empty() {
        return (*r.pick(ODD)).to_string();
    }
    match r.below(6) {
        0 => {
            // drop a token
            let i = *r.pick(&solid);
            p.remove(i);
        }
        1 => {
            // duplicate a token
            let i = *r.pick(&solid);
            let t = p[i].clone();
            p.insert(i, t);
        }
        2 => {
            // swap two tokens
            let i = *r.pick(&solid);
            let j = *r.pick(&solid);
            p.swap(i, j);
        }
        3 => {
            // truncate at a random byte that is a character boundary
            let s = p.concat();
            let cuts: Vec<usize> = s.char_indices().map(|(i, _)| i).collect();
            let c = *r.pick(&cuts);
            return s[..c].to_string();
        }
        4 => {
            // inject a non-ASCII / control character at a token boundary
            let i = r.below(p.len() as u64 + 1) as usize;
            p.insert(i, (*r.pick(ODD)).to_string());
        }
        _ => {
            // replace a token by an odd one (non-ASCII inside the token stream)
            let i = *r.pick(&solid);
            p[i] = match r.below(4) {
                0 => (*r.pick(ODD)).to_string(),
                1 => format!("{}{}", p[i], r.pick(ODD)),
                2 => (*r.pick(LEX_FRAGS)).to_string(),
                _ => r.pick(WS).to_string(),
            };
        }
    }
    p.concat()
}

fn emit_run(out: &mut Vec<String>, lang: &str, db: &str, q: &str) {
    out.push(format!("lex run {} {} {}", lang, db, hex_arg(q)));
}

pub fn generate(seed: u64, cases: usize, out: &mut Vec<String>) {
    let mut r = Rng::new(seed ^ 0x6c6578);
    let dbs = ["empty", "small"];

    // ---- fixed prelude: lexer (each string followed by all of its truncations) ----
    out.push(format!("# case fixed-lex seed {}", seed));
    let fixed_lex = [
        "",
        "MATCH (é)",
        "MATCH (n:Pérson)\u{A0}RETURN\u{2003}n.é",
        "RETURN 1..2, 1.5, 1., .5 <> <= <- >= -> -- || | <",
        "x = 'é\\",
        "`a``b` `漢` `unterminated",
        "$ $1 $a $é 😀\u{0}a\u{85}b\u{3000}",
        "'a\\'b' \"q\\\"q\" 'open",
    ];
    for s in fixed_lex.iter() {
        emit_lex(out, s);
        emit_all_truncations(out, s);
    }
    // every multi-character operator and every prefix of one at the very end of the input
    for op in ["<>", "<=", "<-", ">=", "->", "--", "||", "<", ">", "-", "|", "1.", "1.5", "1..", "$", "'", "\"", "`", "'\\", "``", "a"] {
        emit_lex(out, &format!("a {}", op));
        emit_lex(out, op);
    }
    for w in WS.iter() {
        emit_lex(out, &format!("a{}b{}", w, w));
    }

    // ---- fixed prelude: front ends ----
    out.push(format!("# case fixed-run seed {}", seed));
    for lang in LANGS.iter() {
        for db in dbs.iter() {
            emit_run(out, lang, db, "");
        }
        let basic = match *lang {
            "gql" | "cypher" => "MATCH (n:Person) WHERE n.age > 26 RETURN n.name",
            "gremlin" => "g.V().hasLabel('Person').has('age', gt(26)).values('name')",
            "graphql" => "{ person(filter: { age_gt: 26 }) { name } }",
            _ => "SELECT ?s ?o WHERE { ?s <http://ex/knows> ?o }",
        };
        emit_run(out, lang, "small", basic);
        emit_run(out, lang, "empty", basic);
    }
    for lang in ["gql", "cypher"] {
        for e in ["9223372036854775807 + 1", "1 / 0", "5 % 0", "-9223372036854775808 / -1"] {
            emit_run(out, lang, "small", &format!("MATCH (n:Person) RETURN {}", e));
            emit_run(out, lang, "small", &format!("MATCH (n:Person) WHERE {} > 0 RETURN n.name", e));
        }
    }

    // every call of the table once, on the database with data (aggregates need rows)
    for lang in ["gql", "cypher"] {
        for e in CALLS.iter() {
            emit_run(out, lang, "small", &format!("MATCH (n:Person) RETURN {}", e));
        }
    }

    for lang in ["gql", "cypher"] {
        for q in VARLEN.iter() {
            emit_run(out, lang, "small", q);
        }
    }

    // wide plans: many cross-joined patterns (the join-order search keeps relation subsets in a
    // u64), long operator chains and long clause lists; the label matches nothing, so the cross
    // product is empty and the line is about planning, not about running time
    for lang in ["gql", "cypher"] {
        for n in [12usize, 17, 30, 40, 63, 64, 65, 70, 130] {
            let q = (0..n).map(|i| format!("MATCH (a{}:NoSuchLabel)", i)).collect::<Vec<_>>().join(" ") + " RETURN count(*)";
            emit_run(out, lang, "small", &q);
        }
        let chain = vec!["n.age > 1"; 300].join(" AND ");
        emit_run(out, lang, "small", &format!("MATCH (n:Person) WHERE {} RETURN n.name", chain));
        let sum = vec!["1"; 400].join(" + ");
        emit_run(out, lang, "small", &format!("MATCH (n:Person) RETURN {}", sum));
    }

    // ---- generated cases ----
    for c in 0..cases {
        out.push(format!("# case {} seed {}", c, seed));
        // lexer: one string, the verdict line, four truncations (all of them every 8th case)
        let s = lex_string(&mut r);
        emit_lex(out, &s);
        if c % 8 == 0 {
            emit_all_truncations(out, &s);
        } else {
            let cuts: Vec<usize> = s.char_indices().map(|(i, _)| i).collect();
            for _ in 0..4 {
                let cut = if cuts.is_empty() { 0 } else { *r.pick(&cuts) };
                out.push(format!("lex gql {}", hex_arg(&s[..cut])));
            }
        }

        // front ends: 8 lines for one language
        let lang = LANGS[c % LANGS.len()];
        let round = c / LANGS.len();
        let q = valid_query(&mut r, lang);
        emit_run(out, lang, dbs[r.below(2) as usize], &q);
        for _ in 0..3 {
            let base = if r.chance(1, 2) { q.clone() } else { valid_query(&mut r, lang) };
            let mut m = mutate(&mut r, &base);
            if r.chance(1, 4) {
                m = mutate(&mut r, &m);
            }
            emit_run(out, lang, dbs[r.below(2) as usize], &m);
        }
        let xq = extreme_query(&mut r, lang, round);
        emit_run(out, lang, "small", &xq);
        let iq = index_query(&mut r, lang, round);
        emit_run(out, lang, dbs[r.below(2) as usize], &iq);
        let kinds = nest_kinds(lang);
        for j in 0..2 {
            let k = round * 2 + j;
            let kind = &kinds[k % kinds.len()];
            let d = DEPTHS[(k / kinds.len()) % DEPTHS.len()];
            emit_run(out, lang, dbs[(k / (kinds.len() * DEPTHS.len())) % 2], &nested(kind, d));
        }
    }
}
