//! Stream `hnsw` — `HnswIndex` search and `brute_force_knn` (C18).
//!
//! Stateless lines.  Every line that needs an index carries a *recipe* from which the real index is
//! rebuilt (`HnswIndex::with_seed` + the insert / re-insert / remove sequence):
//!
//!   recipe  = s<seed>;d<dim>;<metric>;m<m>;c<ef_construction>;<op>|<op>|…      (`_` = no ops)
//!   op      = i<id>:<f32 hex>.<f32 hex>…   insert (or re-insert) a vector
//!           | r<id>                        remove
//!   vector  = <f32 hex>.<f32 hex>…         (8 hex digits per coordinate, the bit pattern)
//!   graph   = <entry|N>;<max level>;<id>=<level 0 list>/<level 1 list>/…;…      (`_` = empty list)
//!             — `HnswIndex::verif_dump()` (hook under `--cfg grafeodb_grafeo_verif`)
//!   dists   = <id>:<f32 hex>,…             distance of every dumped node to the query, exactly as
//!             the index computes it (`vector_distance`: cosine = 1 − dot of the normalised vectors)
//!
//!   hnsw search      <recipe> <query> <k> <ef> <graph> <dists>   → `id:dist,…` of `search_with_ef` (`-` = empty)
//!   hnsw search.ties <same>     some distances are equal: a binary heap's choice among equals is not
//!                               modelled, so only the verdict on the real result is printed (`sound`, or the
//!                               first failing clause: more-than-k, duplicate-id, id-not-in-index,
//!                               wrong-distance, not-sorted)
//!   hnsw search.nan  <same>     some distance is NaN (overflowing coordinates): verdict only
//!   hnsw removed     <recipe> <query> <k> <ef> <id>              → `absent` / `returned-removed`
//!   hnsw live        <recipe>                                    → `<len>:<sorted ids>` (len(), verif_dump, contains, get)
//!   hnsw batch       <recipe> <k> <query>|<query>|…              → `equal` when batch_search = the single searches
//!                                                                  (also batch_search_with_ef / search_with_ef at ef = k)
//!   hnsw bf          <metric> <k> <query> <id>:<vector>;…  <dists> → `id:dist,…` of `brute_force_knn`
//!   hnsw bf.nan      <same>     some distance is NaN (≤ 20 vectors, where `sort_by` is an insertion sort)
//!
//! The only nondeterministic step of the real index is `remove(entry point)`, which takes
//! `nodes.keys().next()` of a std `HashMap` (random per map) as the new entry point.  A `search*` line
//! therefore rebuilds until the dump equals the carried dump (the generator allows one such removal per
//! case, so a handful of attempts suffice); `rebuild-mismatch` is printed if that never happens.
#![allow(unused)]
use crate::util::*;
use grafeo_common::types::NodeId;
use grafeo_core::index::vector::{DistanceMetric, HnswConfig, HnswIndex, brute_force_knn, compute_distance, dot_product, normalize};
use std::cell::RefCell;
use std::collections::{BTreeMap, BTreeSet};

// ------------------------------------------------------------------------------------ text forms

fn metric_name(m: DistanceMetric) -> &'static str {
    match m {
        DistanceMetric::Cosine => "cosine",
        DistanceMetric::Euclidean => "euclidean",
        DistanceMetric::DotProduct => "dot",
        DistanceMetric::Manhattan => "manhattan",
    }
}

fn parse_metric(s: &str) -> Option<DistanceMetric> {
    Some(match s {
        "cosine" => DistanceMetric::Cosine,
        "euclidean" => DistanceMetric::Euclidean,
        "dot" => DistanceMetric::DotProduct,
        "manhattan" => DistanceMetric::Manhattan,
        _ => return None,
    })
}

fn show_vec(v: &[f32]) -> String {
    v.iter().map(|x| format!("{:08x}", x.to_bits())).collect::<Vec<_>>().join(".")
}

fn parse_vec(s: &str) -> Option<Vec<f32>> {
    s.split('.').map(|t| u32::from_str_radix(t, 16).ok().map(f32::from_bits)).collect()
}

#[derive(Clone)]
enum Op {
    Ins(u64, Vec<f32>),
    Rem(u64),
}

#[derive(Clone)]
struct Recipe {
    seed: u64,
    dim: usize,
    metric: DistanceMetric,
    m: usize,
    efc: usize,
    ops: Vec<Op>,
}

fn show_recipe(r: &Recipe, upto: usize) -> String {
    let ops: Vec<String> = r.ops[..upto]
        .iter()
        .map(|o| match o {
            Op::Ins(id, v) => format!("i{}:{}", id, show_vec(v)),
            Op::Rem(id) => format!("r{}", id),
        })
        .collect();
    format!(
        "s{};d{};{};m{};c{};{}",
        r.seed,
        r.dim,
        metric_name(r.metric),
        r.m,
        r.efc,
        if ops.is_empty() { "_".to_string() } else { ops.join("|") }
    )
}

fn parse_recipe(s: &str) -> Option<Recipe> {
    let p: Vec<&str> = s.split(';').collect();
    if p.len() != 6 {
        return None;
    }
    let seed = p[0].strip_prefix('s')?.parse().ok()?;
    let dim = p[1].strip_prefix('d')?.parse().ok()?;
    let metric = parse_metric(p[2])?;
    let m = p[3].strip_prefix('m')?.parse().ok()?;
    let efc = p[4].strip_prefix('c')?.parse().ok()?;
    let mut ops = Vec::new();
    if p[5] != "_" {
        for t in p[5].split('|') {
            if let Some(rest) = t.strip_prefix('i') {
                let (id, v) = rest.split_once(':')?;
                ops.push(Op::Ins(id.parse().ok()?, parse_vec(v)?));
            } else if let Some(rest) = t.strip_prefix('r') {
                ops.push(Op::Rem(rest.parse().ok()?));
            } else {
                return None;
            }
        }
    }
    Some(Recipe { seed, dim, metric, m, efc, ops })
}

fn new_index(r: &Recipe) -> HnswIndex {
    let cfg = HnswConfig::new(r.dim, r.metric).with_m(r.m).with_ef_construction(r.efc);
    HnswIndex::with_seed(cfg, r.seed)
}

fn apply(ix: &HnswIndex, op: &Op) {
    match op {
        Op::Ins(id, v) => ix.insert(NodeId::new(*id), v),
        Op::Rem(id) => {
            ix.remove(NodeId::new(*id));
        }
    }
}

fn build(r: &Recipe) -> HnswIndex {
    let ix = new_index(r);
    for op in &r.ops {
        apply(&ix, op);
    }
    ix
}

fn show_graph(ix: &HnswIndex) -> String {
    let (entry, max_level, nodes) = ix.verif_dump();
    let mut parts = vec![entry.map_or("N".to_string(), |e| e.0.to_string()), max_level.to_string()];
    for (id, levels) in &nodes {
        let ls: Vec<String> = levels
            .iter()
            .map(|l| if l.is_empty() { "_".to_string() } else { l.iter().map(|n| n.0.to_string()).collect::<Vec<_>>().join(",") })
            .collect();
        parts.push(format!("{}={}", id.0, ls.join("/")));
    }
    parts.join(";")
}

/// the query as the index uses it, and the distance exactly as `HnswIndex::vector_distance` computes it
fn prep_query(metric: DistanceMetric, q: &[f32]) -> Vec<f32> {
    let mut q = q.to_vec();
    if metric == DistanceMetric::Cosine {
        normalize(&mut q);
    }
    q
}

fn index_distance(metric: DistanceMetric, q: &[f32], stored: &[f32]) -> f32 {
    if metric == DistanceMetric::Cosine { 1.0 - dot_product(q, stored) } else { compute_distance(q, stored, metric) }
}

fn node_dists(ix: &HnswIndex, metric: DistanceMetric, query: &[f32]) -> Vec<(u64, u32)> {
    let q = prep_query(metric, query);
    let (_, _, nodes) = ix.verif_dump();
    nodes.iter().map(|(id, _)| (id.0, index_distance(metric, &q, &ix.get(*id).unwrap()).to_bits())).collect()
}

fn show_dists(ds: &[(u64, u32)]) -> String {
    if ds.is_empty() {
        return "-".into();
    }
    ds.iter().map(|(i, b)| format!("{}:{:08x}", i, b)).collect::<Vec<_>>().join(",")
}

fn show_result(r: &[(NodeId, f32)]) -> String {
    show_dists(&r.iter().map(|(i, d)| (i.0, d.to_bits())).collect::<Vec<_>>())
}

fn is_nan(bits: u32) -> bool {
    f32::from_bits(bits).is_nan()
}

/// order key of a non-NaN f32: naturals ordered like the floats, −0 = +0 (NaN: above everything)
fn ord_key(bits: u32) -> u64 {
    if is_nan(bits) {
        u64::MAX
    } else if bits < 0x8000_0000 {
        0x8000_0000u64 + bits as u64
    } else {
        0x8000_0000u64 - (bits as u64 - 0x8000_0000u64)
    }
}

/// the specification of a search result, evaluated on the implementation's answer
fn verdict(ds: &[(u64, u32)], k: usize, res: &[(NodeId, f32)]) -> String {
    let table: BTreeMap<u64, u32> = ds.iter().copied().collect();
    if res.len() > k {
        return "more-than-k".into();
    }
    let ids: BTreeSet<u64> = res.iter().map(|(i, _)| i.0).collect();
    if ids.len() != res.len() {
        return "duplicate-id".into();
    }
    if res.iter().any(|(i, _)| !table.contains_key(&i.0)) {
        return "id-not-in-index".into();
    }
    if res.iter().any(|(i, d)| table[&i.0] != d.to_bits()) {
        return "wrong-distance".into();
    }
    if res.windows(2).any(|w| ord_key(w[0].1.to_bits()) > ord_key(w[1].1.to_bits())) {
        return "not-sorted".into();
    }
    "sound".into()
}

// ------------------------------------------------------------------------------------ generator

fn coord(r: &mut Rng, style: u64) -> f32 {
    match style {
        0 => r.below(7) as f32 - 3.0,                      // small integers: duplicates, zero vectors, ties
        1 => (r.below(65) as f32 - 32.0) / 4.0,            // quarters
        2 => (r.below(200_001) as f32 - 100_000.0) / 977.0, // "random"
        3 => (r.below(7) as f32 - 3.0) * 1.0e19,           // squares overflow f32
        _ => {
            // small integers, now and then a NaN coordinate (a broken embedding)
            if r.chance(1, 12) { f32::NAN } else { r.below(7) as f32 - 3.0 }
        }
    }
}

fn gen_vec(r: &mut Rng, dim: usize, style: u64) -> Vec<f32> {
    (0..dim).map(|_| coord(r, style)).collect()
}

struct Recall {
    lines: u64,
    wanted: u64,
    found: u64,
    /// index states searched with k > n and ef > n / those that returned fewer than n nodes / of these, built without any remove
    full: u64,
    full_short: u64,
    full_short_no_remove: u64,
}

fn emit_searches(out: &mut Vec<String>, r: &mut Rng, rec: &Recipe, upto: usize, ix: &HnswIndex, style: u64, recall: &mut Recall, counts: &mut BTreeMap<&'static str, u64>) {
    let rs = show_recipe(rec, upto);
    let graph = show_graph(ix);
    let (_, _, nodes) = ix.verif_dump();
    let n = nodes.len();
    let nq = r.range(2, 4);
    let mut queries: Vec<Vec<f32>> = Vec::new();
    for _ in 0..nq {
        let q = match r.below(6) {
            0 if n > 0 => {
                // exactly a stored vector (for cosine: the vector that was offered, not the normalised one)
                let ins: Vec<&Vec<f32>> = rec.ops[..upto].iter().filter_map(|o| if let Op::Ins(_, v) = o { Some(v) } else { None }).collect();
                (*r.pick(&ins)).clone()
            }
            1 => vec![0.0; rec.dim],
            _ => {
                let st = if r.chance(1, 4) { 2 } else { style };
                gen_vec(r, rec.dim, st)
            }
        };
        queries.push(q);
    }
    for q in &queries {
        let ds = node_dists(ix, rec.metric, q);
        let any_nan = ds.iter().any(|(_, b)| is_nan(*b));
        let keys: BTreeSet<u64> = ds.iter().map(|(_, b)| ord_key(*b)).collect();
        let kind = if any_nan {
            "search.nan"
        } else if keys.len() != ds.len() {
            "search.ties"
        } else {
            "search"
        };
        let combos = r.range(2, 4);
        for _ in 0..combos {
            let k = *r.pick(&[0usize, 1, 1, 2, 2, 5, n + 3, n.max(1), n.saturating_sub(1)]);
            let ef = *r.pick(&[0usize, 1, k, k, n + 5, 2, 3]);
            out.push(format!("hnsw {} {} {} {} {} {} {}", kind, rs, show_vec(q), k, ef, graph, show_dists(&ds)));
            *counts.entry(kind).or_insert(0) += 1;
        }
        // recall information (not an op): exact k-NN by sorting the same distances vs a wide beam
        if !any_nan && n > 0 {
            let k = 5.min(n);
            let got = ix.search_with_ef(q, k, 10 * n);
            let mut sorted: Vec<(u64, u32)> = ds.clone();
            sorted.sort_by_key(|(_, b)| ord_key(*b));
            let kth = ord_key(sorted[k - 1].1);
            recall.lines += 1;
            recall.wanted += k as u64;
            recall.found += got.iter().filter(|(_, d)| ord_key(d.to_bits()) <= kth).count() as u64;
        }
    }
    // information (not an op): does an exhaustive search (k > n, ef > n) still find every live node?
    if n > 0 {
        recall.full += 1;
        if ix.search_with_ef(&queries[0], n + 3, n + 5).len() < n {
            recall.full_short += 1;
            if !rec.ops[..upto].iter().any(|o| matches!(o, Op::Rem(_))) {
                recall.full_short_no_remove += 1;
            }
        }
    }
    out.push(format!("hnsw live {}", rs));
    if r.chance(1, 2) {
        let k = *r.pick(&[0usize, 1, 3, n + 2]);
        out.push(format!("hnsw batch {} {} {}", rs, k, queries.iter().map(|q| show_vec(q)).collect::<Vec<_>>().join("|")));
    }
    // ids removed and not put back: a search must never return them
    let mut gone: BTreeSet<u64> = BTreeSet::new();
    for o in &rec.ops[..upto] {
        match o {
            Op::Ins(id, _) => {
                gone.remove(id);
            }
            Op::Rem(id) => {
                gone.insert(*id);
            }
        }
    }
    for id in gone.iter().take(2) {
        let q = r.pick(&queries).clone();
        out.push(format!("hnsw removed {} {} {} {} {}", rs, show_vec(&q), n + 3, n + 5, id));
    }
    // brute force over the vectors that were offered (the un-normalised ones), same query
    if r.chance(2, 3) {
        let mut live: BTreeMap<u64, Vec<f32>> = BTreeMap::new();
        for o in &rec.ops[..upto] {
            match o {
                Op::Ins(id, v) => {
                    live.insert(*id, v.clone());
                }
                Op::Rem(id) => {
                    live.remove(id);
                }
            }
        }
        let q = r.pick(&queries).clone();
        let ds: Vec<(u64, u32)> = live.iter().map(|(id, v)| (*id, compute_distance(&q, v, rec.metric).to_bits())).collect();
        let any_nan = ds.iter().any(|(_, b)| is_nan(*b));
        if !any_nan || live.len() <= 20 {
            let k = *r.pick(&[0usize, 1, 2, 5, live.len(), live.len() + 2]);
            let vs = if live.is_empty() { "-".to_string() } else { live.iter().map(|(id, v)| format!("{}:{}", id, show_vec(v))).collect::<Vec<_>>().join(";") };
            out.push(format!("hnsw {} {} {} {} {} {}", if any_nan { "bf.nan" } else { "bf" }, metric_name(rec.metric), k, show_vec(&q), vs, show_dists(&ds)));
        }
    }
}

pub fn generate(seed: u64, cases: usize, out: &mut Vec<String>) {
    let mut r = Rng::new(seed ^ 0x686e7377);
    let metrics = [DistanceMetric::Cosine, DistanceMetric::Euclidean, DistanceMetric::DotProduct, DistanceMetric::Manhattan];
    let mut recall = Recall { lines: 0, wanted: 0, found: 0, full: 0, full_short: 0, full_short_no_remove: 0 };
    let mut counts: BTreeMap<&'static str, u64> = BTreeMap::new();
    for c in 0..cases {
        out.push(format!("# case {} seed {}", c, seed));
        let dim = *r.pick(&[1usize, 3, 7, 17]);
        let metric = *r.pick(&metrics);
        let m = *r.pick(&[2usize, 2, 3, 4, 16]);
        let efc = *r.pick(&[1usize, 2, 4, 8, 128]);
        let style = match r.below(26) {
            0 => 3,
            25 => 4,
            1..=6 => 0,
            7..=12 => 1,
            _ => 2,
        };
        let mut rec = Recipe { seed: r.below(1000), dim, metric, m, efc, ops: Vec::new() };
        let mut ix = new_index(&rec);
        let n_ops = if r.chance(1, 5) { r.range(1, 6) } else { r.range(7, 25) } as usize;
        // a small id pool makes most inserts re-inserts; a large one makes most of them new nodes
        let pool = if r.chance(1, 4) { r.range(1, 8) } else { n_ops as u64 + r.range(0, 6) };
        let mut live: BTreeSet<u64> = BTreeSet::new();
        let dup_vectors = r.chance(1, 4); // repeated vectors make every query of the case a `search.ties` line
        let mut next_id = pool; // ids above the pool are always new
        let mut nondet_left = 1; // removals of the entry point whose successor is HashMap-order dependent
        let mut inserts = 0;
        let mut checkpoints = 0;
        while inserts < n_ops {
            let entry = ix.verif_dump().0.map(|e| e.0);
            let roll = r.below(20);
            if roll < 3 && !live.is_empty() {
                // remove: the entry point one time in three
                let ids: Vec<u64> = live.iter().copied().collect();
                let mut id = *r.pick(&ids);
                if r.chance(1, 3) {
                    id = entry.unwrap_or(id);
                }
                let mut nondet = false;
                if Some(id) == entry && live.len() > 2 {
                    if nondet_left == 0 {
                        continue;
                    }
                    nondet_left -= 1;
                    nondet = true;
                }
                let op = Op::Rem(id);
                apply(&ix, &op);
                rec.ops.push(op);
                live.remove(&id);
                if nondet {
                    // `remove` took `nodes.keys().next()` (std HashMap order, random per map) as the new entry
                    // point.  So that a seed always generates the same lines, the successor is drawn from the
                    // seed and the index is rebuilt until the real code happens to pick it.
                    let ids: Vec<u64> = live.iter().copied().collect();
                    let target = *r.pick(&ids);
                    for _ in 0..4000 {
                        if ix.verif_dump().0.map(|e| e.0) == Some(target) {
                            break;
                        }
                        ix = build(&rec);
                    }
                }
            } else if roll < 4 {
                // remove an id that is not there
                let op = Op::Rem(1000 + r.below(3));
                apply(&ix, &op);
                rec.ops.push(op);
            } else {
                // insert; ids come from a small pool, so existing ids are re-inserted now and then;
                // one time in six the vector repeats an earlier one
                let id = if r.chance(1, 6) && !live.is_empty() {
                    *r.pick(&live.iter().copied().collect::<Vec<_>>())
                } else if r.chance(2, 3) {
                    {
                    next_id += 1;
                    next_id
                }
                } else {
                    r.range(1, pool)
                };
                let prev: Vec<Vec<f32>> = rec.ops.iter().filter_map(|o| if let Op::Ins(_, v) = o { Some(v.clone()) } else { None }).collect();
                let v = if dup_vectors && r.chance(1, 6) && !prev.is_empty() { r.pick(&prev).clone() } else { gen_vec(&mut r, dim, style) };
                let op = Op::Ins(id, v);
                apply(&ix, &op);
                rec.ops.push(op);
                live.insert(id);
                inserts += 1;
            }
            if r.chance(1, 12) && checkpoints < 2 {
                checkpoints += 1;
                let upto = rec.ops.len();
                emit_searches(out, &mut r, &rec, upto, &ix, style, &mut recall, &mut counts);
            }
        }
        // sometimes empty the index again, or remove down to one node
        if r.chance(1, 15) {
            let ids: Vec<u64> = live.iter().copied().collect();
            let keep = r.below(2) as usize;
            for id in ids.iter().skip(keep) {
                let entry = ix.verif_dump().0.map(|e| e.0);
                if Some(*id) == entry && live.len() > 2 {
                    continue;
                }
                let op = Op::Rem(*id);
                apply(&ix, &op);
                rec.ops.push(op);
                live.remove(id);
            }
        }
        let upto = rec.ops.len();
        emit_searches(out, &mut r, &rec, upto, &ix, style, &mut recall, &mut counts);
    }
    out.push(format!(
        "# info hnsw: search lines by kind {:?}; recall@5 with ef = 10n over {} queries: {}/{}; index states where a search with k > n, ef > n returned fewer than the n live nodes: {} of {} ({} of them built without any remove, i.e. by re-inserting an existing id)",
        counts, recall.lines, recall.found, recall.wanted, recall.full_short, recall.full, recall.full_short_no_remove
    ));
}

// ------------------------------------------------------------------------------------ runner

thread_local! {
    static CACHE: RefCell<Option<(String, HnswIndex)>> = const { RefCell::new(None) };
}

/// the real index of a recipe whose dump equals `graph` (rebuilt until the HashMap-order dependent
/// choice of `remove(entry point)` comes out as it did when the line was generated)
fn with_index<T>(recipe: &str, graph: &str, f: impl FnOnce(&Recipe, &HnswIndex) -> T) -> Result<T, String> {
    let rec = parse_recipe(recipe).ok_or("bad-op")?;
    let key = format!("{} {}", recipe, graph);
    CACHE.with(|c| {
        let mut c = c.borrow_mut();
        let hit = matches!(&*c, Some((k, _)) if *k == key);
        if !hit {
            let mut found = None;
            for _ in 0..4000 {
                let ix = build(&rec);
                if show_graph(&ix) == graph {
                    found = Some(ix);
                    break;
                }
            }
            match found {
                Some(ix) => *c = Some((key, ix)),
                None => return Err("rebuild-mismatch".to_string()),
            }
        }
        Ok(f(&rec, &c.as_ref().unwrap().1))
    })
}

pub fn run(args: &[&str]) -> String {
    let a = args.to_vec();
    guarded(move || match a.as_slice() {
        [kind @ ("search" | "search.ties" | "search.nan"), recipe, query, k, ef, graph, dists] => {
            let (Some(q), Ok(k), Ok(ef)) = (parse_vec(query), k.parse::<usize>(), ef.parse::<usize>()) else {
                return "bad-op".into();
            };
            let r = with_index(recipe, graph, |rec, ix| {
                let ds = node_dists(ix, rec.metric, &q);
                if show_dists(&ds) != *dists {
                    return "dist-mismatch".to_string();
                }
                let res = ix.search_with_ef(&q, k, ef);
                if *kind == "search" { show_result(&res) } else { verdict(&ds, k, &res) }
            });
            r.unwrap_or_else(|e| e)
        }
        ["removed", recipe, query, k, ef, id] => {
            let (Some(rec), Some(q), Ok(k), Ok(ef), Ok(id)) = (parse_recipe(recipe), parse_vec(query), k.parse::<usize>(), ef.parse::<usize>(), id.parse::<u64>()) else {
                return "bad-op".into();
            };
            let ix = build(&rec);
            let res = ix.search_with_ef(&q, k, ef);
            let res2 = ix.search(&q, k);
            if res.iter().chain(res2.iter()).any(|(i, _)| i.0 == id) || ix.contains(NodeId::new(id)) || ix.get(NodeId::new(id)).is_some() {
                "returned-removed".into()
            } else {
                "absent".into()
            }
        }
        ["live", recipe] => {
            let Some(rec) = parse_recipe(recipe) else { return "bad-op".into() };
            let ix = build(&rec);
            let (entry, _, nodes) = ix.verif_dump();
            let ids: Vec<u64> = nodes.iter().map(|(i, _)| i.0).collect();
            if ids.iter().any(|i| !ix.contains(NodeId::new(*i)) || ix.get(NodeId::new(*i)).is_none()) {
                return "dump-disagrees-with-get".into();
            }
            if entry.is_some() != !ids.is_empty() || entry.is_some_and(|e| !ids.contains(&e.0)) {
                return format!("entry-point-not-live:{:?}", entry.map(|e| e.0));
            }
            format!("{}:{}", ix.len(), list_arg(&ids))
        }
        ["batch", recipe, k, queries] => {
            let (Some(rec), Ok(k)) = (parse_recipe(recipe), k.parse::<usize>()) else { return "bad-op".into() };
            let Some(qs) = queries.split('|').map(parse_vec).collect::<Option<Vec<Vec<f32>>>>() else { return "bad-op".into() };
            let ix = build(&rec);
            let singles: Vec<String> = qs.iter().map(|q| show_result(&ix.search(q, k))).collect();
            let batch: Vec<String> = ix.batch_search(&qs, k).iter().map(|r| show_result(r)).collect();
            let slices: Vec<&[f32]> = qs.iter().map(|q| q.as_slice()).collect();
            let batch2: Vec<String> = ix.batch_search_slices(&slices, k).iter().map(|r| show_result(r)).collect();
            let singles_ef: Vec<String> = qs.iter().map(|q| show_result(&ix.search_with_ef(q, k, k))).collect();
            let batch_ef: Vec<String> = ix.batch_search_with_ef(&qs, k, k).iter().map(|r| show_result(r)).collect();
            if singles == batch && singles == batch2 && singles_ef == batch_ef { "equal".into() } else { "differs".into() }
        }
        ["bf" | "bf.nan", metric, k, query, vectors, dists] => {
            let (Some(metric), Ok(k), Some(q)) = (parse_metric(metric), k.parse::<usize>(), parse_vec(query)) else {
                return "bad-op".into();
            };
            let mut vs: Vec<(NodeId, Vec<f32>)> = Vec::new();
            if *vectors != "-" {
                for t in vectors.split(';') {
                    let Some((id, v)) = t.split_once(':') else { return "bad-op".into() };
                    let (Ok(id), Some(v)) = (id.parse::<u64>(), parse_vec(v)) else { return "bad-op".into() };
                    vs.push((NodeId::new(id), v));
                }
            }
            let ds: Vec<(u64, u32)> = vs.iter().map(|(id, v)| (id.0, compute_distance(&q, v, metric).to_bits())).collect();
            if show_dists(&ds) != *dists {
                return "dist-mismatch".into();
            }
            let res = brute_force_knn(vs.iter().map(|(id, v)| (*id, v.as_slice())), &q, k, metric);
            show_result(&res)
        }
        _ => "bad-op".into(),
    })
}
