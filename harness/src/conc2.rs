//! Stream `conc2` — the transaction manager and the edge operations of the property-graph store
//! under a forced thread interleaving (C20).
//!
//!   conc2 tx <progs> <sched>
//!       → res=<per thread answers>;… epoch=<current> min=<min_active_epoch> active=<n> txs=<state per id>
//!   conc2 tx.inv <progs> <sched>   → ok | torn   (ids handed out distinct, epochs handed out distinct)
//!       ops: b<v>.<iso> begin_with_isolation (iso 0 rc, 1 si, 2 ser), the id goes to variable v;
//!            w<v>.<e> record_write, r<v>.<e> record_read, c<v> commit, a<v> abort (unset variable:
//!            TxId::INVALID), g gc, e advance_epoch
//!
//!   conc2 edge <n0> <progs> <sched>
//!       → res=<per thread answers>;… edges=<id><L|D>:<src>><dst>;… fwd=<node>:<dst>.<edge>,…;… bwd=… cons=<ok|torn>
//!   conc2 edge.inv <n0> <progs> <sched>   → ok | torn
//!       the store starts with n0 nodes; ops: c<src>.<dst> create_edge, d<e> delete_edge,
//!            n<id> delete_node, x<id> delete_node_edges
//!
//!   progs = thread programs separated by `;`, ops by `,`; `-` = empty
//!   sched = comma separated worker indices (`-` = empty); afterwards every worker runs to completion
use crate::sched::run_schedule;
use crate::util::*;
use grafeo_common::types::{EdgeId, NodeId, TxId};
use grafeo_common::utils::error::{Error, TransactionError};
use grafeo_core::graph::Direction;
use grafeo_core::graph::lpg::LpgStore;
use grafeo_engine::transaction::{EntityId, IsolationLevel, TransactionManager, TxState};
use std::collections::HashMap;
use std::sync::{Arc, Mutex};

// ------------------------------------------------------------------------------------ conc2 tx

#[derive(Clone, Debug)]
enum TOp {
    Begin(usize, u8),
    Write(usize, u64),
    Read(usize, u64),
    Commit(usize),
    Abort(usize),
    Gc,
    Advance,
}

fn nums(t: &str) -> Option<Vec<u64>> {
    t.split('.').map(|x| if x.is_empty() || x.starts_with('+') { None } else { x.parse().ok() }).collect()
}

fn parse_tprogs(s: &str) -> Option<Vec<Vec<TOp>>> {
    s.split(';')
        .map(|p| {
            if p == "-" || p.is_empty() {
                return Some(vec![]);
            }
            p.split(',')
                .map(|o| {
                    if o.is_empty() || !o.is_ascii() {
                        return None;
                    }
                    let (k, rest) = o.split_at(1);
                    match (k, rest) {
                        ("g", "") => Some(TOp::Gc),
                        ("e", "") => Some(TOp::Advance),
                        ("b", _) => {
                            let v = nums(rest)?;
                            if v.len() == 2 && v[1] < 3 { Some(TOp::Begin(v[0] as usize, v[1] as u8)) } else { None }
                        }
                        ("w", _) => {
                            let v = nums(rest)?;
                            if v.len() == 2 { Some(TOp::Write(v[0] as usize, v[1])) } else { None }
                        }
                        ("r", _) => {
                            let v = nums(rest)?;
                            if v.len() == 2 { Some(TOp::Read(v[0] as usize, v[1])) } else { None }
                        }
                        ("c", _) => {
                            let v = nums(rest)?;
                            if v.len() == 1 { Some(TOp::Commit(v[0] as usize)) } else { None }
                        }
                        ("a", _) => {
                            let v = nums(rest)?;
                            if v.len() == 1 { Some(TOp::Abort(v[0] as usize)) } else { None }
                        }
                        _ => None,
                    }
                })
                .collect()
        })
        .collect()
}

fn err_kind(e: &Error) -> &'static str {
    match e {
        Error::Transaction(TransactionError::InvalidState(_)) => "err:invalid",
        Error::Transaction(TransactionError::WriteConflict(_)) => "err:conflict",
        Error::Transaction(TransactionError::SerializationFailure(_)) => "err:serialization",
        _ => "err:other",
    }
}

fn run_tx(progs: Vec<Vec<TOp>>, sched: &[usize]) -> Result<(Vec<String>, String, bool), String> {
    let mgr = Arc::new(TransactionManager::new());
    let n = progs.len();
    let results: Arc<Mutex<Vec<Vec<String>>>> = Arc::new(Mutex::new(vec![Vec::new(); n]));
    let vars: Arc<Mutex<HashMap<usize, TxId>>> = Arc::new(Mutex::new(HashMap::new()));
    // what the threads were handed: transaction ids, epochs
    let handed: Arc<Mutex<(Vec<u64>, Vec<u64>)>> = Arc::new(Mutex::new((Vec::new(), Vec::new())));
    let nbegin = progs.iter().flatten().filter(|o| matches!(o, TOp::Begin(..))).count() as u64;
    let (m2, res2, vars2, handed2) = (Arc::clone(&mgr), Arc::clone(&results), Arc::clone(&vars), Arc::clone(&handed));
    let progs = Arc::new(progs);
    let body = move |tid: usize| {
        for (i, op) in progs[tid].iter().enumerate() {
            if i > 0 {
                grafeo_common::verif::yield_point("conc.op");
            }
            let var = |v: &usize| vars2.lock().unwrap().get(v).copied().unwrap_or(TxId::INVALID);
            let flag = |r: Result<(), Error>| (if r.is_ok() { "ok" } else { "err" }).to_string();
            let r = match op {
                TOp::Begin(v, iso) => {
                    let lvl = match iso {
                        0 => IsolationLevel::ReadCommitted,
                        1 => IsolationLevel::SnapshotIsolation,
                        _ => IsolationLevel::Serializable,
                    };
                    let t = m2.begin_with_isolation(lvl);
                    vars2.lock().unwrap().insert(*v, t);
                    handed2.lock().unwrap().0.push(t.as_u64());
                    (t.as_u64() - 2).to_string()
                }
                TOp::Write(v, e) => flag(m2.record_write(var(v), EntityId::Node(NodeId::new(*e)))),
                TOp::Read(v, e) => flag(m2.record_read(var(v), EntityId::Node(NodeId::new(*e)))),
                TOp::Commit(v) => match m2.commit(var(v)) {
                    Ok(e) => {
                        handed2.lock().unwrap().1.push(e.as_u64());
                        format!("ok:{}", e.as_u64())
                    }
                    Err(e) => err_kind(&e).to_string(),
                },
                TOp::Abort(v) => flag(m2.abort(var(v))),
                TOp::Gc => m2.gc().to_string(),
                TOp::Advance => {
                    let e = m2.advance_epoch().as_u64();
                    handed2.lock().unwrap().1.push(e);
                    format!("e{}", e)
                }
            };
            res2.lock().unwrap()[tid].push(r);
        }
    };
    run_schedule(n, sched, body, || {})?;
    let states: String = (0..nbegin)
        .map(|i| match mgr.state(TxId::new(2 + i)) {
            None => "-",
            Some(TxState::Active) => "A",
            Some(TxState::Committed) => "C",
            Some(TxState::Aborted) => "X",
        })
        .collect();
    let dump = format!(
        "epoch={} min={} active={} txs={}",
        mgr.current_epoch().as_u64(),
        mgr.min_active_epoch().as_u64(),
        mgr.active_count(),
        if states.is_empty() { "-".to_string() } else { states }
    );
    let h = handed.lock().unwrap();
    let distinct = |v: &Vec<u64>| {
        let mut w = v.clone();
        w.sort_unstable();
        w.dedup();
        w.len() == v.len()
    };
    let ok = distinct(&h.0) && distinct(&h.1);
    let res = results.lock().unwrap().iter().map(|v| if v.is_empty() { "-".to_string() } else { v.join(",") }).collect();
    Ok((res, dump, ok))
}

fn gen_tx(r: &mut Rng, out: &mut Vec<String>, stats: &mut HashMap<&'static str, u64>) {
    let nthreads = r.range(2, 5) as usize;
    let nent = r.range(1, 3);
    let shared = r.chance(1, 3); // threads also act on each other's transactions
    let ser = r.chance(1, 3);
    let mut progs = Vec::new();
    let mut steps = 0u64;
    for t in 0..nthreads {
        let mut ops: Vec<String> = Vec::new();
        let mut bump = |k: &'static str| *stats.entry(k).or_insert(0) += 1;
        let var = |r: &mut Rng| if shared && r.chance(1, 3) { r.below(nthreads as u64) as usize } else { t };
        if r.chance(9, 10) {
            let iso = if ser { 2 } else { r.below(3) };
            ops.push(format!("b{}.{}", t, iso));
            bump("begin");
            steps += 2;
        }
        let nops = r.range(1, 5);
        for _ in 0..nops {
            steps += 1;
            match r.below(20) {
                0..=6 => {
                    ops.push(format!("w{}.{}", var(r), r.below(nent)));
                    bump("write");
                }
                7..=9 => {
                    ops.push(format!("r{}.{}", var(r), r.below(nent)));
                    bump("read");
                }
                10..=14 => {
                    ops.push(format!("c{}", var(r)));
                    bump("commit");
                }
                15 => {
                    ops.push(format!("a{}", var(r)));
                    bump("abort");
                }
                16 => {
                    ops.push("g".to_string());
                    bump("gc");
                }
                17 => {
                    ops.push("e".to_string());
                    bump("advance");
                }
                18 => {
                    ops.push(format!("b{}.{}", var(r), r.below(3)));
                    bump("begin");
                    steps += 1;
                }
                _ => {
                    ops.push(format!("c{}", nthreads + 3)); // a variable nobody sets
                    bump("commit-unset");
                }
            }
        }
        if r.chance(4, 5) {
            ops.push(format!("c{}", t));
            bump("commit");
            steps += 1;
        }
        progs.push(ops.join(","));
    }
    let sched: Vec<usize> = (0..r.below(steps + 2)).map(|_| r.below(nthreads as u64) as usize).collect();
    let (p, s) = (progs.join(";"), list_arg(&sched));
    out.push(format!("conc2 tx {} {}", p, s));
    out.push(format!("conc2 tx.inv {} {}", p, s));
}

// ---------------------------------------------------------------------------------- conc2 edge

#[derive(Clone, Debug)]
enum EOp {
    Create(u64, u64),
    DelEdge(u64),
    DelNode(u64),
}

fn parse_eprogs(s: &str) -> Option<Vec<Vec<EOp>>> {
    s.split(';')
        .map(|p| {
            if p == "-" || p.is_empty() {
                return Some(vec![]);
            }
            p.split(',')
                .map(|o| {
                    if o.is_empty() || !o.is_ascii() {
                        return None;
                    }
                    let (k, rest) = o.split_at(1);
                    let v = nums(rest)?;
                    match (k, v.len()) {
                        ("c", 2) => Some(EOp::Create(v[0], v[1])),
                        ("d", 1) => Some(EOp::DelEdge(v[0])),
                        ("n", 1) => Some(EOp::DelNode(v[0])),
                        _ => None,
                    }
                })
                .collect()
        })
        .collect()
}

fn edge_dump(store: &LpgStore, n0: u64, max_edge: u64) -> (String, bool) {
    let mut live: Vec<(u64, u64, u64)> = Vec::new();
    for id in 0..max_edge {
        if let Some(e) = store.get_edge(EdgeId::new(id)) {
            live.push((id, e.src.as_u64(), e.dst.as_u64()));
        }
    }
    let mut ok = true;
    let adj = |dir: Direction| -> Vec<Vec<(u64, u64)>> {
        // one id past the initial nodes: programs also name a node that never existed
        (0..=n0)
            .map(|n| {
                let mut v: Vec<(u64, u64)> = store.edges_from(NodeId::new(n), dir).map(|(o, e)| (o.as_u64(), e.as_u64())).collect();
                v.sort_unstable_by_key(|p| (p.1, p.0));
                v
            })
            .collect()
    };
    let (fwd, bwd) = (adj(Direction::Outgoing), adj(Direction::Incoming));
    for (id, s, d) in live.iter() {
        let cf = fwd.get(*s as usize).map_or(0, |l| l.iter().filter(|p| **p == (*d, *id)).count());
        let cb = bwd.get(*d as usize).map_or(0, |l| l.iter().filter(|p| **p == (*s, *id)).count());
        if cf != 1 || cb != 1 {
            ok = false;
        }
    }
    for (n, l) in fwd.iter().enumerate() {
        for (o, e) in l {
            if !live.contains(&(*e, n as u64, *o)) {
                ok = false;
            }
        }
    }
    for (n, l) in bwd.iter().enumerate() {
        for (o, e) in l {
            if !live.contains(&(*e, *o, n as u64)) {
                ok = false;
            }
        }
    }
    let show = |a: &Vec<Vec<(u64, u64)>>| {
        a.iter().enumerate().map(|(n, l)| format!("{}:{}", n, l.iter().map(|(o, e)| format!("{}.{}", o, e)).collect::<Vec<_>>().join(","))).collect::<Vec<_>>().join(";")
    };
    let es = live.iter().map(|(i, s, d)| format!("{}:{}>{}", i, s, d)).collect::<Vec<_>>().join(";");
    let mut nodes: Vec<u64> = store.node_ids().iter().map(|n| n.as_u64()).filter(|n| *n < n0).collect();
    nodes.sort_unstable();
    (
        format!(
            "edges={} fwd={} bwd={} nodes={}",
            if es.is_empty() { "-".to_string() } else { es },
            show(&fwd),
            show(&bwd),
            if nodes.is_empty() { "-".to_string() } else { join(&nodes) }
        ),
        ok,
    )
}

fn run_edge(n0: u64, progs: Vec<Vec<EOp>>, sched: &[usize]) -> Result<(Vec<String>, String, bool), String> {
    let store = Arc::new(LpgStore::new());
    for _ in 0..n0 {
        store.create_node(&[]);
    }
    let n = progs.len();
    let max_edge = progs.iter().flatten().filter(|o| matches!(o, EOp::Create(..))).count() as u64;
    let results: Arc<Mutex<Vec<Vec<String>>>> = Arc::new(Mutex::new(vec![Vec::new(); n]));
    let (st2, res2) = (Arc::clone(&store), Arc::clone(&results));
    let progs = Arc::new(progs);
    let body = move |tid: usize| {
        for (i, op) in progs[tid].iter().enumerate() {
            if i > 0 {
                grafeo_common::verif::yield_point("conc.op");
            }
            let r = match op {
                EOp::Create(s, d) => st2.create_edge(NodeId::new(*s), NodeId::new(*d), "T").as_u64().to_string(),
                EOp::DelEdge(e) => (if st2.delete_edge(EdgeId::new(*e)) { "1" } else { "0" }).to_string(),
                EOp::DelNode(x) => (if st2.delete_node(NodeId::new(*x)) { "1" } else { "0" }).to_string(),
            };
            res2.lock().unwrap()[tid].push(r);
        }
    };
    run_schedule(n, sched, body, || {})?;
    let (dump, ok) = edge_dump(&store, n0, max_edge);
    let res = results.lock().unwrap().iter().map(|v| if v.is_empty() { "-".to_string() } else { v.join(",") }).collect();
    Ok((res, dump, ok))
}

fn gen_edge(r: &mut Rng, out: &mut Vec<String>, stats: &mut HashMap<&'static str, u64>) {
    let n0 = r.range(1, 4);
    let nthreads = r.range(2, 5) as usize;
    let mut progs = Vec::new();
    let mut steps = 0u64;
    let mut ncreate = 0u64;
    for _ in 0..nthreads {
        let nops = r.range(1, 4);
        let mut ops = Vec::new();
        for _ in 0..nops {
            let mut bump = |k: &'static str| *stats.entry(k).or_insert(0) += 1;
            match r.below(10) {
                0..=4 => {
                    // few endpoints: shared adjacency lists; now and then a node that does not exist
                    let s = if r.chance(1, 12) { n0 } else { r.below(n0) };
                    let d = if r.chance(1, 4) { s.min(n0 - 1) } else { r.below(n0) };
                    ops.push(format!("c{}.{}", s, d));
                    ncreate += 1;
                    steps += 4;
                    bump(if s == d { "create-loop" } else { "create" });
                }
                5..=7 => {
                    // an id some create of this program hands out (maybe one still under creation), or none
                    ops.push(format!("d{}", r.below(ncreate + 2)));
                    steps += 5;
                    bump("delete_edge");
                }
                _ => {
                    ops.push(format!("n{}", r.below(n0 + 1)));
                    steps += 2;
                    bump("delete_node");
                }
            }
        }
        progs.push(ops.join(","));
    }
    let sched: Vec<usize> = (0..r.below(steps + 2)).map(|_| r.below(nthreads as u64) as usize).collect();
    let (p, s) = (progs.join(";"), list_arg(&sched));
    out.push(format!("conc2 edge {} {} {}", n0, p, s));
    out.push(format!("conc2 edge.inv {} {} {}", n0, p, s));
}

pub fn generate(seed: u64, cases: usize, out: &mut Vec<String>) {
    let mut r = Rng::new(seed ^ 0x636f6e6332);
    let mut stats: HashMap<&'static str, u64> = HashMap::new();
    out.push(format!("# case boundary seed {}", seed));
    for l in [
        "conc2 tx - -",
        "conc2 tx b0.1;b1.1 0,1,1,0",
        "conc2 tx b0.1,w0.7,c0,e;b1.1,w1.7,c1;b2.1,w2.7,c2 0,1,0,1,0,1,0,1",
        "conc2 tx b0.1,w0.7,c0;w0.7,c0,a0 0,1,0,0,1,0,1",
        "conc2 tx b0.2,r0.1,w0.2,c0;b1.2,r1.2,w1.1,c1 0,1,0,1,0,1,0,1,1,0",
        "conc2 tx b0.1,c0,g;b1.1,g,c1;e,e,g 0,2,1,0,1,2,0,1,2",
        "conc2 tx.inv b0.1,c0;b1.1,c1;e,e 0,1,2,0,1,2,0,1",
        "conc2 tx w5.1,c5,a5,r5.0;g,e 0,1,0,1",
        "conc2 edge 0 - -",
        "conc2 edge 2 c0.1;d0 0,0,1,1,1,1,1",
        "conc2 edge.inv 2 c0.1;d0 0,0,1,1,1,1,1",
        "conc2 edge 2 c0.1;d0 0,0,0,1,1,1,1,1",
        "conc2 edge 2 c0.1,c0.1;d1 0,0,0,0,0,0,1,1,1,1,1",
        "conc2 edge 2 c0.1;c1.0,n0,d0 0,1,0,1",
        "conc2 edge 1 c0.0,d0;d0,c0.0 0,1,0,1,0,1,0,1,0,1",
        "conc2 edge 2 c0.1;n0,n0;n1,d0 0,1,2,0,1,2,0,1,2",
        "conc2 edge.inv 3 c0.1,c1.2;c2.0,d0;d1,d2 0,1,2,0,1,2,0,1,2,0,1,2",
    ] {
        out.push(l.to_string());
    }
    for c in 0..cases {
        out.push(format!("# case {} seed {}", c, seed));
        gen_tx(&mut r, out, &mut stats);
        gen_edge(&mut r, out, &mut stats);
    }
    if std::env::var("VH_STATS").is_ok() {
        let mut ks: Vec<_> = stats.iter().collect();
        ks.sort();
        eprintln!("conc2 op distribution: {:?}", ks);
    }
}

pub fn run(args: &[&str]) -> String {
    let a: Vec<String> = args.iter().map(|s| s.to_string()).collect();
    guarded(move || {
        let a: Vec<&str> = a.iter().map(|s| s.as_str()).collect();
        match a.as_slice() {
            [kind @ ("tx" | "tx.inv"), progs, sched] => {
                let (Some(progs), Some(sched)) = (parse_tprogs(progs), parse_u64s(sched)) else {
                    return "bad-op".to_string();
                };
                let sched: Vec<usize> = sched.iter().map(|x| *x as usize).collect();
                match run_tx(progs, &sched) {
                    Err(e) => format!("stuck:{}", e.replace(' ', "_")),
                    Ok((res, dump, ok)) => {
                        if *kind == "tx" {
                            format!("res={} {}", res.join(";"), dump)
                        } else if ok {
                            "ok".to_string()
                        } else {
                            "torn".to_string()
                        }
                    }
                }
            }
            [kind @ ("edge" | "edge.inv"), n0, progs, sched] => {
                let (Ok(n0), Some(progs), Some(sched)) = (n0.parse::<u64>(), parse_eprogs(progs), parse_u64s(sched)) else {
                    return "bad-op".to_string();
                };
                let sched: Vec<usize> = sched.iter().map(|x| *x as usize).collect();
                match run_edge(n0, progs, &sched) {
                    Err(e) => format!("stuck:{}", e.replace(' ', "_")),
                    Ok((res, dump, ok)) => {
                        if *kind == "edge" {
                            format!("res={} {}", res.join(";"), dump)
                        } else if ok {
                            "ok".to_string()
                        } else {
                            "torn".to_string()
                        }
                    }
                }
            }
            _ => "bad-op".into(),
        }
    })
}
