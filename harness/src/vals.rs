//! Value tokens of the line protocol: N, B0|B1, I<dec>, F<16 hex of bits>, S<hex utf8>.
use grafeo_common::types::Value;

pub fn tok(v: &Value) -> String {
    match v {
        Value::Null => "N".into(),
        Value::Bool(b) => format!("B{}", if *b { 1 } else { 0 }),
        Value::Int64(i) => format!("I{}", i),
        Value::Float64(f) => format!("F{:016x}", f.to_bits()),
        Value::String(s) => format!("S{}", crate::util::hex(s.as_bytes())),
        other => format!("O{}", crate::util::hex(format!("{:?}", other).as_bytes())),
    }
}

pub fn untok(t: &str) -> Value {
    let (k, rest) = t.split_at(1);
    match k {
        "N" => Value::Null,
        "B" => Value::Bool(rest == "1"),
        "I" => Value::Int64(rest.parse().unwrap()),
        "F" => Value::Float64(f64::from_bits(u64::from_str_radix(rest, 16).unwrap())),
        "S" => Value::String(String::from_utf8(crate::util::unhex(rest).unwrap()).unwrap().into()),
        _ => panic!("bad token {t}"),
    }
}
