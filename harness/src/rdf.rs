//! Stream `rdf` — RdfStore driven directly (C13; pending buffers for C01/C02).
use crate::util::*;
use grafeo_common::types::TxId;
use grafeo_core::graph::rdf::{RdfStore, RdfStoreConfig, Term, Triple, TriplePattern};
use std::sync::Arc;

/// Structurally distinct terms, with look-alikes. Code = index.
/// 0..=3 IRIs, 4..=5 blank nodes, 6.. literals.
pub fn term(code: usize) -> Term {
    match code {
        0 => Term::iri("http://ex.org/a"),
        1 => Term::iri("http://ex.org/b"),
        2 => Term::iri("http://ex.org/p"),
        3 => Term::iri("x"),
        4 => Term::blank("x"),
        5 => Term::blank("b1"),
        6 => Term::literal("x"),
        7 => Term::lang_literal("x", "en"),
        8 => Term::lang_literal("x", "de"),
        9 => Term::typed_literal("x", "http://www.w3.org/2001/XMLSchema#token"),
        10 => Term::typed_literal("1", "http://www.w3.org/2001/XMLSchema#integer"),
        11 => Term::literal("1"),
        12 => Term::literal(""),
        _ => Term::iri(format!("http://ex.org/n{}", code)),
    }
}
pub const N_TERMS: u64 = 16;

pub fn code_of(t: &Term) -> usize {
    (0..N_TERMS as usize + 4).find(|c| &term(*c) == t).unwrap_or(999)
}

pub struct RdfSt {
    store: RdfStore,
}

impl RdfSt {
    pub fn new() -> Self {
        RdfSt { store: RdfStore::new() }
    }
}

fn gen_triple(r: &mut Rng, small: bool) -> (u64, u64, u64) {
    // subjects: IRI or blank; predicates: IRI; objects: anything (Triple::new debug-asserts this)
    let subj = [0u64, 1, 3, 4, 5, 13];
    let pred = [2u64, 3, 0, 14];
    let s = *r.pick(if small { &subj[..3] } else { &subj[..] });
    let p = *r.pick(if small { &pred[..2] } else { &pred[..] });
    let o = if small { *r.pick(&[0u64, 3, 4, 6, 7]) } else { r.below(N_TERMS) };
    (s, p, o)
}

pub fn generate(seed: u64, cases: usize, out: &mut Vec<String>) {
    let mut r = Rng::new(seed ^ 0x726466);
    for c in 0..cases {
        out.push(format!("# case {} seed {}", c, seed));
        out.push(format!("rdf new {}", if r.chance(2, 3) { 1 } else { 0 }));
        let small = r.chance(1, 2);
        let len = r.range(3, 45);
        let mut pool: Vec<(u64, u64, u64)> = Vec::new();
        for _ in 0..len {
            let k = r.below(100);
            let t = if !pool.is_empty() && r.chance(1, 2) { *r.pick(&pool) } else { gen_triple(&mut r, small) };
            match k {
                0..=34 => {
                    out.push(format!("rdf insert {} {} {}", t.0, t.1, t.2));
                    pool.push(t);
                }
                35..=52 => out.push(format!("rdf remove {} {} {}", t.0, t.1, t.2)),
                53..=54 => out.push("rdf clear".into()),
                55..=74 => {
                    let f = |r: &mut Rng, v: u64| if r.chance(1, 2) { v.to_string() } else { "*".to_string() };
                    let (a, b, cc) = (f(&mut r, t.0), f(&mut r, t.1), f(&mut r, t.2));
                    out.push(format!("rdf find {} {} {}", a, b, cc));
                }
                75..=79 => out.push(format!("rdf ws {}", t.0)),
                80..=83 => out.push(format!("rdf wp {}", t.1)),
                84..=88 => out.push(format!("rdf wo {}", t.2)),
                89..=91 => out.push("rdf len".into()),
                92..=94 => out.push("rdf stats".into()),
                _ => {
                    // a small transaction on the side: buffered ops, reads by it and by others
                    let tx = r.range(2, 4);
                    for _ in 0..r.range(1, 4) {
                        let u = if !pool.is_empty() && r.chance(2, 3) { *r.pick(&pool) } else { gen_triple(&mut r, small) };
                        let op = if r.chance(3, 5) { "txins" } else { "txdel" };
                        out.push(format!("rdf {} {} {} {} {}", op, tx, u.0, u.1, u.2));
                        let who = match r.below(3) { 0 => "-".to_string(), 1 => tx.to_string(), _ => (tx + 1).to_string() };
                        out.push(format!("rdf findp {} {} * *", who, u.0));
                    }
                    out.push(format!("rdf findp {} * * *", tx));
                    out.push("rdf findp - * * *".to_string());
                    if r.chance(2, 3) {
                        out.push(format!("rdf txcommit {}", tx));
                    } else {
                        out.push(format!("rdf txrollback {}", tx));
                    }
                    out.push("rdf find * * *".into());
                }
            }
        }
        // every shape at the end
        for s in ["*", "0"] {
            for p in ["*", "2"] {
                for o in ["*", "3"] {
                    out.push(format!("rdf find {} {} {}", s, p, o));
                }
            }
        }
        out.push("rdf len".into());
        out.push("rdf stats".into());
    }
}

fn show(ts: Vec<Arc<Triple>>) -> String {
    let mut v: Vec<(usize, usize, usize)> = ts
        .iter()
        .map(|t| (code_of(t.subject()), code_of(t.predicate()), code_of(t.object())))
        .collect();
    v.sort_unstable();
    v.iter().map(|(a, b, c)| format!("{}.{}.{}", a, b, c)).collect::<Vec<_>>().join(",")
}

fn pos(s: &str) -> Option<Term> {
    if s == "*" { None } else { Some(term(s.parse().unwrap())) }
}

fn triple(s: &str, p: &str, o: &str) -> Triple {
    Triple::new(term(s.parse().unwrap()), term(p.parse().unwrap()), term(o.parse().unwrap()))
}

pub fn run(st: &mut RdfSt, args: &[&str]) -> String {
    let a = args.to_vec();
    guarded(move || match a.as_slice() {
        ["new", b] => {
            st.store = RdfStore::with_config(RdfStoreConfig { initial_capacity: 16, index_objects: *b == "1" });
            "-".into()
        }
        ["insert", s, p, o] => format!("{}", st.store.insert(triple(s, p, o))),
        ["remove", s, p, o] => format!("{}", st.store.remove(&triple(s, p, o))),
        ["clear"] => {
            st.store.clear();
            "-".into()
        }
        ["find", s, p, o] => show(st.store.find(&TriplePattern { subject: pos(s), predicate: pos(p), object: pos(o) })),
        ["ws", k] => show(st.store.triples_with_subject(&term(k.parse().unwrap()))),
        ["wp", k] => show(st.store.triples_with_predicate(&term(k.parse().unwrap()))),
        ["wo", k] => show(st.store.triples_with_object(&term(k.parse().unwrap()))),
        ["len"] => {
            let n = st.store.len();
            assert_eq!(n, st.store.triples().len());
            assert_eq!(n == 0, st.store.is_empty());
            format!("{}", n)
        }
        ["stats"] => {
            let s = st.store.stats();
            format!("{};{};{};{}", s.triple_count, s.subject_count, s.predicate_count, s.object_count)
        }
        ["txins", tx, s, p, o] => {
            st.store.insert_in_tx(TxId::new(tx.parse().unwrap()), triple(s, p, o));
            "-".into()
        }
        ["txdel", tx, s, p, o] => {
            st.store.remove_in_tx(TxId::new(tx.parse().unwrap()), triple(s, p, o));
            "-".into()
        }
        ["txcommit", tx] => format!("{}", st.store.commit_tx(TxId::new(tx.parse().unwrap()))),
        ["txrollback", tx] => format!("{}", st.store.rollback_tx(TxId::new(tx.parse().unwrap()))),
        ["findp", tx, s, p, o] => {
            let t = if *tx == "-" { None } else { Some(TxId::new(tx.parse().unwrap())) };
            show(st.store.find_with_pending(&TriplePattern { subject: pos(s), predicate: pos(p), object: pos(o) }, t))
        }
        _ => "bad-op".into(),
    })
}
