//! Stream `exec` — morsels, merge of sorted runs, mergeable accumulators (C17 building blocks).
use crate::util::*;
use grafeo_common::types::Value;
use grafeo_core::execution::parallel::{MergeableAccumulator, SortKey, generate_morsels, merge_sorted_runs};

fn parse_runs(s: &str) -> Vec<Vec<i64>> {
    if s == "-" {
        return vec![];
    }
    s.split('|').map(|c| if c == "_" || c.is_empty() { vec![] } else { parse_i64s(c).unwrap() }).collect()
}

fn show_runs(rs: &[Vec<i64>]) -> String {
    if rs.is_empty() {
        return "-".into();
    }
    rs.iter().map(|r| if r.is_empty() { "_".to_string() } else { join(r) }).collect::<Vec<_>>().join("|")
}

pub fn generate(seed: u64, cases: usize, out: &mut Vec<String>) {
    let mut r = Rng::new(seed ^ 0x65786563);
    for (t, s) in [(0u64, 0u64), (0, 5), (5, 0), (1, 1), (10, 4), (2048, 2048), (2049, 2048), (65536, 1024), (65537, 65536), (7, 100)] {
        out.push(format!("exec morsels {} {}", t, s));
        out.push(format!("exec morsels.chk {} {}", t, s));
    }
    for c in 0..cases {
        out.push(format!("# case {} seed {}", c, seed));
        let total = match r.below(5) {
            0 => r.below(4),
            1 => *r.pick(&[2047u64, 2048, 2049, 65535, 65536, 65537]),
            _ => r.below(5000),
        };
        let size = match r.below(5) {
            0 => r.below(3),
            1 => *r.pick(&[1024u64, 16384, 32768, 65536]),
            2 => total + r.below(3),
            _ => r.range(1, 700),
        };
        out.push(format!("exec morsels {} {}", total, size));
        out.push(format!("exec morsels.chk {} {}", total, size));
        // sorted runs with duplicates within and across runs
        let k = r.below(6);
        let runs: Vec<Vec<i64>> = (0..k)
            .map(|_| {
                let n = *r.pick(&[0u64, 0, 1, 2, 3, 5, 9, 20]);
                let mut v: Vec<i64> = (0..n).map(|_| (r.below(12) as i64) - 4).collect();
                v.sort_unstable();
                v
            })
            .collect();
        out.push(format!("exec merge {}", show_runs(&runs)));
        // a table split among workers
        let w = r.range(1, 5);
        let parts: Vec<Vec<i64>> = (0..w).map(|_| (0..r.below(7)).map(|_| (r.below(2000) as i64) - 1000).collect()).collect();
        out.push(format!("exec agg {}", show_runs(&parts)));
    }
}

fn opt(v: &Value) -> String {
    match v {
        Value::Null => "N".into(),
        Value::Int64(i) => i.to_string(),
        Value::Float64(f) => {
            if f.fract() == 0.0 && f.abs() < 9.0e15 { format!("{}", *f as i64) } else { format!("f{}", f) }
        }
        other => format!("{:?}", other),
    }
}

pub fn run(args: &[&str]) -> String {
    let a = args.to_vec();
    guarded(move || match a.as_slice() {
        ["morsels", t, s] | ["morsels.chk", t, s] => {
            let (total, size): (usize, usize) = (t.parse().unwrap(), s.parse().unwrap());
            let ms = generate_morsels(total, size, 0);
            if a[0] == "morsels" {
                if ms.is_empty() {
                    return "-".into();
                }
                return ms.iter().map(|m| format!("{}:{}-{}", m.id, m.start_row, m.end_row)).collect::<Vec<_>>().join(",");
            }
            let (mut id, mut start) = (0usize, 0usize);
            for m in &ms {
                if m.id != id {
                    return "bad-id".into();
                }
                if m.start_row != start {
                    return "gap-or-overlap".into();
                }
                if m.end_row <= m.start_row {
                    return "empty-morsel".into();
                }
                if m.end_row - m.start_row > size {
                    return "too-large".into();
                }
                if m.end_row > total {
                    return "beyond-end".into();
                }
                id += 1;
                start = m.end_row;
            }
            if start == total || ((total == 0 || size == 0) && start == 0) { "ok".into() } else { "incomplete".into() }
        }
        ["merge", runs] => {
            let rs: Vec<Vec<Vec<Value>>> =
                parse_runs(runs).iter().map(|r| r.iter().map(|v| vec![Value::Int64(*v)]).collect()).collect();
            let out = merge_sorted_runs(rs, &[SortKey::ascending(0)]).unwrap();
            let ints: Vec<i64> = out.iter().map(|row| if let Value::Int64(i) = row[0] { i } else { panic!() }).collect();
            join(&ints)
        }
        ["agg", parts] => {
            let ps = parse_runs(parts);
            let mut total = MergeableAccumulator::new();
            for p in &ps {
                let mut acc = MergeableAccumulator::new();
                for v in p {
                    acc.add(&Value::Int64(*v));
                }
                total.merge(&acc);
            }
            format!(
                "{};{};{};{};{}",
                opt(&total.finalize_count()),
                opt(&total.finalize_sum()),
                opt(&total.finalize_min()),
                opt(&total.finalize_max()),
                opt(&total.finalize_first())
            )
        }
        _ => "bad-op".into(),
    })
}
