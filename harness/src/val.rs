//! Stream `val` — HashableValue / OrderableValue / OrderedFloat64 (C16).
use crate::util::*;
use grafeo_common::types::{HashableValue, OrderableValue, OrderedFloat64, PropertyKey, Timestamp, Value};
use std::collections::BTreeMap;
use std::hash::{Hash, Hasher};

/// records every word fed to it
#[derive(Default)]
struct Rec(Vec<i128>);
impl Hasher for Rec {
    fn finish(&self) -> u64 {
        0
    }
    fn write(&mut self, bytes: &[u8]) {
        for b in bytes {
            self.0.push(*b as i128);
        }
    }
    fn write_u8(&mut self, i: u8) {
        self.0.push(i as i128);
    }
    fn write_u16(&mut self, i: u16) {
        self.0.push(i as i128);
    }
    fn write_u32(&mut self, i: u32) {
        self.0.push(i as i128);
    }
    fn write_u64(&mut self, i: u64) {
        self.0.push(i as i128);
    }
    fn write_usize(&mut self, i: usize) {
        self.0.push(i as i128);
    }
    fn write_i8(&mut self, i: i8) {
        self.0.push(i as i128);
    }
    fn write_i32(&mut self, i: i32) {
        self.0.push(i as i128);
    }
    fn write_i64(&mut self, i: i64) {
        self.0.push(i as i128);
    }
    fn write_isize(&mut self, i: isize) {
        self.0.push(i as i128);
    }
}

fn feed<T: Hash>(t: &T) -> Vec<i128> {
    let mut r = Rec::default();
    t.hash(&mut r);
    r.0
}

fn feed_str(v: &[i128]) -> String {
    v.iter().map(|x| x.to_string()).collect::<Vec<_>>().join(",")
}

// ---------------------------------------------------------------- value tokens (nested)

pub fn tok(v: &Value) -> String {
    match v {
        Value::Null => "N".into(),
        Value::Bool(b) => format!("B{}", *b as u8),
        Value::Int64(i) => format!("I{}", i),
        Value::Float64(f) => format!("F{:016x}", f.to_bits()),
        Value::String(s) => format!("S{}", hex(s.as_bytes())),
        Value::Bytes(b) => format!("Y{}", hex(b)),
        Value::Timestamp(t) => format!("T{}", t.as_micros()),
        Value::Vector(v) => format!("V({})", v.iter().map(|f| format!("{:08x}", f.to_bits())).collect::<Vec<_>>().join(";")),
        Value::List(l) => format!("L({})", l.iter().map(tok).collect::<Vec<_>>().join(";")),
        Value::Map(m) => format!(
            "M({})",
            m.iter().map(|(k, v)| format!("{}={}", hex(k.as_str().as_bytes()), tok(v))).collect::<Vec<_>>().join(";")
        ),
    }
}

fn split_top(s: &str) -> Vec<&str> {
    if s.is_empty() {
        return vec![];
    }
    let mut out = Vec::new();
    let (mut depth, mut start) = (0i32, 0usize);
    for (i, c) in s.char_indices() {
        match c {
            '(' => depth += 1,
            ')' => depth -= 1,
            ';' if depth == 0 => {
                out.push(&s[start..i]);
                start = i + 1;
            }
            _ => {}
        }
    }
    out.push(&s[start..]);
    out
}

pub fn untok(t: &str) -> Value {
    let (k, rest) = t.split_at(1);
    match k {
        "N" => Value::Null,
        "B" => Value::Bool(rest == "1"),
        "I" => Value::Int64(rest.parse().unwrap()),
        "F" => Value::Float64(f64::from_bits(u64::from_str_radix(rest, 16).unwrap())),
        "S" => Value::String(String::from_utf8(unhex(rest).unwrap()).unwrap().into()),
        "Y" => Value::Bytes(unhex(rest).unwrap().into()),
        "T" => Value::Timestamp(Timestamp::from_micros(rest.parse().unwrap())),
        "V" => Value::Vector(
            split_top(&rest[1..rest.len() - 1]).iter().map(|h| f32::from_bits(u32::from_str_radix(h, 16).unwrap())).collect::<Vec<_>>().into(),
        ),
        "L" => Value::List(split_top(&rest[1..rest.len() - 1]).iter().map(|x| untok(x)).collect::<Vec<_>>().into()),
        "M" => {
            let mut m = BTreeMap::new();
            for p in split_top(&rest[1..rest.len() - 1]) {
                let eq = p.find('=').unwrap();
                let key = String::from_utf8(unhex(&p[..eq]).unwrap()).unwrap();
                m.insert(PropertyKey::new(key), untok(&p[eq + 1..]));
            }
            Value::Map(std::sync::Arc::new(m))
        }
        _ => panic!("bad token {t}"),
    }
}

// ---------------------------------------------------------------- generators

const FLOATS: [u64; 18] = [
    0x0000000000000000, 0x8000000000000000, 0x3FF0000000000000, 0xBFF0000000000000, 0x3FF8000000000000,
    0x7FF0000000000000, 0xFFF0000000000000, 0x7FF8000000000000, 0x7FF8000000000001, 0xFFF8000000000000,
    0x7FF0000000000001, 0x0000000000000001, 0x8000000000000001, 0x4340000000000000, 0x4340000000000001,
    0x433FFFFFFFFFFFFF, 0x43E0000000000000, 0xC3E0000000000000,
];
const INTS: [i64; 16] = [
    0, 1, -1, 2, 9007199254740992, 9007199254740993, 9007199254740994, -9007199254740993, i64::MAX, i64::MIN,
    i64::MAX - 1, 4607182418800017408, 9223372036854775296, 9223372036854775295, 1 << 62, 3,
];

fn gen_float(r: &mut Rng) -> u64 {
    if r.chance(3, 4) { *r.pick(&FLOATS) } else { r.next() }
}
fn gen_int(r: &mut Rng) -> i64 {
    if r.chance(3, 4) { *r.pick(&INTS) } else { (r.next() as i64) >> r.below(64) }
}

fn gen_scalar(r: &mut Rng) -> Value {
    match r.below(9) {
        0 => Value::Null,
        1 => Value::Bool(r.chance(1, 2)),
        2 | 3 => Value::Int64(gen_int(r)),
        4 | 5 => Value::Float64(f64::from_bits(gen_float(r))),
        6 => Value::String(r.pick(&["", "a", "b", "ab", "é", "a\u{0}"]).to_string().into()),
        7 => Value::Timestamp(Timestamp::from_micros(*r.pick(&[0i64, 1, -1, 1_700_000_000_000_000]))),
        _ => Value::Bytes(r.pick(&[vec![], vec![0u8], vec![97u8], vec![255u8, 0]]).clone().into()),
    }
}

fn gen_value(r: &mut Rng, depth: u32) -> Value {
    if depth >= 3 || r.chance(3, 5) {
        return gen_scalar(r);
    }
    match r.below(3) {
        0 => Value::List((0..r.below(4)).map(|_| gen_value(r, depth + 1)).collect::<Vec<_>>().into()),
        1 => {
            let mut m = BTreeMap::new();
            for _ in 0..r.below(4) {
                m.insert(PropertyKey::new(*r.pick(&["a", "b", "", "k"])), gen_value(r, depth + 1));
            }
            Value::Map(std::sync::Arc::new(m))
        }
        _ => Value::Vector(
            (0..r.below(4)).map(|_| f32::from_bits(*r.pick(&[0u32, 0x80000000, 0x3f800000, 0x7fc00000, 0x7fc00001]))).collect::<Vec<_>>().into(),
        ),
    }
}

fn gen_orderable(r: &mut Rng) -> Value {
    match r.below(8) {
        0 => Value::Bool(r.chance(1, 2)),
        1 | 2 | 3 => Value::Int64(gen_int(r)),
        4 | 5 => Value::Float64(f64::from_bits(gen_float(r))),
        6 => Value::String(r.pick(&["", "a", "b", "ab", "é"]).to_string().into()),
        _ => Value::Timestamp(Timestamp::from_micros(*r.pick(&[0i64, 1, -1]))),
    }
}

pub fn generate(seed: u64, cases: usize, out: &mut Vec<String>) {
    let mut r = Rng::new(seed ^ 0x76616c);
    // exhaustive over the special float table: every pair (and every triple for transitivity)
    out.push(format!("# case floats seed {}", seed));
    for a in FLOATS {
        for b in FLOATS {
            out.push(format!("val of.eq {:016x} {:016x}", a, b));
            out.push(format!("val of.cmp {:016x} {:016x}", a, b));
            out.push(format!("val of.law {:016x} {:016x}", a, b));
        }
    }
    for i in INTS {
        out.push(format!("val i2f {}", i));
    }
    for c in 0..cases {
        out.push(format!("# case {} seed {}", c, seed));
        let (fa, fb, fc) = (gen_float(&mut r), gen_float(&mut r), gen_float(&mut r));
        out.push(format!("val of.law {:016x} {:016x}", fa, fb));
        out.push(format!("val of.cmp {:016x} {:016x}", fa, fb));
        out.push(format!("val of.trans {:016x} {:016x} {:016x}", fa, fb, fc));
        out.push(format!("val i2f {}", gen_int(&mut r)));
        let (a, b, c3) = (gen_orderable(&mut r), gen_orderable(&mut r), gen_orderable(&mut r));
        out.push(format!("val ov.eq {} {}", tok(&a), tok(&b)));
        out.push(format!("val ov.cmp {} {}", tok(&a), tok(&b)));
        out.push(format!("val ov.hash {}", tok(&a)));
        out.push(format!("val ov.law {} {}", tok(&a), tok(&b)));
        out.push(format!("val ov.trans {} {} {}", tok(&a), tok(&b), tok(&c3)));
        let x = gen_value(&mut r, 0);
        let y = if r.chance(1, 3) { x.clone() } else { gen_value(&mut r, 0) };
        out.push(format!("val hv.eq {} {}", tok(&x), tok(&y)));
        out.push(format!("val hv.hash {}", tok(&x)));
        out.push(format!("val hv.law {} {}", tok(&x), tok(&y)));
    }
}

fn ord_str(o: std::cmp::Ordering) -> &'static str {
    match o {
        std::cmp::Ordering::Less => "lt",
        std::cmp::Ordering::Equal => "eq",
        std::cmp::Ordering::Greater => "gt",
    }
}

fn pair_verdict(same: bool, eqab: bool, eqba: bool, cmp: Option<(std::cmp::Ordering, std::cmp::Ordering)>, hash_eq: bool) -> &'static str {
    if same && !eqab {
        return "eq-not-reflexive";
    }
    if eqab != eqba {
        return "eq-not-symmetric";
    }
    if eqab && !hash_eq {
        return "eq-but-hash-differs";
    }
    if let Some((x, y)) = cmp {
        if (x == std::cmp::Ordering::Equal) != eqab {
            return "cmp-eq-mismatch";
        }
        if y != x.reverse() {
            return "cmp-not-antisymmetric";
        }
    }
    "ok"
}

fn of(h: &str) -> OrderedFloat64 {
    OrderedFloat64(f64::from_bits(u64::from_str_radix(h, 16).unwrap()))
}
fn ov(t: &str) -> OrderableValue {
    OrderableValue::try_from(&untok(t)).unwrap()
}
fn hv(t: &str) -> HashableValue {
    HashableValue::new(untok(t))
}

pub fn run(args: &[&str]) -> String {
    let a = args.to_vec();
    guarded(move || {
        use std::cmp::Ordering::Greater;
        match a.as_slice() {
            ["i2f", i] => format!("{}", (i.parse::<i64>().unwrap() as f64).to_bits()),
            ["of.eq", x, y] => format!("{}", of(x) == of(y)),
            ["of.cmp", x, y] => ord_str(of(x).cmp(&of(y))).into(),
            ["of.law", tx, ty] => {
                let (x, y) = (of(tx), of(ty));
                pair_verdict(u64::from_str_radix(tx, 16) == u64::from_str_radix(ty, 16), x == y, y == x, Some((x.cmp(&y), y.cmp(&x))), feed(&x) == feed(&y)).into()
            }
            ["of.trans", x, y, z] => {
                let (x, y, z) = (of(x), of(y), of(z));
                if x == y && y == z && x != z {
                    "eq-not-transitive".into()
                } else if x.cmp(&y) != Greater && y.cmp(&z) != Greater && x.cmp(&z) == Greater {
                    "cmp-not-transitive".into()
                } else {
                    "ok".into()
                }
            }
            ["ov.eq", x, y] => format!("{}", ov(x) == ov(y)),
            ["ov.cmp", x, y] => ord_str(ov(x).cmp(&ov(y))).into(),
            ["ov.hash", x] => feed_str(&feed(&ov(x))),
            ["ov.law", tx, ty] => {
                let (x, y) = (ov(tx), ov(ty));
                pair_verdict(tx == ty, x == y, y == x, Some((x.cmp(&y), y.cmp(&x))), feed(&x) == feed(&y)).into()
            }
            ["ov.trans", x, y, z] => {
                let (x, y, z) = (ov(x), ov(y), ov(z));
                if x == y && y == z && x != z {
                    "eq-not-transitive".into()
                } else if x.cmp(&y) != Greater && y.cmp(&z) != Greater && x.cmp(&z) == Greater {
                    "cmp-not-transitive".into()
                } else {
                    "ok".into()
                }
            }
            ["hv.eq", x, y] => format!("{}", hv(x) == hv(y)),
            ["hv.hash", x] => feed_str(&feed(&hv(x))),
            ["hv.law", tx, ty] => {
                let (x, y) = (hv(tx), hv(ty));
                pair_verdict(tx == ty, x == y, y == x, None, feed(&x) == feed(&y)).into()
            }
            _ => "bad-op".into(),
        }
    })
}
