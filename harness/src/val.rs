//! Stream `val` — HashableValue / OrderableValue / OrderedFloat64 (C16).
use crate::util::*;
use grafeo_common::types::{HashableValue, OrderableValue, OrderedFloat64, PropertyKey, Timestamp, Value};
use std::collections::BTreeMap;
use std::hash::{Hash, Hasher};

/// records every word fed to it
#[derive(Default)]
struct Rec(Vec<i128>);
impl Hasher for Rec {
    fn finish(&self) -> u64 {
        0
    }
    fn write(&mut self, bytes: &[u8]) {
        for b in bytes {
            self.0.push(*b as i128);
        }
    }
    fn write_u8(&mut self, i: u8) {
        self.0.push(i as i128);
    }
    fn write_u16(&mut self, i: u16) {
        self.0.push(i as i128);
    }
    fn write_u32(&mut self, i: u32) {
        self.0.push(i as i128);
    }
    fn write_u64(&mut self, i: u64) {
        self.0.push(i as i128);
    }
    fn write_usize(&mut self, i: usize) {
        self.0.push(i as i128);
    }
    fn write_i8(&mut self, i: i8) {
        self.0.push(i as i128);
    }
    fn write_i32(&mut self, i: i32) {
        self.0.push(i as i128);
    }
    fn write_i64(&mut self, i: i64) {
        self.0.push(i as i128);
    }
    fn write_isize(&mut self, i: isize) {
        self.0.push(i as i128);
    }
}

fn feed<T: Hash>(t: &T) -> Vec<i128> {
    let mut r = Rec::default();
    t.hash(&mut r);
    r.0
}

fn feed_str(v: &[i128]) -> String {
    v.iter().map(|x| x.to_string()).collect::<Vec<_>>().join(",")
}

// ---------------------------------------------------------------- value tokens (nested)

pub fn tok(v: &Value) -> String {
    match v {
        Value::Null => "N".into(),
        Value::Bool(b) => format!("B{}", *b as u8),
        Value::Int64(i) => format!("I{}", i),
        Value::Float64(f) => format!("F{:016x}", f.to_bits()),
        Value::String(s) => format!("S{}", hex(s.as_bytes())),
        Value::Bytes(b) => format!("Y{}", hex(b)),
        Value::Timestamp(t) => format!("T{}", t.as_micros()),
        Value::Vector(v) => format!("V({})", v.iter().map(|f| format!("{:08x}", f.to_bits())).collect::<Vec<_>>().join(";")),
        Value::List(l) => format!("L({})", l.iter().map(tok).collect::<Vec<_>>().join(";")),
        Value::Map(m) => format!(
            "M({})",
            m.iter().map(|(k, v)| format!("{}={}", hex(k.as_str().as_bytes()), tok(v))).collect::<Vec<_>>().join(";")
        ),
    }
}

fn split_top(s: &str) -> Vec<&str> {
    if s.is_empty() {
        return vec![];
    }
    let mut out = Vec::new();
    let (mut depth, mut start) = (0i32, 0usize);
    for (i, c) in s.char_indices() {
        match c {
            '(' => depth += 1,
            ')' => depth -= 1,
            ';' if depth == 0 => {
                out.push(&s[start..i]);
                start = i + 1;
            }
            _ => {}
        }
    }
    out.push(&s[start..]);
    out
}

pub fn untok(t: &str) -> Value {
    let (k, rest) = t.split_at(1);
    match k {
        "N" => Value::Null,
        "B" => Value::Bool(rest == "1"),
        "I" => Value::Int64(rest.parse().unwrap()),
        "F" => Value::Float64(f64::from_bits(u64::from_str_radix(rest, 16).unwrap())),
        "S" => Value::String(String::from_utf8(unhex(rest).unwrap()).unwrap().into()),
        "Y" => Value::Bytes(unhex(rest).unwrap().into()),
        "T" => Value::Timestamp(Timestamp::from_micros(rest.parse().unwrap())),
        "V" => Value::Vector(
            split_top(&rest[1..rest.len() - 1]).iter().map(|h| f32::from_bits(u32::from_str_radix(h, 16).unwrap())).collect::<Vec<_>>().into(),
        ),
        "L" => Value::List(split_top(&rest[1..rest.len() - 1]).iter().map(|x| untok(x)).collect::<Vec<_>>().into()),
        "M" => {
            let mut m = BTreeMap::new();
            for p in split_top(&rest[1..rest.len() - 1]) {
                let eq = p.find('=').unwrap();
                let key = String::from_utf8(unhex(&p[..eq]).unwrap()).unwrap();
                m.insert(PropertyKey::new(key), untok(&p[eq + 1..]));
            }
            Value::Map(std::sync::Arc::new(m))
        }
        _ => panic!("bad token {t}"),
    }
}

// ---------------------------------------------------------------- generators

const FLOATS: [u64; 36] = [
    0x0000000000000000, 0x8000000000000000, 0x3FF0000000000000, 0xBFF0000000000000, 0x3FF8000000000000,
    0x7FF0000000000000, 0xFFF0000000000000, 0x7FF8000000000000, 0x7FF8000000000001, 0xFFF8000000000000,
    0x7FF0000000000001, 0x0000000000000001, 0x8000000000000001, 0x4340000000000000, 0x4340000000000001,
    0x433FFFFFFFFFFFFF, 0x43E0000000000000, 0xC3E0000000000000,
    // fractional neighbours of small integers: 0.5, -0.5, 2.5, -2.5, 2.0, 3.0, -3.0
    0x3FE0000000000000, 0xBFE0000000000000, 0x4004000000000000, 0xC004000000000000, 0x4000000000000000,
    0x4008000000000000, 0xC008000000000000,
    // -2^53, -(2^53+2); 2^52 - 0.5, 2^52 + 1 (last binade with a fractional bit / first without)
    0xC340000000000000, 0xC340000000000001, 0x432FFFFFFFFFFFFF, 0x4330000000000001,
    // 2^63 - 1024 (largest float below 2^63) and its negation, the floats next to -2^63 and 2^63, 2^62, f64::MAX
    0x43DFFFFFFFFFFFFF, 0xC3DFFFFFFFFFFFFF, 0xC3E0000000000001, 0x43E0000000000001, 0x43D0000000000000,
    0x7FEFFFFFFFFFFFFF, 0x000FFFFFFFFFFFFF,
];
const INTS: [i64; 34] = [
    0, 1, -1, 2, 9007199254740992, 9007199254740993, 9007199254740994, -9007199254740993, i64::MAX, i64::MIN,
    i64::MAX - 1, 4607182418800017408, 9223372036854775296, 9223372036854775295, 1 << 62, 3,
    // around -2^53, 2^53 - 1, 2^52
    -9007199254740992, -9007199254740991, -9007199254740994, 9007199254740991, 4503599627370496, 4503599627370497,
    // around the ends of the i64 range: 2^63 - 1024 (a float), one above it, MIN + 1, -(2^63 - 1024), its neighbours
    i64::MAX - 1023, i64::MAX - 1022, i64::MIN + 1, i64::MIN + 1024, i64::MIN + 1023, i64::MIN + 1025,
    -2, -3, -(1 << 62), 4611686018427387905, 6, 7,
];

fn gen_float(r: &mut Rng) -> u64 {
    if r.chance(3, 4) { *r.pick(&FLOATS) } else { r.next() }
}
fn gen_int(r: &mut Rng) -> i64 {
    if r.chance(3, 4) { *r.pick(&INTS) } else { (r.next() as i64) >> r.below(64) }
}

/// bits of a float next to an interesting integer: the integer converted (rounded) to f64, moved by
/// up to two representable steps, or with a fractional part attached when the magnitude leaves room
fn gen_float_near(r: &mut Rng, i: i64) -> u64 {
    let f = i as f64;
    match r.below(4) {
        0 => f.to_bits(),
        1 => f.to_bits().wrapping_add(1 + r.below(2)),
        2 => {
            let b = f.to_bits();
            if b & 0x7FFF_FFFF_FFFF_FFFF == 0 { b ^ 0x8000_0000_0000_0000 } else { b - 1 - r.below(2) }
        }
        _ => (f + *r.pick(&[0.5f64, -0.5, 0.25, -0.75, 1.0, -1.0])).to_bits(),
    }
}

/// an Int64 / Float64 value close to one pivot, so that pairs and triples land on equal, adjacent
/// and just-not-equal numbers (the region where a rounding comparison goes wrong)
fn gen_numeric_near(r: &mut Rng, pivot: i64) -> Value {
    let i = pivot.saturating_add(r.below(7) as i64 - 3);
    if r.chance(1, 2) { Value::Int64(i) } else { Value::Float64(f64::from_bits(gen_float_near(r, i))) }
}

fn gen_pivot(r: &mut Rng) -> i64 {
    if r.chance(4, 5) {
        *r.pick(&[0i64, 1, -1, 2, -2, 1 << 52, -(1 << 52), 1 << 53, -(1 << 53), 1 << 62, -(1 << 62), i64::MAX, i64::MIN, (1 << 53) + 2, i64::MAX - 1023, i64::MIN + 1024])
    } else {
        gen_int(r)
    }
}

fn gen_scalar(r: &mut Rng) -> Value {
    match r.below(9) {
        0 => Value::Null,
        1 => Value::Bool(r.chance(1, 2)),
        2 | 3 => Value::Int64(gen_int(r)),
        4 | 5 => Value::Float64(f64::from_bits(gen_float(r))),
        6 => Value::String(r.pick(&["", "a", "b", "ab", "é", "a\u{0}"]).to_string().into()),
        7 => Value::Timestamp(Timestamp::from_micros(*r.pick(&[0i64, 1, -1, 1_700_000_000_000_000]))),
        _ => Value::Bytes(r.pick(&[vec![], vec![0u8], vec![97u8], vec![255u8, 0]]).clone().into()),
    }
}

fn gen_value(r: &mut Rng, depth: u32) -> Value {
    if depth >= 3 || r.chance(3, 5) {
        return gen_scalar(r);
    }
    match r.below(3) {
        0 => Value::List((0..r.below(4)).map(|_| gen_value(r, depth + 1)).collect::<Vec<_>>().into()),
        1 => {
            let mut m = BTreeMap::new();
            for _ in 0..r.below(4) {
                m.insert(PropertyKey::new(*r.pick(&["a", "b", "", "k"])), gen_value(r, depth + 1));
            }
            Value::Map(std::sync::Arc::new(m))
        }
        _ => Value::Vector(
            (0..r.below(4)).map(|_| f32::from_bits(*r.pick(&[0u32, 0x80000000, 0x3f800000, 0x7fc00000, 0x7fc00001]))).collect::<Vec<_>>().into(),
        ),
    }
}

fn gen_orderable(r: &mut Rng) -> Value {
    match r.below(8) {
        0 => Value::Bool(r.chance(1, 2)),
        1 | 2 | 3 => Value::Int64(gen_int(r)),
        4 | 5 => Value::Float64(f64::from_bits(gen_float(r))),
        6 => Value::String(r.pick(&["", "a", "b", "ab", "é"]).to_string().into()),
        _ => Value::Timestamp(Timestamp::from_micros(*r.pick(&[0i64, 1, -1]))),
    }
}

pub fn generate(seed: u64, cases: usize, out: &mut Vec<String>) {
    let mut r = Rng::new(seed ^ 0x76616c);
    // exhaustive over the special float table: every pair (and every triple for transitivity)
    out.push(format!("# case floats seed {}", seed));
    for a in FLOATS {
        for b in FLOATS {
            out.push(format!("val of.eq {:016x} {:016x}", a, b));
            out.push(format!("val of.cmp {:016x} {:016x}", a, b));
            out.push(format!("val of.law {:016x} {:016x}", a, b));
        }
    }
    for i in INTS {
        out.push(format!("val i2f {}", i));
    }
    for a in FLOATS {
        out.push(format!("val f2i {:016x}", a));
        out.push(format!("val trunc {:016x}", a));
    }
    // every special integer against every special float: ==, cmp, the pair laws (incl. hash), and
    // transitivity through each special float / integer as the middle element
    out.push(format!("# case int-float seed {}", seed));
    for i in INTS {
        for f in FLOATS {
            let (ti, tf) = (format!("I{}", i), format!("F{:016x}", f));
            out.push(format!("val ov.eq {} {}", ti, tf));
            out.push(format!("val ov.cmp {} {}", ti, tf));
            out.push(format!("val ov.cmp {} {}", tf, ti));
            out.push(format!("val ov.law {} {}", ti, tf));
            out.push(format!("val ov.law {} {}", tf, ti));
        }
        out.push(format!("val ov.hash I{}", i));
    }
    for f in FLOATS {
        out.push(format!("val ov.hash F{:016x}", f));
    }
    for i in INTS {
        for f in FLOATS {
            for j in [i.saturating_sub(1), i, i.saturating_add(1), (f64::from_bits(f)) as i64] {
                out.push(format!("val ov.trans I{} F{:016x} I{}", i, f, j));
            }
            out.push(format!("val ov.trans F{:016x} I{} F{:016x}", f, i, (i as f64).to_bits()));
        }
    }
    for c in 0..cases {
        out.push(format!("# case {} seed {}", c, seed));
        let (fa, fb, fc) = (gen_float(&mut r), gen_float(&mut r), gen_float(&mut r));
        out.push(format!("val of.law {:016x} {:016x}", fa, fb));
        out.push(format!("val of.cmp {:016x} {:016x}", fa, fb));
        out.push(format!("val of.trans {:016x} {:016x} {:016x}", fa, fb, fc));
        out.push(format!("val i2f {}", gen_int(&mut r)));
        let (a, b, c3) = (gen_orderable(&mut r), gen_orderable(&mut r), gen_orderable(&mut r));
        out.push(format!("val ov.eq {} {}", tok(&a), tok(&b)));
        out.push(format!("val ov.cmp {} {}", tok(&a), tok(&b)));
        out.push(format!("val ov.hash {}", tok(&a)));
        out.push(format!("val ov.law {} {}", tok(&a), tok(&b)));
        out.push(format!("val ov.trans {} {} {}", tok(&a), tok(&b), tok(&c3)));
        // Int64 / Float64 values around one pivot: pairs and triples for the cross-type laws
        let pv = gen_pivot(&mut r);
        let (na, nb, nc) = (gen_numeric_near(&mut r, pv), gen_numeric_near(&mut r, pv), gen_numeric_near(&mut r, pv));
        out.push(format!("val ov.eq {} {}", tok(&na), tok(&nb)));
        out.push(format!("val ov.cmp {} {}", tok(&na), tok(&nb)));
        out.push(format!("val ov.hash {}", tok(&na)));
        out.push(format!("val ov.law {} {}", tok(&na), tok(&nb)));
        out.push(format!("val ov.trans {} {} {}", tok(&na), tok(&nb), tok(&nc)));
        let nf = if r.chance(1, 2) { gen_float_near(&mut r, pv) } else { gen_float(&mut r) };
        out.push(format!("val f2i {:016x}", nf));
        out.push(format!("val trunc {:016x}", nf));
        let x = gen_value(&mut r, 0);
        let y = if r.chance(1, 3) { x.clone() } else { gen_value(&mut r, 0) };
        out.push(format!("val hv.eq {} {}", tok(&x), tok(&y)));
        out.push(format!("val hv.hash {}", tok(&x)));
        out.push(format!("val hv.law {} {}", tok(&x), tok(&y)));
    }
}

fn ord_str(o: std::cmp::Ordering) -> &'static str {
    match o {
        std::cmp::Ordering::Less => "lt",
        std::cmp::Ordering::Equal => "eq",
        std::cmp::Ordering::Greater => "gt",
    }
}

fn pair_verdict(same: bool, eqab: bool, eqba: bool, cmp: Option<(std::cmp::Ordering, std::cmp::Ordering)>, hash_eq: bool) -> &'static str {
    if same && !eqab {
        return "eq-not-reflexive";
    }
    if eqab != eqba {
        return "eq-not-symmetric";
    }
    if eqab && !hash_eq {
        return "eq-but-hash-differs";
    }
    if let Some((x, y)) = cmp {
        if (x == std::cmp::Ordering::Equal) != eqab {
            return "cmp-eq-mismatch";
        }
        if y != x.reverse() {
            return "cmp-not-antisymmetric";
        }
    }
    "ok"
}

fn of(h: &str) -> OrderedFloat64 {
    OrderedFloat64(f64::from_bits(u64::from_str_radix(h, 16).unwrap()))
}
fn ov(t: &str) -> OrderableValue {
    OrderableValue::try_from(&untok(t)).unwrap()
}
fn hv(t: &str) -> HashableValue {
    HashableValue::new(untok(t))
}

pub fn run(args: &[&str]) -> String {
    let a = args.to_vec();
    guarded(move || {
        use std::cmp::Ordering::Greater;
        match a.as_slice() {
            ["i2f", i] => format!("{}", (i.parse::<i64>().unwrap() as f64).to_bits()),
            ["f2i", x] => format!("{}", f64::from_bits(u64::from_str_radix(x, 16).unwrap()) as i64),
            ["trunc", x] => {
                let t = f64::from_bits(u64::from_str_radix(x, 16).unwrap()).trunc();
                if t.is_nan() { "nan".into() } else { format!("{}", t.to_bits()) }
            }
            ["of.eq", x, y] => format!("{}", of(x) == of(y)),
            ["of.cmp", x, y] => ord_str(of(x).cmp(&of(y))).into(),
            ["of.law", tx, ty] => {
                let (x, y) = (of(tx), of(ty));
                pair_verdict(u64::from_str_radix(tx, 16) == u64::from_str_radix(ty, 16), x == y, y == x, Some((x.cmp(&y), y.cmp(&x))), feed(&x) == feed(&y)).into()
            }
            ["of.trans", x, y, z] => {
                let (x, y, z) = (of(x), of(y), of(z));
                if x == y && y == z && x != z {
                    "eq-not-transitive".into()
                } else if x.cmp(&y) != Greater && y.cmp(&z) != Greater && x.cmp(&z) == Greater {
                    "cmp-not-transitive".into()
                } else {
                    "ok".into()
                }
            }
            ["ov.eq", x, y] => format!("{}", ov(x) == ov(y)),
            ["ov.cmp", x, y] => ord_str(ov(x).cmp(&ov(y))).into(),
            ["ov.hash", x] => feed_str(&feed(&ov(x))),
            ["ov.law", tx, ty] => {
                let (x, y) = (ov(tx), ov(ty));
                pair_verdict(tx == ty, x == y, y == x, Some((x.cmp(&y), y.cmp(&x))), feed(&x) == feed(&y)).into()
            }
            ["ov.trans", x, y, z] => {
                let (x, y, z) = (ov(x), ov(y), ov(z));
                if x == y && y == z && x != z {
                    "eq-not-transitive".into()
                } else if x.cmp(&y) != Greater && y.cmp(&z) != Greater && x.cmp(&z) == Greater {
                    "cmp-not-transitive".into()
                } else if x == y && (x.cmp(&z) != y.cmp(&z) || z.cmp(&x) != z.cmp(&y)) {
                    "cmp-ignores-eq".into()
                } else {
                    "ok".into()
                }
            }
            ["hv.eq", x, y] => format!("{}", hv(x) == hv(y)),
            ["hv.hash", x] => feed_str(&feed(&hv(x))),
            ["hv.law", tx, ty] => {
                let (x, y) = (hv(tx), hv(ty));
                pair_verdict(tx == ty, x == y, y == x, None, feed(&x) == feed(&y)).into()
            }
            _ => "bad-op".into(),
        }
    })
}
