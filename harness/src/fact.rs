//! Stream `fact` — the factorized representation (`execution/factorized_chunk.rs`,
//! `factorized_vector.rs`, `factorized_iter.rs`) and its operators
//! (`operators/factorized_expand.rs`, `factorized_filter.rs`, `factorized_aggregate.rs`).
//!
//! Every op line is self-contained. Argument formats:
//!   chunk   `E` (FactorizedChunk::empty()) | level{/level}
//!   level   offs;col{;col}     offs = `-` (flat level, first level only: with_flat_level) |
//!                              n{,n} (offsets: add_level);  col = `-` | val{,val};  val = int | `~` (null)
//!           all columns of a level have the same length (otherwise bad-op)
//!   pred    lt:k le:k gt:k ge:k eq:k ne:k (false on null) | null | notnull | all
//!   graph   <n> <edges>        n nodes (ids 0..n-1), edges `s>t{,s>t}` | `-` (edge i has id i)
//!   srcs    `-` | val{,val}    the source node column (`~` = null)
//! Ops:
//!   flatten <chunk>                    flatten() + logical_row_count()
//!   iter <chunk>                       logical_row_iter / PrecomputedIter / StreamingIter index tuples
//!   agg <chunk> <ci>                   FactorizedAggregate::{count,count_column,sum,avg,min,max}(ci).compute
//!   filt|filtm <chunk> <ci> <pred>     filter_deepest / filter_deepest_multi, then flatten
//!   chain <n> <edges> <srcs> <hops>    LazyFactorizedChainOperator::next_factorized, then flatten
//!   chainflat <n> <edges> <srcs> <hops>  the same operator through Operator::next (flattened)
//!   chainagg <n> <edges> <srcs> <hops> FactorizedAggregateOperator over the chain
//!   chainfilt <n> <edges> <srcs> <hops> <level> <col> <pred-op> <k> <mat>
//!                                      FactorizedFilterOperator(ColumnPredicate) drained, each chunk flattened
//!   expand1 <n> <edges> <srcs>         FactorizedExpandOperator::next (one hop, flattened)
//!   qcase <n> <edges> <stored type> <type in the query> <hops> <fact 0|1> rows|count
//!                                      GQL `MATCH (v0)-[:T]->…(vh) RETURN v0.i, vh.i` / `count(*)` through GrafeoDB
#![allow(unused)]
use crate::util::*;
use grafeo_common::types::{EdgeId, LogicalType, NodeId, Value};
use grafeo_core::execution::operators::{
    ColumnPredicate, ExpandStep, FactorizedAggregate, FactorizedAggregateOperator, FactorizedCompareOp,
    FactorizedExpandOperator, FactorizedFilterOperator, FactorizedOperator, LazyFactorizedChainOperator,
    Operator, OperatorResult,
};
use grafeo_core::execution::{DataChunk, FactorizedChunk, PrecomputedIter, StreamingIter, ValueVector};
use grafeo_core::graph::Direction;
use grafeo_core::graph::lpg::LpgStore;
use std::sync::Arc;

type V = Option<i64>;

fn p_val(t: &str) -> Option<V> {
    if t == "~" { Some(None) } else { t.parse::<i64>().ok().map(Some) }
}
fn p_vals(s: &str) -> Option<Vec<V>> {
    if s == "-" {
        return Some(vec![]);
    }
    s.split(',').map(p_val).collect()
}
fn p_nats(s: &str) -> Option<Vec<u32>> {
    if s == "-" {
        return Some(vec![]);
    }
    s.split(',').map(|t| if t.starts_with('+') { None } else { t.parse::<u32>().ok() }).collect()
}
fn p_nat(s: &str) -> Option<usize> {
    if s.starts_with('+') { None } else { s.parse::<usize>().ok() }
}

struct LevelD {
    offs: Option<Vec<u32>>,
    cols: Vec<Vec<V>>,
}

fn p_level(s: &str) -> Option<LevelD> {
    let parts: Vec<&str> = s.split(';').collect();
    if parts.len() < 2 {
        return None;
    }
    let offs = if parts[0] == "-" { None } else { Some(p_nats(parts[0])?) };
    let cols: Option<Vec<Vec<V>>> = parts[1..].iter().map(|c| p_vals(c)).collect();
    let cols = cols?;
    let n = cols[0].len();
    if cols.iter().any(|c| c.len() != n) {
        return None;
    }
    Some(LevelD { offs, cols })
}

fn vv(vals: &[V]) -> ValueVector {
    let mut v = ValueVector::with_type(LogicalType::Int64);
    for x in vals {
        match x {
            Some(i) => v.push_value(Value::Int64(*i)),
            None => v.push_value(Value::Null),
        }
    }
    v
}

fn names(k: usize, lvl: usize) -> Vec<String> {
    (0..k).map(|i| format!("l{}c{}", lvl, i)).collect()
}

/// None = unparseable; the build itself may panic (caught by `guarded`)
fn parse_chunk(s: &str) -> Option<Vec<LevelD>> {
    if s == "E" {
        return Some(vec![]);
    }
    let lv: Option<Vec<LevelD>> = s.split('/').map(p_level).collect();
    let lv = lv?;
    if lv.is_empty() || lv[1..].iter().any(|l| l.offs.is_none()) {
        return None;
    }
    Some(lv)
}

fn build_chunk(lv: &[LevelD]) -> FactorizedChunk {
    if lv.is_empty() {
        return FactorizedChunk::empty();
    }
    let mut c = match &lv[0].offs {
        None => FactorizedChunk::with_flat_level(lv[0].cols.iter().map(|c| vv(c)).collect(), names(lv[0].cols.len(), 0)),
        Some(o) => {
            let mut c = FactorizedChunk::empty();
            c.add_level(lv[0].cols.iter().map(|c| vv(c)).collect(), names(lv[0].cols.len(), 0), o);
            c
        }
    };
    for (i, l) in lv.iter().enumerate().skip(1) {
        c.add_level(l.cols.iter().map(|c| vv(c)).collect(), names(l.cols.len(), i), l.offs.as_ref().unwrap());
    }
    c
}

fn val_str(v: &Value) -> String {
    match v {
        Value::Null => "~".to_string(),
        Value::Int64(i) => i.to_string(),
        Value::Float64(f) => f64_str(*f),
        other => format!("?{:?}", other),
    }
}

/// a float that is an exact integer below 2^53 prints as that integer, anything else as its bit pattern
fn f64_str(f: f64) -> String {
    if f.is_finite() && f.fract() == 0.0 && f.abs() < 9007199254740992.0 {
        format!("{}", f as i64)
    } else {
        format!("bits:{:016x}", f.to_bits())
    }
}

fn gcd(a: u128, b: u128) -> u128 {
    if b == 0 { a } else { gcd(b, a % b) }
}

fn frac_str(num: i64, den: u64) -> String {
    if den == 0 {
        return "div0".to_string();
    }
    let g = gcd(num.unsigned_abs() as u128, den as u128);
    if g == 0 {
        return "0/1".to_string();
    }
    format!("{}/{}", (num as i128) / (g as i128), (den as u128) / g)
}

fn col_str(c: &ValueVector) -> String {
    if c.len() == 0 {
        return "-".to_string();
    }
    (0..c.len()).map(|i| c.get_value(i).map_or("?".to_string(), |v| val_str(&v))).collect::<Vec<_>>().join(",")
}

fn flat_str(d: &DataChunk) -> String {
    let cols = if d.column_count() == 0 {
        "-".to_string()
    } else {
        d.columns().iter().map(col_str).collect::<Vec<_>>().join("|")
    };
    format!("k={} n={} {}", d.column_count(), d.row_count(), cols)
}

fn chunk_str(c: &FactorizedChunk) -> String {
    format!("{} lrc={}", flat_str(&c.flatten()), c.logical_row_count())
}

fn tup_str(ts: &[Vec<usize>]) -> String {
    if ts.is_empty() {
        return "-".to_string();
    }
    ts.iter().map(|t| t.iter().map(|x| x.to_string()).collect::<Vec<_>>().join(".")).collect::<Vec<_>>().join(";")
}

#[derive(Clone, Copy)]
enum Pred {
    Lt(i64),
    Le(i64),
    Gt(i64),
    Ge(i64),
    Eq(i64),
    Ne(i64),
    IsNull,
    NotNull,
    All,
}

impl Pred {
    fn eval(&self, v: &Value) -> bool {
        match (self, v) {
            (Pred::IsNull, v) => matches!(v, Value::Null),
            (Pred::NotNull, v) => !matches!(v, Value::Null),
            (Pred::All, _) => true,
            (Pred::Lt(k), Value::Int64(x)) => x < k,
            (Pred::Le(k), Value::Int64(x)) => x <= k,
            (Pred::Gt(k), Value::Int64(x)) => x > k,
            (Pred::Ge(k), Value::Int64(x)) => x >= k,
            (Pred::Eq(k), Value::Int64(x)) => x == k,
            (Pred::Ne(k), Value::Int64(x)) => x != k,
            _ => false,
        }
    }
}

fn p_pred(s: &str) -> Option<Pred> {
    match s {
        "null" => return Some(Pred::IsNull),
        "notnull" => return Some(Pred::NotNull),
        "all" => return Some(Pred::All),
        _ => {}
    }
    let (o, k) = s.split_once(':')?;
    if k.contains(':') {
        return None;
    }
    let k = k.parse::<i64>().ok()?;
    Some(match o {
        "lt" => Pred::Lt(k),
        "le" => Pred::Le(k),
        "gt" => Pred::Gt(k),
        "ge" => Pred::Ge(k),
        "eq" => Pred::Eq(k),
        "ne" => Pred::Ne(k),
        _ => return None,
    })
}

// ───────────────────────── graphs and operators ─────────────────────────

fn p_edges(s: &str) -> Option<Vec<(u64, u64)>> {
    if s == "-" {
        return Some(vec![]);
    }
    s.split(',')
        .map(|e| {
            let (a, b) = e.split_once('>')?;
            if a.starts_with('+') || b.starts_with('+') {
                return None;
            }
            Some((a.parse::<u64>().ok()?, b.parse::<u64>().ok()?))
        })
        .collect()
}

fn p_srcs(s: &str) -> Option<Vec<Option<u64>>> {
    if s == "-" {
        return Some(vec![]);
    }
    s.split(',')
        .map(|t| if t == "~" { Some(None) } else if t.starts_with('+') { None } else { t.parse::<u64>().ok().map(Some) })
        .collect()
}

/// node ids are 0..n-1 and edge i has id i (checked); edges touching a missing node are rejected by the parser
fn build_store(n: usize, edges: &[(u64, u64)]) -> Option<Arc<LpgStore>> {
    let store = LpgStore::new();
    for i in 0..n {
        let id = store.create_node(&["N"]);
        if id.as_u64() != i as u64 {
            return None;
        }
    }
    for (i, (s, t)) in edges.iter().enumerate() {
        let id = store.create_edge(NodeId::new(*s), NodeId::new(*t), "R");
        if id.as_u64() != i as u64 {
            return None;
        }
    }
    Some(Arc::new(store))
}

struct OneChunk(Option<DataChunk>);
impl Operator for OneChunk {
    fn next(&mut self) -> OperatorResult {
        Ok(self.0.take())
    }
    fn reset(&mut self) {}
    fn name(&self) -> &'static str {
        "OneChunk"
    }
}

fn src_op(srcs: &[Option<u64>]) -> Box<dyn Operator> {
    let mut v = ValueVector::with_type(LogicalType::Node);
    for s in srcs {
        match s {
            Some(i) => v.push_node_id(NodeId::new(*i)),
            None => v.push_value(Value::Null),
        }
    }
    Box::new(OneChunk(Some(DataChunk::new(vec![v]))))
}

fn steps(hops: usize) -> Vec<ExpandStep> {
    (0..hops)
        .map(|h| ExpandStep { source_column: if h == 0 { 0 } else { 1 }, direction: Direction::Outgoing, edge_type: None })
        .collect()
}

struct G {
    store: Arc<LpgStore>,
    srcs: Vec<Option<u64>>,
    hops: usize,
}

fn p_graph(t: &[&str]) -> Option<G> {
    let n = p_nat(t[0])?;
    let edges = p_edges(t[1])?;
    if n > 64 || edges.iter().any(|(a, b)| *a >= n as u64 || *b >= n as u64) {
        return None;
    }
    let srcs = p_srcs(t[2])?;
    let hops = p_nat(t[3])?;
    if hops == 0 || hops > 6 {
        return None;
    }
    Some(G { store: build_store(n, &edges)?, srcs, hops })
}

fn lazy(g: &G) -> LazyFactorizedChainOperator {
    LazyFactorizedChainOperator::new(Arc::clone(&g.store), src_op(&g.srcs), steps(g.hops))
}

pub fn run(toks: &[&str]) -> String {
    if toks.is_empty() {
        return "bad-op".to_string();
    }
    let t = toks;
    match (t[0], t.len()) {
        ("flatten", 2) => {
            let Some(lv) = parse_chunk(t[1]) else { return "bad-op".into() };
            guarded(|| chunk_str(&build_chunk(&lv)))
        }
        ("iter", 2) => {
            let Some(lv) = parse_chunk(t[1]) else { return "bad-op".into() };
            guarded(|| {
                let c = build_chunk(&lv);
                let ri: Vec<Vec<usize>> = c.logical_row_iter().collect();
                let pc: Vec<Vec<usize>> = PrecomputedIter::new(&c).rows().map(|_| vec![]).collect();
                let pcn = pc.len();
                let pi = PrecomputedIter::new(&c);
                let pc: Vec<Vec<usize>> = (0..pcn).map(|i| pi.get(i).unwrap().as_slice().to_vec()).collect();
                let st: Vec<Vec<usize>> = StreamingIter::new(&c).map(|r| r.as_slice().to_vec()).collect();
                format!("ri={} pc={} st={}", tup_str(&ri), tup_str(&pc), tup_str(&st))
            })
        }
        ("agg", 3) => {
            let Some(lv) = parse_chunk(t[1]) else { return "bad-op".into() };
            let Some(ci) = p_nat(t[2]) else { return "bad-op".into() };
            guarded(|| {
                let c = build_chunk(&lv);
                let count = FactorizedAggregate::count().compute(&c);
                let cc = FactorizedAggregate::count_column(ci).compute(&c);
                let sum = FactorizedAggregate::sum(ci).compute(&c);
                let avg = FactorizedAggregate::avg(ci).compute(&c);
                let min = FactorizedAggregate::min(ci).compute(&c);
                let max = FactorizedAggregate::max(ci).compute(&c);
                format!(
                    "count={} cc={} sum={} avg={} min={} max={}",
                    val_str(&count),
                    val_str(&cc),
                    val_str(&sum),
                    avg_str(&avg, &sum, c.logical_row_count()),
                    val_str(&min),
                    val_str(&max)
                )
            })
        }
        ("filt", 4) | ("filtm", 4) => {
            let Some(lv) = parse_chunk(t[1]) else { return "bad-op".into() };
            let Some(ci) = p_nat(t[2]) else { return "bad-op".into() };
            let Some(p) = p_pred(t[3]) else { return "bad-op".into() };
            if t[0] == "filtm" && !(lv.last().map_or(false, |l| ci < l.cols.len())) {
                // the multi-column form reads values[ci]: both sides reject a column that is not there
                return guarded(|| {
                    let _ = build_chunk(&lv);
                    "bad-op".to_string()
                });
            }
            guarded(|| {
                let c = build_chunk(&lv);
                let r = if t[0] == "filt" {
                    c.filter_deepest(ci, |v| p.eval(v))
                } else {
                    c.filter_deepest_multi(|vs| vs.get(ci).map_or(false, |v| p.eval(v)))
                };
                match r {
                    None => "none".to_string(),
                    Some(c2) => chunk_str(&c2),
                }
            })
        }
        ("chain", 5) | ("chainflat", 5) | ("chainagg", 5) | ("expand1", 4) => {
            let mut tt: Vec<&str> = t[1..].to_vec();
            if t[0] == "expand1" {
                tt.push("1");
            }
            let Some(g) = p_graph(&tt) else { return "bad-op".into() };
            guarded(|| match t[0] {
                "chain" => {
                    let mut op = lazy(&g);
                    match op.next_factorized() {
                        Err(_) => "err".to_string(),
                        Ok(None) => "none".to_string(),
                        Ok(Some(c)) => chunk_str(&c),
                    }
                }
                "chainflat" => {
                    let mut op = lazy(&g);
                    let mut out = Vec::new();
                    loop {
                        match Operator::next(&mut op) {
                            Err(_) => return "err".to_string(),
                            Ok(None) => break,
                            Ok(Some(d)) => out.push(flat_str(&d)),
                        }
                        if out.len() > 4 {
                            break;
                        }
                    }
                    if out.is_empty() { "none".to_string() } else { out.join(" ++ ") }
                }
                "expand1" => {
                    let mut op = FactorizedExpandOperator::new(
                        Arc::clone(&g.store),
                        src_op(&g.srcs),
                        0,
                        Direction::Outgoing,
                        None,
                    );
                    let mut out = Vec::new();
                    loop {
                        match Operator::next(&mut op) {
                            Err(_) => return "err".to_string(),
                            Ok(None) => break,
                            Ok(Some(d)) => out.push(flat_str(&d)),
                        }
                        if out.len() > 4 {
                            break;
                        }
                    }
                    if out.is_empty() { "none".to_string() } else { out.join(" ++ ") }
                }
                _ => {
                    let aggs = vec![
                        FactorizedAggregate::count(),
                        FactorizedAggregate::count_column(1),
                        FactorizedAggregate::sum(1),
                        FactorizedAggregate::avg(1),
                        FactorizedAggregate::min(1),
                        FactorizedAggregate::max(1),
                    ];
                    let mut op = FactorizedAggregateOperator::new(lazy(&g), aggs);
                    match Operator::next(&mut op) {
                        Err(_) => "err".to_string(),
                        Ok(None) => "none".to_string(),
                        Ok(Some(d)) => {
                            let v: Vec<Value> =
                                (0..6).map(|i| d.column(i).and_then(|c| c.get_value(0)).unwrap_or(Value::Null)).collect();
                            let count = match &v[0] {
                                Value::Int64(i) => *i as usize,
                                _ => 0,
                            };
                            let again = match Operator::next(&mut op) {
                                Ok(None) => "",
                                _ => " again",
                            };
                            format!(
                                "count={} cc={} sum={} avg={} min={} max={}{}",
                                val_str(&v[0]),
                                val_str(&v[1]),
                                val_str(&v[2]),
                                avg_str(&v[3], &v[2], count),
                                val_str(&v[4]),
                                val_str(&v[5]),
                                again
                            )
                        }
                    }
                }
            })
        }
        // C10 from query text: the same h-hop pattern with an edge-type label written in some letter
        // case, factorized execution on or off
        ("qcase", 8) => {
            let Some(n) = p_nat(t[1]) else { return "bad-op".into() };
            let Some(edges) = p_edges(t[2]) else { return "bad-op".into() };
            if n > 64 || edges.iter().any(|(a, b)| *a >= n as u64 || *b >= n as u64) {
                return "bad-op".into();
            }
            let ok_ty = |x: &str| !x.is_empty() && x.len() <= 8 && x.chars().all(|c| c.is_ascii_alphabetic() || c.is_ascii_digit()) && x.chars().next().unwrap().is_ascii_alphabetic();
            if !ok_ty(t[3]) || !ok_ty(t[4]) {
                return "bad-op".into();
            }
            let Some(hops) = p_nat(t[5]) else { return "bad-op".into() };
            if hops == 0 || hops > 4 {
                return "bad-op".into();
            }
            let fact = match t[6] {
                "0" => false,
                "1" => true,
                _ => return "bad-op".into(),
            };
            let count = match t[7] {
                "rows" => false,
                "count" => true,
                _ => return "bad-op".into(),
            };
            guarded(|| {
                use grafeo_engine::config::Config;
                use grafeo_engine::database::GrafeoDB;
                let cfg = if fact { Config::in_memory() } else { Config::in_memory().without_factorized_execution() };
                let db = GrafeoDB::with_config(cfg).unwrap();
                for i in 0..n {
                    let id = db.create_node(&["N"]);
                    db.set_node_property(id, "i", Value::Int64(i as i64));
                }
                for (a, b) in &edges {
                    db.create_edge(NodeId::new(*a), NodeId::new(*b), t[3]);
                }
                let mut text = "MATCH (v0)".to_string();
                for h in 1..=hops {
                    text.push_str(&format!("-[:{}]->(v{})", t[4], h));
                }
                if count {
                    text.push_str(" RETURN count(*)");
                } else {
                    text.push_str(&format!(" RETURN v0.i, v{}.i", hops));
                }
                match db.session().execute(&text) {
                    Err(_) => "error".to_string(),
                    Ok(r) => {
                        let mut rs: Vec<String> =
                            r.rows.iter().map(|row| row.iter().map(val_str).collect::<Vec<_>>().join("|")).collect();
                        rs.sort();
                        if rs.is_empty() { "norows".to_string() } else { rs.join(";") }
                    }
                }
            })
        }
        ("chainfilt", 10) => {
            let Some(g) = p_graph(&t[1..5]) else { return "bad-op".into() };
            let Some(level) = p_nat(t[5]) else { return "bad-op".into() };
            let Some(col) = p_nat(t[6]) else { return "bad-op".into() };
            let op = match t[7] {
                "lt" => FactorizedCompareOp::Lt,
                "le" => FactorizedCompareOp::Le,
                "gt" => FactorizedCompareOp::Gt,
                "ge" => FactorizedCompareOp::Ge,
                "eq" => FactorizedCompareOp::Eq,
                "ne" => FactorizedCompareOp::Ne,
                _ => return "bad-op".into(),
            };
            let Ok(k) = t[8].parse::<i64>() else { return "bad-op".into() };
            let mat = match t[9] {
                "0" => false,
                "1" => true,
                _ => return "bad-op".into(),
            };
            guarded(|| {
                let pred = ColumnPredicate::new(level, col, op, Value::Int64(k));
                let mut f = FactorizedFilterOperator::new(lazy(&g), Box::new(pred)).materialize(mat);
                let mut out = Vec::new();
                loop {
                    match f.next_factorized() {
                        Err(_) => return "err".to_string(),
                        Ok(None) => break,
                        Ok(Some(c)) => {
                            out.push(chunk_str(&c));
                        }
                    }
                    if out.len() > 4 {
                        break;
                    }
                }
                if out.is_empty() { "none".to_string() } else { out.join(" ++ ") }
            })
        }
        _ => "bad-op".to_string(),
    }
}

/// avg = sum / logical_row_count computed in f64: printed as that (reduced) fraction when the bits
/// agree with the hardware division of the two integers the implementation itself reported
fn avg_str(avg: &Value, sum: &Value, count: usize) -> String {
    match avg {
        Value::Null => "~".to_string(),
        Value::Float64(a) => {
            if let Value::Float64(s) = sum {
                if s.is_finite() && s.fract() == 0.0 && s.abs() < 9007199254740992.0 && count > 0 {
                    let q = *s / (count as f64);
                    if q.to_bits() == a.to_bits() {
                        return frac_str(*s as i64, count as u64);
                    }
                }
            }
            format!("bits:{:016x}", a.to_bits())
        }
        other => val_str(other),
    }
}

// ───────────────────────── generator ─────────────────────────

fn g_val(r: &mut Rng, nulls: bool) -> String {
    if nulls && r.chance(1, 6) { "~".to_string() } else { (r.range(0, 12) as i64 - 4).to_string() }
}

fn g_col(r: &mut Rng, n: usize, nulls: bool) -> String {
    if n == 0 {
        return "-".to_string();
    }
    (0..n).map(|_| g_val(r, nulls)).collect::<Vec<_>>().join(",")
}

/// a fan-out: 0, 1 or many
fn g_fan(r: &mut Rng, style: u64) -> usize {
    match style {
        0 => r.range(0, 3) as usize,
        1 => 1,
        2 => if r.chance(1, 2) { 0 } else { r.range(1, 4) as usize },
        _ => if r.chance(4, 5) { 0 } else { 2 },
    }
}

/// a well-formed chunk description: `levels` levels, the first flat (or built by add_level on the empty chunk)
fn g_chunk(r: &mut Rng, stats: &mut Stats) -> String {
    if r.chance(1, 40) {
        return "E".to_string();
    }
    let levels = r.range(1, 4) as usize;
    let nulls = r.chance(1, 2);
    let style = r.below(4);
    let n0 = if r.chance(1, 12) { 0 } else { r.range(1, 4) as usize };
    let mut out = Vec::new();
    let k0 = r.range(1, 2) as usize;
    let first_by_add = r.chance(1, 8);
    let mut prev = n0;
    if first_by_add {
        // add_level on the empty chunk: offsets over `p` pseudo parents
        let p = r.range(0, 3) as usize;
        let mut offs = vec![0u32];
        for _ in 0..p {
            let f = g_fan(r, style) as u32;
            offs.push(offs.last().unwrap() + f);
        }
        prev = *offs.last().unwrap() as usize;
        let cols: Vec<String> = (0..k0).map(|_| g_col(r, prev, nulls)).collect();
        out.push(format!("{};{}", join(&offs), cols.join(";")));
    } else {
        let cols: Vec<String> = (0..k0).map(|_| g_col(r, n0, nulls)).collect();
        out.push(format!("-;{}", cols.join(";")));
    }
    for _ in 1..levels {
        let mut offs = vec![0u32];
        for _ in 0..prev {
            let f = g_fan(r, style) as u32;
            if f == 0 {
                stats.fan0 += 1;
            } else if f == 1 {
                stats.fan1 += 1;
            } else {
                stats.fanm += 1;
            }
            offs.push(offs.last().unwrap() + f);
        }
        let n = *offs.last().unwrap() as usize;
        let k = r.range(1, 2) as usize;
        let cols: Vec<String> = (0..k).map(|_| g_col(r, n, nulls)).collect();
        out.push(format!("{};{}", join(&offs), cols.join(";")));
        prev = n;
    }
    stats.levels[levels.min(4)] += 1;
    out.join("/")
}

/// damage a well-formed description: wrong offsets (panics or parent-count mismatches)
fn g_damage(r: &mut Rng, s: &str) -> String {
    let mut levels: Vec<String> = s.split('/').map(|x| x.to_string()).collect();
    if levels.len() < 2 || s == "E" {
        return s.to_string();
    }
    let i = r.range(1, levels.len() as u64 - 1) as usize;
    let parts: Vec<String> = levels[i].split(';').map(|x| x.to_string()).collect();
    let mut offs: Vec<u32> = p_nats(&parts[0]).unwrap_or_default();
    match r.below(5) {
        0 => {
            offs.pop();
        }
        1 => {
            let l = *offs.last().unwrap_or(&0);
            offs.push(l);
        }
        2 => {
            if let Some(l) = offs.last_mut() {
                *l += 1;
            }
        }
        3 => {
            if offs.len() > 1 {
                offs.swap(0, 1);
            }
        }
        _ => {
            offs.clear();
        }
    }
    let o = if offs.is_empty() { "-".to_string() } else { join(&offs) };
    levels[i] = format!("{};{}", o, parts[1..].join(";"));
    levels.join("/")
}

fn g_pred(r: &mut Rng) -> String {
    match r.below(9) {
        0 => "null".to_string(),
        1 => "notnull".to_string(),
        2 => "all".to_string(),
        3 => format!("lt:{}", r.range(0, 10) as i64 - 3),
        4 => format!("le:{}", r.range(0, 10) as i64 - 3),
        5 => format!("gt:{}", r.range(0, 10) as i64 - 3),
        6 => format!("ge:{}", r.range(0, 10) as i64 - 3),
        7 => format!("eq:{}", r.range(0, 10) as i64 - 3),
        _ => format!("ne:{}", r.range(0, 10) as i64 - 3),
    }
}

fn g_graph(r: &mut Rng) -> String {
    let n = r.range(1, 6) as usize;
    let dens = r.below(4);
    let m = match dens {
        0 => 0,
        1 => r.range(1, 3),
        2 => r.range(3, 8),
        _ => r.range(6, 14),
    } as usize;
    let edges: Vec<String> = (0..m).map(|_| format!("{}>{}", r.below(n as u64), r.below(n as u64))).collect();
    let ns = if r.chance(1, 12) { 0 } else { r.range(1, 4) as usize };
    let srcs: Vec<String> = (0..ns)
        .map(|_| {
            if r.chance(1, 25) {
                "~".to_string()
            } else if r.chance(1, 15) {
                (n as u64 + r.below(3)).to_string()
            } else {
                r.below(n as u64).to_string()
            }
        })
        .collect();
    format!(
        "{} {} {}",
        n,
        if edges.is_empty() { "-".to_string() } else { edges.join(",") },
        if srcs.is_empty() { "-".to_string() } else { srcs.join(",") }
    )
}

#[derive(Default)]
struct Stats {
    fan0: usize,
    fan1: usize,
    fanm: usize,
    levels: [usize; 5],
    ops: std::collections::BTreeMap<&'static str, usize>,
}

pub fn generate(seed: u64, cases: usize, out: &mut Vec<String>) {
    let mut r = Rng::new(seed ^ 0xFAC7_0123_4567_89AB);
    let mut stats = Stats::default();
    out.push(format!("# case 0 seed {}", seed));
    for l in BOUNDARY {
        out.push(format!("fact {}", l));
    }
    for case in 1..=cases {
        out.push(format!("# case {} seed {}", case, seed));
        let lines = r.range(4, 8);
        for _ in 0..lines {
            let pick = r.below(100);
            let line = if pick < 14 {
                *stats.ops.entry("flatten").or_default() += 1;
                format!("flatten {}", g_chunk(&mut r, &mut stats))
            } else if pick < 26 {
                *stats.ops.entry("iter").or_default() += 1;
                format!("iter {}", g_chunk(&mut r, &mut stats))
            } else if pick < 40 {
                *stats.ops.entry("agg").or_default() += 1;
                let c = g_chunk(&mut r, &mut stats);
                let ci = if r.chance(1, 10) { 2 } else { r.below(2) };
                format!("agg {} {}", c, ci)
            } else if pick < 54 {
                let op = if r.chance(1, 3) { "filtm" } else { "filt" };
                *stats.ops.entry(op).or_default() += 1;
                let c = g_chunk(&mut r, &mut stats);
                let ci = if r.chance(1, 12) { 2 } else { r.below(2) };
                format!("{} {} {} {}", op, c, ci, g_pred(&mut r))
            } else if pick < 60 {
                // damaged descriptions
                *stats.ops.entry("damaged").or_default() += 1;
                let c = g_chunk(&mut r, &mut stats);
                let d = g_damage(&mut r, &c);
                match r.below(4) {
                    0 => format!("flatten {}", d),
                    1 => format!("iter {}", d),
                    2 => format!("agg {} 0", d),
                    _ => format!("filt {} 0 {}", d, g_pred(&mut r)),
                }
            } else if pick < 70 {
                *stats.ops.entry("chain").or_default() += 1;
                format!("chain {} {}", g_graph(&mut r), r.range(1, 4))
            } else if pick < 76 {
                *stats.ops.entry("chainflat").or_default() += 1;
                format!("chainflat {} {}", g_graph(&mut r), r.range(1, 3))
            } else if pick < 84 {
                *stats.ops.entry("chainagg").or_default() += 1;
                format!("chainagg {} {}", g_graph(&mut r), r.range(1, 4))
            } else if pick < 89 {
                *stats.ops.entry("expand1").or_default() += 1;
                format!("expand1 {}", g_graph(&mut r))
            } else if pick < 92 {
                *stats.ops.entry("qcase").or_default() += 1;
                let n = r.range(1, 5) as usize;
                let m = r.range(0, 8) as usize;
                let edges: Vec<String> = (0..m).map(|_| format!("{}>{}", r.below(n as u64), r.below(n as u64))).collect();
                let stored = *r.pick(&["T0", "t0", "Kn", "KNOWS"]);
                let q = *r.pick(&["T0", "t0", "KN", "kn", "Kn", "knows", "KNOWS", "X"]);
                format!(
                    "qcase {} {} {} {} {} {} {}",
                    n,
                    if edges.is_empty() { "-".to_string() } else { edges.join(",") },
                    stored,
                    q,
                    r.range(1, 3),
                    r.below(2),
                    if r.chance(1, 3) { "count" } else { "rows" }
                )
            } else if pick < 96 {
                *stats.ops.entry("chainfilt").or_default() += 1;
                let hops = r.range(1, 3);
                let level = if r.chance(1, 10) { hops + 1 } else { r.range(0, hops) };
                let col = if r.chance(1, 10) { 2 } else { r.below(2) };
                let op = *r.pick(&["lt", "le", "gt", "ge", "eq", "ne"]);
                format!("chainfilt {} {} {} {} {} {} {}", g_graph(&mut r), hops, level, col, op, r.below(8), r.below(2))
            } else {
                *stats.ops.entry("malformed").or_default() += 1;
                (*r.pick(MALFORMED)).to_string()
            };
            out.push(format!("fact {}", line));
        }
    }
    if std::env::var("VH_STATS").is_ok() {
        eprintln!(
            "fact stats: fan-out 0/1/many = {}/{}/{}; chunks with 1/2/3/4 levels = {}/{}/{}/{}; ops = {:?}",
            stats.fan0, stats.fan1, stats.fanm, stats.levels[1], stats.levels[2], stats.levels[3], stats.levels[4], stats.ops
        );
    }
}

const MALFORMED: &[&str] = &[
    "flatten",
    "flatten -",
    "flatten -;1,2/-;3",
    "flatten -;1,2;3",
    "flatten 0;1",
    "iter -;x",
    "agg -;1,2",
    "agg -;1,2 x",
    "filt -;1,2 0 between:1",
    "filt -;1,2 0 lt:",
    "filtm -;1,2 5 all",
    "chain 2 0>1 0",
    "chain 2 0>5 0 1",
    "chain 2 0>1 0 0",
    "chainagg 2 0-1 0 1",
    "chainfilt 2 0>1 0 1 1 1 zz 1 0",
    "nope 1",
];

const BOUNDARY: &[&str] = &[
    "flatten E",
    "iter E",
    "agg E 0",
    "filt E 0 all",
    "flatten -;-",
    "iter -;-",
    "agg -;- 0",
    "flatten -;1,2,3",
    "flatten -;1,2;~,5",
    "iter -;1,2,3",
    "flatten -;1,2/0,2,3;10,11,12",
    "iter -;1,2/0,2,3;10,11,12",
    "flatten -;1,2/0,0,0;-",
    "iter -;1,2/0,0,0;-",
    "flatten -;1,2,3/0,0,2,2;7,8",
    "iter -;1,2,3/0,0,2,2;7,8",
    "flatten -;1,2/0,1,2;5,6/0,0,2;8,9",
    "iter -;1,2/0,1,2;5,6/0,0,2;8,9",
    "iter -;1,2/0,1,2;5,6/0,2,2;8,9",
    "iter -;1,2,3/0,1,1,2;5,6/0,1,3;7,8,9/0,0,1,1;4",
    "flatten -;1,2,3/0,1,1,2;5,6/0,1,3;7,8,9/0,0,1,1;4",
    "flatten 0,2,3;10,11,12",
    "iter 0,2,3;10,11,12",
    "flatten 0;-",
    "flatten -;1,2/0,2;10,11",
    "iter -;1,2/0,2;10,11",
    "flatten -;1/0,1,2,3;10,11,12",
    "flatten -;1,2/0,2,1;10",
    "flatten -;1,2/0,2,3;10,11",
    "flatten -;1,2/-;10,11",
    "agg -;1,2,3 0",
    "agg -;1,~,3 0",
    "agg -;~,~ 0",
    "agg -;1,2/0,2,3;10,~,12 0",
    "agg -;1,2/0,2,3;~,~,~ 0",
    "agg -;1,2/0,2,3;10,11,12;3,2,1 1",
    "agg -;1,2/0,2,3;10,11,12 4",
    "filt -;1,2,3 0 gt:1",
    "filt -;1,2,3 0 gt:9",
    "filt -;1,2/0,2,3;10,11,12 0 ge:11",
    "filt -;1,2/0,2,3;10,11,12 0 lt:11",
    "filt -;1,2/0,2,3;10,11,12 0 lt:0",
    "filt -;1,2/0,2,3;10,~,12 0 null",
    "filtm -;1,2/0,2,3;10,11,12;1,2,3 1 ge:2",
    "filt -;1,2/0,2,3;10,11,12 3 all",
    "chain 3 0>1,1>2,0>2 0 1",
    "chain 3 0>1,1>2,0>2 0 2",
    "chain 3 0>1,1>2,0>2 0 3",
    "chain 3 0>1,1>2,0>2 0,1,2 2",
    "chain 3 - 0,1 1",
    "chain 3 0>1 - 1",
    "chain 3 0>1 ~ 1",
    "chain 3 0>1 0,7 1",
    "chainflat 3 0>1,1>2,0>2 0 2",
    "chainflat 3 - 0,1 1",
    "expand1 3 0>1,1>2,0>2 0,1,2",
    "expand1 3 - 0,1",
    "chainagg 3 0>1,1>2,0>2 0 2",
    "chainagg 3 - 0 1",
    "chainagg 3 0>1 0 2",
    "chainfilt 3 0>1,1>2,0>2 0,1 1 1 1 ge 2 0",
    "chainfilt 3 0>1,1>2,0>2 0,1 1 1 1 ge 2 1",
    "chainfilt 3 0>1,1>2,0>2 0,1 2 1 1 ge 2 1",
    "chainfilt 3 0>1,1>2,0>2 0,1 1 1 1 ge 9 0",
    "chainfilt 3 0>1,1>2,0>2 0,1 1 0 0 eq 1 0",
    "qcase 3 0>1,1>2 T0 T0 2 1 rows",
    "qcase 3 0>1,1>2 T0 T0 2 0 rows",
    "qcase 3 0>1,1>2 T0 t0 2 1 rows",
    "qcase 3 0>1,1>2 T0 t0 2 0 rows",
    "qcase 3 0>1,1>2 T0 t0 1 1 rows",
    "qcase 3 0>1,1>2 T0 t0 2 1 count",
    "qcase 3 0>1,1>2 T0 t0 2 0 count",
    "qcase 3 0>1,1>2 T0 X 2 1 rows",
];
