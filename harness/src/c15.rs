//! C15 — codecs. `gen` emits op lines; `run` executes one op line against the real code.
use crate::util::*;
use grafeo_core::storage::{
    BitPackedInts, DeltaBitPacked, DeltaEncoding, RunLengthEncoding, SignedRunLengthEncoding,
};
use grafeo_core::storage::delta::{zigzag_decode, zigzag_encode};

fn gen_u64_seq(r: &mut Rng) -> Vec<u64> {
    let len = match r.below(10) {
        0 => 0,
        1 => 1,
        2 => r.range(2, 3),
        3 => r.range(62, 66),
        4 => r.range(127, 129),
        5 => r.range(1, 20),
        6 => r.range(1, 20),
        7 => r.range(20, 70),
        8 => r.range(1, 8),
        _ => r.range(1, 40),
    } as usize;
    let width = r.range(0, 64) as u32;
    let kind = r.below(8);
    let mut v = Vec::with_capacity(len);
    let mut cur: u64 = if width == 0 { 0 } else { r.next() >> (64 - width.max(1)) };
    for i in 0..len {
        let x = match kind {
            0 => cur, // all equal
            1 => {
                // increasing
                let sh = r.below(20); let step = r.below(1 << sh);
                cur = cur.saturating_add(step);
                cur
            }
            2 => *r.pick(&[0u64, 1, u64::MAX, u64::MAX - 1, 1 << 63, (1 << 63) - 1, 1 << 32]),
            3 => {
                // runs
                if r.chance(1, 4) {
                    cur = r.below(5);
                }
                cur
            }
            4 => {
                if width == 0 { 0 } else { r.next() >> (64 - width) }
            }
            5 => i as u64,
            6 => {
                // exact width: top bit set
                if width == 0 { 0 } else { (r.next() >> (64 - width)) | (1u64 << (width - 1)) }
            }
            _ => r.below(16),
        };
        v.push(x);
    }
    v
}

fn gen_i64_seq(r: &mut Rng) -> Vec<i64> {
    let len = match r.below(6) {
        0 => 0,
        1 => 1,
        2 => r.range(2, 4),
        3 => r.range(62, 66),
        _ => r.range(1, 30),
    } as usize;
    let kind = r.below(5);
    let mut cur = r.next() as i64 >> r.below(64);
    (0..len)
        .map(|_| match kind {
            0 => *r.pick(&[i64::MIN, i64::MAX, 0, -1, 1, i64::MIN + 1, i64::MAX - 1]),
            1 => {
                cur = cur.wrapping_add((r.below(200) as i64) - 100);
                cur
            }
            2 => r.next() as i64,
            3 => {
                if r.chance(1, 3) {
                    cur = (r.below(7) as i64) - 3;
                }
                cur
            }
            _ => (r.below(1000) as i64) - 500,
        })
        .collect()
}

pub fn generate(seed: u64, cases: usize, out: &mut Vec<String>) {
    let mut r = Rng::new(seed);
    // fixed edge cases first
    let fixed: Vec<Vec<u64>> = vec![
        vec![],
        vec![0],
        vec![1],
        vec![u64::MAX],
        vec![0, 0],
        vec![0, u64::MAX],
        vec![u64::MAX, u64::MAX],
        (0..65).collect(),
        (0..64).map(|i| 1u64 << i).collect(),
    ];
    let mut n = 0usize;
    let mut emit_u = |xs: &Vec<u64>, r: &mut Rng, out: &mut Vec<String>| {
        let l = list_arg(xs);
        let mut sorted = xs.clone();
        sorted.sort_unstable();
        let ls = list_arg(&sorted);
        out.push(format!("# case {} seed {}", n, seed));
        n += 1;
        for op in ["pack.enc", "pack.dec", "pack.bytes", "pack.rt", "rle.enc", "rle.dec", "rle.rt", "rle.bytes"] {
            out.push(format!("c15 {} {}", op, l));
        }
        for op in ["delta.enc", "delta.dec", "delta.bytes", "delta.rt", "dbp.enc", "dbp.dec", "dbp.rt"] {
            out.push(format!("c15 {} {}", op, ls));
        }
        let mut idx: Vec<u64> = vec![0, xs.len() as u64, xs.len() as u64 + 1];
        if !xs.is_empty() {
            idx.push(xs.len() as u64 - 1);
            for _ in 0..3 {
                idx.push(r.below(xs.len() as u64));
            }
        }
        idx.sort_unstable();
        idx.dedup();
        for i in idx {
            out.push(format!("c15 pack.get {} {}", l, i));
            out.push(format!("c15 rle.get {} {}", l, i));
        }
    };
    for xs in &fixed {
        emit_u(xs, &mut r, out);
    }
    for _ in 0..cases {
        let xs = gen_u64_seq(&mut r);
        emit_u(&xs, &mut r, out);
        let ys = gen_i64_seq(&mut r);
        let l = list_arg(&ys);
        out.push(format!("c15 sdelta.enc {}", l));
        out.push(format!("c15 sdelta.dec {}", l));
        out.push(format!("c15 srle.dec {}", l));
        for y in ys.iter().take(3) {
            out.push(format!("c15 zz.enc {}", y));
            out.push(format!("c15 zz.dec {}", y));
        }
        // arbitrary-bytes stream for from_bytes (outside the round-trip statement; ties the model)
        if r.chance(1, 4) {
            let len = r.below(40) as usize;
            let mut bs: Vec<u8> = (0..len).map(|_| r.next() as u8).collect();
            if len > 0 && r.chance(1, 2) {
                bs[0] = r.below(70) as u8;
            }
            if len > 4 && r.chance(2, 3) {
                bs[1] = r.below(6) as u8;
                bs[2] = 0;
                bs[3] = 0;
                bs[4] = 0;
            }
            out.push(format!("c15 pack.fb {}", if bs.is_empty() { "-".into() } else { hex(&bs) }));
            let mut bs2: Vec<u8> = (0..r.below(60) as usize).map(|_| r.next() as u8).collect();
            if bs2.len() > 11 {
                bs2[8] = r.below(6) as u8;
                bs2[9] = 0;
                bs2[10] = 0;
                bs2[11] = 0;
            }
            out.push(format!("c15 delta.fb {}", if bs2.is_empty() { "-".into() } else { hex(&bs2) }));
        }
    }
    for v in [i64::MIN, i64::MAX, 0, -1, 1] {
        out.push(format!("c15 zz.enc {}", v));
        out.push(format!("c15 zz.dec {}", v));
    }
    out.push("c15 sdelta.dec -9223372036854775808,9223372036854775807".into());
    out.push("c15 sdelta.dec 9223372036854775807,-9223372036854775808,0".into());
}

fn packed_str(p: &BitPackedInts) -> String {
    format!("{};{};{}", p.bits_per_value(), p.len(), join(p.data()))
}

fn ok_list<T: ToString>(xs: &[T]) -> String {
    format!("ok:{}", join(xs))
}

fn opt(v: Option<u64>) -> String {
    match v {
        Some(x) => format!("ok:{}", x),
        None => "none".into(),
    }
}

pub fn run(args: &[&str]) -> String {
    let a = args.to_vec();
    guarded(move || match a.as_slice() {
        ["zz.enc", v] => format!("{}", zigzag_encode(v.parse::<i64>().unwrap())),
        ["zz.dec", v] => format!("{}", zigzag_decode(zigzag_encode(v.parse::<i64>().unwrap()))),
        ["sdelta.enc", l] => {
            let xs = parse_i64s(l).unwrap();
            let e = DeltaEncoding::encode_signed(&xs);
            format!("{};{};{}", e.base(), e.len(), join(e.deltas()))
        }
        ["sdelta.dec", l] => {
            let xs = parse_i64s(l).unwrap();
            ok_list(&DeltaEncoding::encode_signed(&xs).decode_signed())
        }
        ["delta.enc", l] => {
            let xs = parse_u64s(l).unwrap();
            let e = DeltaEncoding::encode(&xs);
            format!("{};{};{}", e.base(), e.len(), join(e.deltas()))
        }
        ["delta.dec", l] => ok_list(&DeltaEncoding::encode(&parse_u64s(l).unwrap()).decode()),
        ["delta.bytes", l] => hex(&DeltaEncoding::encode(&parse_u64s(l).unwrap()).to_bytes()),
        ["delta.rt", l] => {
            let e = DeltaEncoding::encode(&parse_u64s(l).unwrap());
            match DeltaEncoding::from_bytes(&e.to_bytes()) {
                Ok(e2) => ok_list(&e2.decode()),
                Err(_) => "err".into(),
            }
        }
        ["delta.fb", h] => match DeltaEncoding::from_bytes(&unhex(h).unwrap()) {
            Ok(e) => format!("ok:{};{};{}", e.base(), e.len(), join(e.deltas())),
            Err(_) => "err".into(),
        },
        ["pack.enc", l] => packed_str(&BitPackedInts::pack(&parse_u64s(l).unwrap())),
        ["pack.dec", l] => ok_list(&BitPackedInts::pack(&parse_u64s(l).unwrap()).unpack()),
        ["pack.get", l, i] => opt(BitPackedInts::pack(&parse_u64s(l).unwrap()).get(i.parse().unwrap())),
        ["pack.bytes", l] => hex(&BitPackedInts::pack(&parse_u64s(l).unwrap()).to_bytes()),
        ["pack.rt", l] => {
            let p = BitPackedInts::pack(&parse_u64s(l).unwrap());
            match BitPackedInts::from_bytes(&p.to_bytes()) {
                Ok(p2) => ok_list(&p2.unpack()),
                Err(_) => "err".into(),
            }
        }
        ["pack.fb", h] => match BitPackedInts::from_bytes(&unhex(h).unwrap()) {
            Ok(p) => format!("ok:{}", packed_str(&p)),
            Err(_) => "err".into(),
        },
        ["dbp.enc", l] => {
            let xs = parse_u64s(l).unwrap();
            let e = DeltaBitPacked::encode(&xs);
            // the packed deltas are not exposed; re-derive them the way `encode` does
            let ds: Vec<u64> = xs.windows(2).map(|w| w[1].saturating_sub(w[0])).collect();
            let p = if ds.is_empty() && !xs.is_empty() {
                BitPackedInts::pack_with_bits(&[], 1)
            } else {
                BitPackedInts::pack(&ds)
            };
            assert_eq!(p.bits_per_value(), e.bits_per_delta());
            format!("{};{}", e.base(), packed_str(&p))
        }
        ["dbp.dec", l] => {
            let e = DeltaBitPacked::encode(&parse_u64s(l).unwrap());
            format!("{};{}", ok_list(&e.decode()), e.len())
        }
        ["dbp.rt", l] => {
            let e = DeltaBitPacked::encode(&parse_u64s(l).unwrap());
            match DeltaBitPacked::from_bytes(&e.to_bytes()) {
                Ok(e2) => ok_list(&e2.decode()),
                Err(_) => "err".into(),
            }
        }
        ["rle.enc", l] => {
            let e = RunLengthEncoding::encode(&parse_u64s(l).unwrap());
            let runs: Vec<String> = e.runs().iter().map(|r| format!("{}x{}", r.value, r.length)).collect();
            format!("{};{}", e.total_count(), runs.join(","))
        }
        ["rle.dec", l] => {
            let e = RunLengthEncoding::encode(&parse_u64s(l).unwrap());
            // decode() and the iterator must agree; report the iterator's view if they differ
            let d = e.decode();
            let it: Vec<u64> = e.iter().collect();
            if d == it { ok_list(&d) } else { format!("iter-differs:{}|{}", join(&d), join(&it)) }
        }
        ["rle.get", l, i] => opt(RunLengthEncoding::encode(&parse_u64s(l).unwrap()).get(i.parse().unwrap())),
        ["rle.bytes", l] => hex(&RunLengthEncoding::encode(&parse_u64s(l).unwrap()).to_bytes()),
        ["rle.rt", l] => {
            let e = RunLengthEncoding::encode(&parse_u64s(l).unwrap());
            match RunLengthEncoding::from_bytes(&e.to_bytes()) {
                Ok(e2) => format!("ok:{};{}", join(&e2.decode()), e2.total_count()),
                Err(_) => "err".into(),
            }
        }
        ["srle.dec", l] => {
            let xs = parse_i64s(l).unwrap();
            let e = SignedRunLengthEncoding::encode(&xs);
            let e2 = SignedRunLengthEncoding::from_bytes(&e.to_bytes()).unwrap();
            assert_eq!(e.decode(), e2.decode());
            ok_list(&e.decode())
        }
        _ => "bad-op".into(),
    })
}
