//! Stream `plan` — the logical optimizer as a plan-to-plan function (C09).
//!
//! Every op line carries a logical plan *before* optimisation as an s-expression (an explicit walk
//! over the public `LogicalOperator` / `LogicalExpression` enums, never the `Debug` text) and the
//! implementation's answer is the serialised plan *after* one optimizer pass:
//!
//!   plan pushdown  <src> <sexpr>                filter push-down only
//!   plan projdown  <src> <sexpr>                projection push-down only
//!   plan joinorder <src> <stats> <sexpr> => <sexpr'>   join reordering only; the reordered plan is in
//!                                               the line (computed at generation time); the run
//!                                               answers `ok` when the optimizer produces it again
//!   plan rows <nodes> <edges> <mask> <src> <sexpr>     the query executed with the switch set `mask`
//!
//! `<src>` is `gql:<hex text>` / `cypher:<hex text>` (the plan is re-derived from the text by the
//! real translator + binder at run time and must serialise to the s-expression in the line) or `sx`
//! (the plan is rebuilt from the s-expression: hand-written corpus plans and structural fuzzing).
//! Operators outside the modelled algebra serialise as `(other <Name> <fingerprint> <cols>)` leaves;
//! the fingerprint is a hash of the subtree's `Debug` text (hashed, never parsed), so a rewrite
//! *inside* such a subtree is still visible as a textual difference; `<cols>` are the output column
//! names where the harness knows them (`LeftJoin`, `Unwind`, `Empty`), `?` otherwise.
//!
//! Generator: per case 2 queries of the C08 core grammar (both languages) + 4 texts of shapes that
//! produce Joins / chained scans / WITH pipelines / OPTIONAL MATCH / named variable-length paths /
//! UNWIND / EXISTS / WHERE after RETURN, each through the real translator + binder; + 4 random trees
//! over the modelled algebra (any join type, any expression kind) and 2 join trees with conditions
//! rebuilt through the public plan structs (`sx`).
#![allow(unused)]
use crate::q::*;
use crate::util::*;
use grafeo_common::types::Value;
use grafeo_engine::query::optimizer::{CardinalityEstimator, TableStats};
use grafeo_engine::query::plan::*;
use grafeo_engine::query::{Executor, Optimizer, Planner, binder::Binder, translate_cypher, translate_gql};
use grafeo_engine::transaction::TransactionManager;
use std::sync::Arc;

// ------------------------------------------------------------------ atoms

fn atom(s: &str) -> String {
    if !s.is_empty() && s.chars().all(|c| c.is_ascii_alphanumeric() || "_.*:-".contains(c)) {
        s.to_string()
    } else {
        format!("%{}", hex(s.as_bytes()))
    }
}
fn unatom(s: &str) -> String {
    match s.strip_prefix('%') {
        Some(h) => String::from_utf8(unhex(h).unwrap_or_default()).unwrap_or_default(),
        None => s.to_string(),
    }
}
fn opt_atom(s: &Option<String>) -> String {
    match s {
        Some(s) => atom(s),
        None => "~".into(),
    }
}

fn fnv(s: &str) -> String {
    let mut h: u64 = 0xcbf29ce484222325;
    for b in s.bytes() {
        h ^= b as u64;
        h = h.wrapping_mul(0x100000001b3);
    }
    format!("{:016x}", h)
}

// ------------------------------------------------------------------ serialiser

fn bin_name(op: BinaryOp) -> &'static str {
    match op {
        BinaryOp::Eq => "eq",
        BinaryOp::Ne => "ne",
        BinaryOp::Lt => "lt",
        BinaryOp::Le => "le",
        BinaryOp::Gt => "gt",
        BinaryOp::Ge => "ge",
        BinaryOp::And => "and",
        BinaryOp::Or => "or",
        BinaryOp::Xor => "xor",
        BinaryOp::Add => "add",
        BinaryOp::Sub => "sub",
        BinaryOp::Mul => "mul",
        BinaryOp::Div => "div",
        BinaryOp::Mod => "mod",
        BinaryOp::Concat => "concat",
        BinaryOp::StartsWith => "startswith",
        BinaryOp::EndsWith => "endswith",
        BinaryOp::Contains => "contains",
        BinaryOp::In => "in",
        BinaryOp::Like => "like",
        BinaryOp::Regex => "regex",
        BinaryOp::Pow => "pow",
    }
}
const BIN_OPS: [BinaryOp; 22] = [
    BinaryOp::Eq,
    BinaryOp::Ne,
    BinaryOp::Lt,
    BinaryOp::Le,
    BinaryOp::Gt,
    BinaryOp::Ge,
    BinaryOp::And,
    BinaryOp::Or,
    BinaryOp::Xor,
    BinaryOp::Add,
    BinaryOp::Sub,
    BinaryOp::Mul,
    BinaryOp::Div,
    BinaryOp::Mod,
    BinaryOp::Concat,
    BinaryOp::StartsWith,
    BinaryOp::EndsWith,
    BinaryOp::Contains,
    BinaryOp::In,
    BinaryOp::Like,
    BinaryOp::Regex,
    BinaryOp::Pow,
];
fn un_name(op: UnaryOp) -> &'static str {
    match op {
        UnaryOp::Not => "not",
        UnaryOp::Neg => "neg",
        UnaryOp::IsNull => "isnull",
        UnaryOp::IsNotNull => "isnotnull",
    }
}
const UN_OPS: [UnaryOp; 4] = [UnaryOp::Not, UnaryOp::Neg, UnaryOp::IsNull, UnaryOp::IsNotNull];

fn lit_tok(v: &Value) -> String {
    crate::vals::tok(v)
}

pub fn ser_expr(e: &LogicalExpression) -> String {
    use LogicalExpression as E;
    let many = |tag: &str, meta: Vec<String>, args: Vec<&LogicalExpression>| {
        let mut s = format!("(n {} ({})", tag, meta.join(" "));
        for a in args {
            s.push(' ');
            s += &ser_expr(a);
        }
        s.push(')');
        s
    };
    match e {
        E::Literal(v) => format!("(lit {})", lit_tok(v)),
        E::Variable(x) => format!("(var {})", atom(x)),
        E::Property { variable, property } => format!("(prop {} {})", atom(variable), atom(property)),
        E::Binary { left, op, right } => format!("(bin {} {} {})", bin_name(*op), ser_expr(left), ser_expr(right)),
        E::Unary { op, operand } => format!("(un {} {})", un_name(*op), ser_expr(operand)),
        E::FunctionCall { name, args, distinct } => many("fn", vec![atom(name), if *distinct { "1".into() } else { "0".into() }], args.iter().collect()),
        E::List(items) => many("list", vec![], items.iter().collect()),
        E::Map(pairs) => many("map", pairs.iter().map(|(k, _)| atom(k)).collect(), pairs.iter().map(|(_, v)| v).collect()),
        E::IndexAccess { base, index } => many("idx", vec![], vec![base, index]),
        E::SliceAccess { base, start, end } => {
            let mut args: Vec<&LogicalExpression> = vec![base];
            if let Some(s) = start {
                args.push(s);
            }
            if let Some(e) = end {
                args.push(e);
            }
            many("slice", vec![if start.is_some() { "1".into() } else { "0".into() }, if end.is_some() { "1".into() } else { "0".into() }], args)
        }
        E::Case { operand, when_clauses, else_clause } => {
            let mut args: Vec<&LogicalExpression> = vec![];
            if let Some(o) = operand {
                args.push(o);
            }
            for (c, r) in when_clauses {
                args.push(c);
                args.push(r);
            }
            if let Some(e) = else_clause {
                args.push(e);
            }
            many(
                "case",
                vec![if operand.is_some() { "1".into() } else { "0".into() }, when_clauses.len().to_string(), if else_clause.is_some() { "1".into() } else { "0".into() }],
                args,
            )
        }
        E::Parameter(x) => format!("(o param {})", atom(x)),
        E::Labels(x) => format!("(vf labels {})", atom(x)),
        E::Type(x) => format!("(vf type {})", atom(x)),
        E::Id(x) => format!("(vf id {})", atom(x)),
        E::ListComprehension { variable, list_expr, filter_expr, map_expr } => {
            let mut args: Vec<&LogicalExpression> = vec![list_expr];
            if let Some(f) = filter_expr {
                args.push(f);
            }
            args.push(map_expr);
            many("lc", vec![atom(variable), if filter_expr.is_some() { "1".into() } else { "0".into() }], args)
        }
        E::ExistsSubquery(p) => format!("(o exists {})", fnv(&ser_op(p))),
        E::CountSubquery(p) => format!("(o countsub {})", fnv(&ser_op(p))),
    }
}

fn jt_name(t: JoinType) -> &'static str {
    match t {
        JoinType::Inner => "inner",
        JoinType::Left => "left",
        JoinType::Right => "right",
        JoinType::Full => "full",
        JoinType::Cross => "cross",
        JoinType::Semi => "semi",
        JoinType::Anti => "anti",
    }
}
const JOIN_TYPES: [JoinType; 7] = [JoinType::Inner, JoinType::Left, JoinType::Right, JoinType::Full, JoinType::Cross, JoinType::Semi, JoinType::Anti];

fn agg_name(f: AggregateFunction) -> &'static str {
    match f {
        AggregateFunction::Count => "count",
        AggregateFunction::CountNonNull => "countnn",
        AggregateFunction::Sum => "sum",
        AggregateFunction::Avg => "avg",
        AggregateFunction::Min => "min",
        AggregateFunction::Max => "max",
        AggregateFunction::Collect => "collect",
        AggregateFunction::StdDev => "stdev",
        AggregateFunction::StdDevPop => "stdevp",
        AggregateFunction::PercentileDisc => "pdisc",
        AggregateFunction::PercentileCont => "pcont",
    }
}
const AGG_FUNCS: [AggregateFunction; 11] = [
    AggregateFunction::Count,
    AggregateFunction::CountNonNull,
    AggregateFunction::Sum,
    AggregateFunction::Avg,
    AggregateFunction::Min,
    AggregateFunction::Max,
    AggregateFunction::Collect,
    AggregateFunction::StdDev,
    AggregateFunction::StdDevPop,
    AggregateFunction::PercentileDisc,
    AggregateFunction::PercentileCont,
];

fn op_name(op: &LogicalOperator) -> &'static str {
    use LogicalOperator as O;
    match op {
        O::NodeScan(_) => "NodeScan",
        O::EdgeScan(_) => "EdgeScan",
        O::Expand(_) => "Expand",
        O::Filter(_) => "Filter",
        O::Project(_) => "Project",
        O::Join(_) => "Join",
        O::Aggregate(_) => "Aggregate",
        O::Limit(_) => "Limit",
        O::Skip(_) => "Skip",
        O::Sort(_) => "Sort",
        O::Distinct(_) => "Distinct",
        O::CreateNode(_) => "CreateNode",
        O::CreateEdge(_) => "CreateEdge",
        O::DeleteNode(_) => "DeleteNode",
        O::DeleteEdge(_) => "DeleteEdge",
        O::SetProperty(_) => "SetProperty",
        O::AddLabel(_) => "AddLabel",
        O::RemoveLabel(_) => "RemoveLabel",
        O::Return(_) => "Return",
        O::Empty => "Empty",
        O::TripleScan(_) => "TripleScan",
        O::Union(_) => "Union",
        O::LeftJoin(_) => "LeftJoin",
        O::AntiJoin(_) => "AntiJoin",
        O::Bind(_) => "Bind",
        O::Unwind(_) => "Unwind",
        O::Merge(_) => "Merge",
        O::ShortestPath(_) => "ShortestPath",
        O::InsertTriple(_) => "InsertTriple",
        O::DeleteTriple(_) => "DeleteTriple",
        O::Modify(_) => "Modify",
        O::ClearGraph(_) => "ClearGraph",
        O::CreateGraph(_) => "CreateGraph",
        O::DropGraph(_) => "DropGraph",
        O::LoadGraph(_) => "LoadGraph",
        O::CopyGraph(_) => "CopyGraph",
        O::MoveGraph(_) => "MoveGraph",
        O::AddGraph(_) => "AddGraph",
        O::VectorScan(_) => "VectorScan",
        O::VectorJoin(_) => "VectorJoin",
    }
}

fn ser_items<'a, I: Iterator<Item = (&'a LogicalExpression, &'a Option<String>)>>(it: I) -> String {
    let v: Vec<String> = it.map(|(e, a)| format!("({} {})", ser_expr(e), opt_atom(a))).collect();
    format!("({})", v.join(" "))
}

pub fn ser_op(op: &LogicalOperator) -> String {
    use LogicalOperator as O;
    match op {
        O::NodeScan(s) => match &s.input {
            None => format!("(scan {} {})", atom(&s.variable), opt_atom(&s.label)),
            Some(i) => format!("(scanin {} {} {})", atom(&s.variable), opt_atom(&s.label), ser_op(i)),
        },
        O::Expand(e) => format!(
            "(expand {} {} {} {} {} {} {} {} {})",
            atom(&e.from_variable),
            atom(&e.to_variable),
            opt_atom(&e.edge_variable),
            match e.direction {
                ExpandDirection::Outgoing => "out",
                ExpandDirection::Incoming => "in",
                ExpandDirection::Both => "both",
            },
            opt_atom(&e.edge_type),
            e.min_hops,
            match e.max_hops {
                Some(m) => m.to_string(),
                None => "~".into(),
            },
            opt_atom(&e.path_alias),
            ser_op(&e.input)
        ),
        O::Filter(f) => format!("(filter {} {})", ser_expr(&f.predicate), ser_op(&f.input)),
        O::Project(p) => format!("(project {} {})", ser_items(p.projections.iter().map(|x| (&x.expression, &x.alias))), ser_op(&p.input)),
        O::Return(r) => format!("(return {} {} {})", if r.distinct { 1 } else { 0 }, ser_items(r.items.iter().map(|x| (&x.expression, &x.alias))), ser_op(&r.input)),
        O::Join(j) => {
            let cs: Vec<String> = j.conditions.iter().map(|c| format!("({} {})", ser_expr(&c.left), ser_expr(&c.right))).collect();
            format!("(join {} ({}) {} {})", jt_name(j.join_type), cs.join(" "), ser_op(&j.left), ser_op(&j.right))
        }
        O::Limit(l) => format!("(limit {} {})", l.count, ser_op(&l.input)),
        O::Skip(l) => format!("(skip {} {})", l.count, ser_op(&l.input)),
        O::Sort(s) => {
            let ks: Vec<String> = s.keys.iter().map(|k| format!("({} {})", ser_expr(&k.expression), if k.order == SortOrder::Ascending { "asc" } else { "desc" })).collect();
            format!("(sort ({}) {})", ks.join(" "), ser_op(&s.input))
        }
        O::Distinct(d) => format!(
            "(distinct {} {})",
            match &d.columns {
                None => "~".to_string(),
                Some(cs) => format!("({})", cs.iter().map(|c| atom(c)).collect::<Vec<_>>().join(" ")),
            },
            ser_op(&d.input)
        ),
        O::Aggregate(a) => {
            let gs: Vec<String> = a.group_by.iter().map(ser_expr).collect();
            let ags: Vec<String> = a
                .aggregates
                .iter()
                .map(|x| {
                    format!(
                        "({} {} {} {} {})",
                        agg_name(x.function),
                        if x.distinct { 1 } else { 0 },
                        match &x.expression {
                            Some(e) => ser_expr(e),
                            None => "~".into(),
                        },
                        opt_atom(&x.alias),
                        match x.percentile {
                            Some(p) => format!("{:016x}", p.to_bits()),
                            None => "~".into(),
                        }
                    )
                })
                .collect();
            format!(
                "(agg ({}) ({}) {} {})",
                gs.join(" "),
                ags.join(" "),
                match &a.having {
                    Some(h) => ser_expr(h),
                    None => "~".into(),
                },
                ser_op(&a.input)
            )
        }
        O::Empty => "(other Empty - ())".into(),
        other => format!(
            "(other {} {} {})",
            op_name(other),
            fnv(&format!("{:?}", other)),
            match columns(other) {
                Some(cs) => format!("({})", cs.iter().map(|c| atom(c)).collect::<Vec<_>>().join(" ")),
                None => "?".into(),
            }
        ),
    }
}

fn expr_name(e: &LogicalExpression) -> String {
    // planner.rs::expression_to_string, with the literal case kept injective
    match e {
        LogicalExpression::Variable(x) => x.clone(),
        LogicalExpression::Property { variable, property } => format!("{}.{}", variable, property),
        LogicalExpression::Literal(v) => format!("lit:{}", lit_tok(v)),
        LogicalExpression::FunctionCall { name, .. } => format!("{}(...)", name),
        _ => "expr".into(),
    }
}

/// output column names of an operator as `planner.rs` assigns them (anonymous edge columns left
/// out); `None` where the harness does not know. Used only to annotate unmodelled operators.
fn columns(op: &LogicalOperator) -> Option<Vec<String>> {
    use LogicalOperator as O;
    Some(match op {
        O::NodeScan(s) => {
            let mut v = match &s.input {
                Some(i) => columns(i)?,
                None => vec![],
            };
            v.push(s.variable.clone());
            v
        }
        O::Expand(e) => {
            let mut v = columns(&e.input)?;
            if let Some(ev) = &e.edge_variable {
                v.push(ev.clone());
            }
            v.push(e.to_variable.clone());
            if let Some(a) = &e.path_alias {
                v.push(format!("_path_length_{}", a));
            }
            v
        }
        O::Filter(f) => columns(&f.input)?,
        O::Limit(f) => columns(&f.input)?,
        O::Skip(f) => columns(&f.input)?,
        O::Sort(f) => columns(&f.input)?,
        O::Distinct(f) => columns(&f.input)?,
        O::Project(p) => p.projections.iter().map(|x| x.alias.clone().unwrap_or_else(|| expr_name(&x.expression))).collect(),
        O::Return(p) => p.items.iter().map(|x| x.alias.clone().unwrap_or_else(|| expr_name(&x.expression))).collect(),
        O::Join(j) => {
            let mut v = columns(&j.left)?;
            if !matches!(j.join_type, JoinType::Semi | JoinType::Anti) {
                v.extend(columns(&j.right)?);
            }
            v
        }
        O::LeftJoin(j) => {
            let mut v = columns(&j.left)?;
            v.extend(columns(&j.right)?);
            v
        }
        O::Unwind(u) => {
            let mut v = columns(&u.input)?;
            v.push(u.variable.clone());
            v
        }
        O::Aggregate(a) => {
            let mut v: Vec<String> = a.group_by.iter().map(expr_name).collect();
            v.extend(a.aggregates.iter().map(|x| x.alias.clone().unwrap_or_else(|| format!("{}(...)", agg_name(x.function)))));
            v
        }
        O::Empty => vec![],
        _ => return None,
    })
}

// ------------------------------------------------------------------ s-expression reader

#[derive(Debug, Clone)]
enum SX {
    A(String),
    L(Vec<SX>),
}

fn sx_parse(s: &str) -> Result<SX, String> {
    let toks: Vec<String> = s.replace('(', " ( ").replace(')', " ) ").split_whitespace().map(|t| t.to_string()).collect();
    let mut pos = 0;
    let r = sx_parse_at(&toks, &mut pos)?;
    if pos != toks.len() {
        return Err("trailing tokens".into());
    }
    Ok(r)
}
fn sx_parse_at(toks: &[String], pos: &mut usize) -> Result<SX, String> {
    if *pos >= toks.len() {
        return Err("eof".into());
    }
    let t = &toks[*pos];
    *pos += 1;
    if t == "(" {
        let mut v = vec![];
        loop {
            if *pos >= toks.len() {
                return Err("eof in list".into());
            }
            if toks[*pos] == ")" {
                *pos += 1;
                return Ok(SX::L(v));
            }
            v.push(sx_parse_at(toks, pos)?);
        }
    } else if t == ")" {
        Err("unexpected )".into())
    } else {
        Ok(SX::A(t.clone()))
    }
}

fn a(x: &SX) -> Result<&str, String> {
    match x {
        SX::A(s) => Ok(s),
        _ => Err("atom expected".into()),
    }
}
fn l(x: &SX) -> Result<&[SX], String> {
    match x {
        SX::L(v) => Ok(v),
        _ => Err("list expected".into()),
    }
}
fn name(x: &SX) -> Result<String, String> {
    Ok(unatom(a(x)?))
}
fn opt_name(x: &SX) -> Result<Option<String>, String> {
    let s = a(x)?;
    Ok(if s == "~" { None } else { Some(unatom(s)) })
}

fn de_expr(x: &SX) -> Result<LogicalExpression, String> {
    use LogicalExpression as E;
    let v = l(x)?;
    let head = a(v.first().ok_or("empty expr")?)?;
    let bx = |i: usize| -> Result<Box<LogicalExpression>, String> { Ok(Box::new(de_expr(v.get(i).ok_or("missing arg")?)?)) };
    match head {
        "lit" => {
            let t = a(&v[1])?;
            if t.starts_with('O') {
                return Err("literal kind cannot be rebuilt".into());
            }
            Ok(E::Literal(crate::vals::untok(t)))
        }
        "var" => Ok(E::Variable(name(&v[1])?)),
        "prop" => Ok(E::Property { variable: name(&v[1])?, property: name(&v[2])? }),
        "bin" => {
            let op = *BIN_OPS.iter().find(|o| bin_name(**o) == a(&v[1]).unwrap_or("")).ok_or("bin op")?;
            Ok(E::Binary { left: bx(2)?, op, right: bx(3)? })
        }
        "un" => {
            let op = *UN_OPS.iter().find(|o| un_name(**o) == a(&v[1]).unwrap_or("")).ok_or("un op")?;
            Ok(E::Unary { op, operand: bx(2)? })
        }
        "vf" => {
            let x = name(&v[2])?;
            match a(&v[1])? {
                "labels" => Ok(E::Labels(x)),
                "type" => Ok(E::Type(x)),
                "id" => Ok(E::Id(x)),
                _ => Err("vf tag".into()),
            }
        }
        "o" => match a(&v[1])? {
            "param" => Ok(E::Parameter(name(&v[2])?)),
            // a subquery cannot be rebuilt from its fingerprint; the optimizer never looks inside, so an
            // arbitrary body with the same (empty) reported variable set stands in for it
            "exists" => Ok(E::ExistsSubquery(Box::new(LogicalOperator::Empty))),
            "countsub" => Ok(E::CountSubquery(Box::new(LogicalOperator::Empty))),
            _ => Err("o tag".into()),
        },
        "n" => {
            let tag = a(&v[1])?;
            let meta = l(&v[2])?;
            let args: Vec<LogicalExpression> = v[3..].iter().map(de_expr).collect::<Result<_, _>>()?;
            let mut it = args.into_iter();
            let flag = |i: usize| -> Result<bool, String> { Ok(a(meta.get(i).ok_or("meta")?)? == "1") };
            match tag {
                "fn" => Ok(E::FunctionCall { name: name(&meta[0])?, distinct: flag(1)?, args: it.collect() }),
                "list" => Ok(E::List(it.collect())),
                "map" => {
                    let keys: Vec<String> = meta.iter().map(name).collect::<Result<_, _>>()?;
                    Ok(E::Map(keys.into_iter().zip(it).collect()))
                }
                "idx" => Ok(E::IndexAccess { base: Box::new(it.next().ok_or("idx")?), index: Box::new(it.next().ok_or("idx")?) }),
                "slice" => {
                    let base = Box::new(it.next().ok_or("slice")?);
                    let start = if flag(0)? { Some(Box::new(it.next().ok_or("slice")?)) } else { None };
                    let end = if flag(1)? { Some(Box::new(it.next().ok_or("slice")?)) } else { None };
                    Ok(E::SliceAccess { base, start, end })
                }
                "case" => {
                    let operand = if flag(0)? { Some(Box::new(it.next().ok_or("case")?)) } else { None };
                    let n: usize = a(&meta[1])?.parse().map_err(|_| "case n")?;
                    let mut when_clauses = vec![];
                    for _ in 0..n {
                        let c = it.next().ok_or("case")?;
                        let r = it.next().ok_or("case")?;
                        when_clauses.push((c, r));
                    }
                    let else_clause = if flag(2)? { Some(Box::new(it.next().ok_or("case")?)) } else { None };
                    Ok(E::Case { operand, when_clauses, else_clause })
                }
                "lc" => {
                    let variable = name(&meta[0])?;
                    let list_expr = Box::new(it.next().ok_or("lc")?);
                    let filter_expr = if flag(1)? { Some(Box::new(it.next().ok_or("lc")?)) } else { None };
                    let map_expr = Box::new(it.next().ok_or("lc")?);
                    Ok(E::ListComprehension { variable, list_expr, filter_expr, map_expr })
                }
                _ => Err("n tag".into()),
            }
        }
        _ => Err(format!("expr head {head}")),
    }
}

fn de_items(x: &SX) -> Result<Vec<(LogicalExpression, Option<String>)>, String> {
    l(x)?
        .iter()
        .map(|it| {
            let p = l(it)?;
            Ok((de_expr(&p[0])?, opt_name(&p[1])?))
        })
        .collect()
}

fn de_op(x: &SX) -> Result<LogicalOperator, String> {
    use LogicalOperator as O;
    let v = l(x)?;
    let head = a(v.first().ok_or("empty op")?)?;
    let bx = |i: usize| -> Result<Box<LogicalOperator>, String> { Ok(Box::new(de_op(v.get(i).ok_or("missing input")?)?)) };
    let num = |i: usize| -> Result<usize, String> { a(v.get(i).ok_or("num")?)?.parse().map_err(|_| "num".to_string()) };
    match head {
        "scan" => Ok(O::NodeScan(NodeScanOp { variable: name(&v[1])?, label: opt_name(&v[2])?, input: None })),
        "scanin" => Ok(O::NodeScan(NodeScanOp { variable: name(&v[1])?, label: opt_name(&v[2])?, input: Some(bx(3)?) })),
        "expand" => Ok(O::Expand(ExpandOp {
            from_variable: name(&v[1])?,
            to_variable: name(&v[2])?,
            edge_variable: opt_name(&v[3])?,
            direction: match a(&v[4])? {
                "out" => ExpandDirection::Outgoing,
                "in" => ExpandDirection::Incoming,
                _ => ExpandDirection::Both,
            },
            edge_type: opt_name(&v[5])?,
            min_hops: num(6)? as u32,
            max_hops: if a(&v[7])? == "~" { None } else { Some(num(7)? as u32) },
            path_alias: opt_name(&v[8])?,
            input: bx(9)?,
        })),
        "filter" => Ok(O::Filter(FilterOp { predicate: de_expr(&v[1])?, input: bx(2)? })),
        "project" => Ok(O::Project(ProjectOp { projections: de_items(&v[1])?.into_iter().map(|(expression, alias)| Projection { expression, alias }).collect(), input: bx(2)? })),
        "return" => Ok(O::Return(ReturnOp { distinct: a(&v[1])? == "1", items: de_items(&v[2])?.into_iter().map(|(expression, alias)| ReturnItem { expression, alias }).collect(), input: bx(3)? })),
        "join" => {
            let join_type = *JOIN_TYPES.iter().find(|t| jt_name(**t) == a(&v[1]).unwrap_or("")).ok_or("join type")?;
            let conditions = l(&v[2])?
                .iter()
                .map(|c| {
                    let p = l(c)?;
                    Ok(JoinCondition { left: de_expr(&p[0])?, right: de_expr(&p[1])? })
                })
                .collect::<Result<Vec<_>, String>>()?;
            Ok(O::Join(JoinOp { join_type, conditions, left: bx(3)?, right: bx(4)? }))
        }
        "limit" => Ok(O::Limit(LimitOp { count: num(1)?, input: bx(2)? })),
        "skip" => Ok(O::Skip(SkipOp { count: num(1)?, input: bx(2)? })),
        "sort" => {
            let keys = l(&v[1])?
                .iter()
                .map(|k| {
                    let p = l(k)?;
                    Ok(SortKey { expression: de_expr(&p[0])?, order: if a(&p[1])? == "asc" { SortOrder::Ascending } else { SortOrder::Descending } })
                })
                .collect::<Result<Vec<_>, String>>()?;
            Ok(O::Sort(SortOp { keys, input: bx(2)? }))
        }
        "distinct" => {
            let columns = match &v[1] {
                SX::A(_) => None,
                SX::L(cs) => Some(cs.iter().map(name).collect::<Result<Vec<_>, _>>()?),
            };
            Ok(O::Distinct(DistinctOp { columns, input: bx(2)? }))
        }
        "agg" => {
            let group_by = l(&v[1])?.iter().map(de_expr).collect::<Result<Vec<_>, _>>()?;
            let aggregates = l(&v[2])?
                .iter()
                .map(|x| {
                    let p = l(x)?;
                    Ok(AggregateExpr {
                        function: *AGG_FUNCS.iter().find(|f| agg_name(**f) == a(&p[0]).unwrap_or("")).ok_or("agg fn")?,
                        distinct: a(&p[1])? == "1",
                        expression: match &p[2] {
                            SX::A(_) => None,
                            e => Some(de_expr(e)?),
                        },
                        alias: opt_name(&p[3])?,
                        percentile: if a(&p[4])? == "~" { None } else { Some(f64::from_bits(u64::from_str_radix(a(&p[4])?, 16).map_err(|_| "pct")?)) },
                    })
                })
                .collect::<Result<Vec<_>, String>>()?;
            let having = match &v[3] {
                SX::A(_) => None,
                e => Some(de_expr(e)?),
            };
            Ok(O::Aggregate(AggregateOp { group_by, aggregates, having, input: bx(4)? }))
        }
        "other" => {
            if a(&v[1])? == "Empty" {
                Ok(O::Empty)
            } else {
                Err("an unmodelled operator cannot be rebuilt from its fingerprint".into())
            }
        }
        _ => Err(format!("op head {head}")),
    }
}

// ------------------------------------------------------------------ sources

/// the plan named by `<src>`; for text sources the translator's plan must serialise to `sexpr`
fn plan_of(src: &str, sexpr: &str) -> Result<LogicalOperator, String> {
    if src == "sx" {
        return de_op(&sx_parse(sexpr)?);
    }
    let (lang, h) = src.split_once(':').ok_or("bad src")?;
    let text = String::from_utf8(unhex(h).ok_or("bad hex")?).map_err(|_| "utf8")?;
    let plan = translate_bind(lang, &text)?;
    let s = ser_op(&plan.root);
    if s != sexpr {
        return Err(format!("stale-sexpr:{}", s));
    }
    Ok(plan.root)
}

fn translate_bind(lang: &str, text: &str) -> Result<LogicalPlan, String> {
    let plan = match lang {
        "gql" => translate_gql(text),
        "cypher" => translate_cypher(text),
        _ => return Err("lang".into()),
    }
    .map_err(|_| "error:translate".to_string())?;
    let mut binder = Binder::new();
    binder.bind(&plan).map_err(|_| "error:bind".to_string())?;
    Ok(plan)
}

fn estimator_of(stats: &str) -> CardinalityEstimator {
    let mut e = CardinalityEstimator::new();
    if stats != "n" && stats != "-" {
        for kv in stats.split(',') {
            if let Some((k, v)) = kv.split_once('=') {
                if k == "fanout" {
                    e.set_avg_fanout(v.parse::<f64>().unwrap_or(1.0));
                } else {
                    e.add_table_stats(k, TableStats::new(v.parse().unwrap_or(0)));
                }
            }
        }
    }
    e
}

fn optimize_with(root: LogicalOperator, f: bool, j: bool, p: bool, stats: &str) -> String {
    let o = Optimizer::new().with_cardinality_estimator(estimator_of(stats)).with_filter_pushdown(f).with_join_reorder(j).with_projection_pushdown(p);
    match o.optimize(LogicalPlan::new(root)) {
        Ok(p) => ser_op(&p.root),
        Err(_) => "error:optimize".into(),
    }
}

// ------------------------------------------------------------------ query texts

const NV: [&str; 4] = ["a", "b", "c", "d"];

fn lab(r: &mut Rng) -> String {
    if r.chance(1, 2) { String::new() } else { format!(":L{}", r.below(3)) }
}

/// a pattern over fresh variables starting at index `*next`; returns the text and the variables bound
fn gen_pattern(r: &mut Rng, next: &mut usize, bound: &mut Vec<String>, reuse: bool, edge_vars: bool) -> String {
    let mut take = |r: &mut Rng, bound: &mut Vec<String>, next: &mut usize| -> String {
        if reuse && !bound.is_empty() && r.chance(1, 3) {
            r.pick(bound).clone()
        } else {
            let v = NV[*next % NV.len()].to_string();
            *next += 1;
            if !bound.contains(&v) {
                bound.push(v.clone());
            }
            v
        }
    };
    let v0 = take(r, bound, next);
    let mut s = format!("({}{})", v0, lab(r));
    let hops = *r.pick(&[0usize, 0, 1, 1, 2]);
    for h in 0..hops {
        if *next >= NV.len() {
            break;
        }
        let ty = if r.chance(1, 2) { String::new() } else { format!(":T{}", r.below(2)) };
        let ev = if edge_vars && r.chance(1, 4) { format!("e{}", h) } else { String::new() };
        let (l, rr) = match r.below(4) {
            0 => ("<-", "-"),
            1 => ("-", "-"),
            _ => ("-", "->"),
        };
        let v = take(r, bound, next);
        s += &format!("{}[{}{}]{}({}{})", l, ev, ty, rr, v, lab(r));
    }
    s
}

fn gen_atom_pred(r: &mut Rng, vars: &[String]) -> String {
    let v = r.pick(vars).clone();
    let k = r.below(3);
    let op = *r.pick(&["=", "<>", "<", "<=", ">", ">="]);
    match r.below(8) {
        0 | 1 if vars.len() > 1 => {
            let w = r.pick(vars).clone();
            format!("{}.k{} {} {}.k{}", v, k, op, w, r.below(3))
        }
        2 => format!("NOT ({}.k{} {} {})", v, k, op, r.pick(&["1", "2", "3", "'a'"])),
        _ => format!("{}.k{} {} {}", v, k, op, r.pick(&["1", "2", "3", "5", "'a'", "'b'"])),
    }
}

fn gen_where(r: &mut Rng, vars: &[String]) -> String {
    if vars.is_empty() || r.chance(1, 4) {
        return String::new();
    }
    let n = 1 + r.below(3);
    let ps: Vec<String> = (0..n).map(|_| gen_atom_pred(r, vars)).collect();
    let joiner = if r.chance(1, 5) { " OR " } else { " AND " };
    format!(" WHERE {}", ps.join(joiner))
}

fn gen_return(r: &mut Rng, vars: &[String]) -> String {
    let mut cols: Vec<String> = vars.iter().map(|v| format!("{}.k9", v)).collect();
    for _ in 0..r.below(2) {
        cols.push(format!("{}.k{}", r.pick(vars), r.below(3)));
    }
    let mut s = String::from(" RETURN ");
    match r.below(10) {
        0 => {
            s += &format!("{}.k{}, count({})", r.pick(vars), r.below(3), r.pick(vars));
            return s;
        }
        1 => {
            s += &format!("DISTINCT {}.k{}", r.pick(vars), r.below(3));
            return s;
        }
        _ => {}
    }
    s += &cols.join(", ");
    if r.chance(1, 4) {
        s += &format!(" ORDER BY {}", cols[0]);
        if r.chance(1, 2) {
            s += &format!(" SKIP {}", r.below(3));
        }
        if r.chance(1, 2) {
            s += &format!(" LIMIT {}", 1 + r.below(4));
        }
    }
    s
}

/// one query text of a shape the core generator of `q.rs` does not produce
fn gen_text(r: &mut Rng, lang: &str) -> String {
    let mut next = 0usize;
    let mut bound: Vec<String> = vec![];
    match r.below(15) {
        // a variable with the name of the (unreported) path-length column, on the other side of a join
        14 if lang == "gql" => {
            let w = format!("WHERE _path_length_p.k{} = {}", r.below(3), 1 + r.below(3));
            if r.chance(1, 2) {
                format!("MATCH p = (a{})-[*1..2]->(b) MATCH (_path_length_p) {} RETURN a.k9, b.k9", lab(r), w)
            } else {
                format!("MATCH (_path_length_p) MATCH p = (a{})-[*1..2]->(b) {} RETURN a.k9, b.k9", lab(r), w)
            }
        }
        // operators collect_output_variables does not know / reports loosely, next to a second binding
        13 => {
            if lang == "gql" {
                format!("MATCH (b{}) MATCH p = shortestPath((b)-[*]->(c)) WHERE b.k{} = {} RETURN b.k9, c.k9", lab(r), r.below(3), 1 + r.below(3))
            } else {
                format!("MATCH (x{})-[]->(a) RETURN x, a.k{}, count(a) MATCH (x)-[]->(a) WHERE a.k{} = {}", lab(r), r.below(3), r.below(3), 1 + r.below(3))
            }
        }
        // a WITH that drops a variable, then a MATCH that binds the same name again (Cypher; row-level fragment)
        12 if lang == "cypher" => {
            let keep = *r.pick(&["a", "a", "b"]);
            let (x, y) = if keep == "a" { ("c", "b") } else { ("c", "a") };
            format!(
                "MATCH (a{})-[]->(b{}) WITH {} MATCH ({})-[]->({}) WHERE {}.k{} = {} RETURN {}.k9, {}.k9, {}.k9",
                lab(r), lab(r), keep, x, y, y, r.below(3), 1 + r.below(3), keep, x, y
            )
        }
        // WHERE after RETURN (the Cypher front end accepts it and puts the Filter above the Return)
        11 if lang == "cypher" => {
            let hop = if r.chance(1, 2) { "-[]->(b)" } else { "" };
            let v = if hop.is_empty() { "a" } else { *r.pick(&["a", "b"]) };
            format!("MATCH (a{}){} RETURN a.k9 WHERE {}.k{} = {}", lab(r), hop, v, r.below(3), 1 + r.below(3))
        }
        // two patterns in the first MATCH, a second MATCH, a predicate across them (row-level fragment)
        9 | 11 | 12 | 14 => {
            let k = r.below(3);
            let op = *r.pick(&["=", "<>", "<", ">="]);
            let (x, y) = *r.pick(&[("a", "c"), ("b", "c"), ("c", "a"), ("a", "b")]);
            let extra = if r.chance(1, 2) { format!(" AND {}.k{} = {}", r.pick(&["a", "b", "c"]), r.below(3), 1 + r.below(3)) } else { String::new() };
            format!("MATCH (a{}), (b{}) MATCH (c{}) WHERE {}.k{} {} {}.k{}{} RETURN a.k9, b.k9, c.k9", lab(r), lab(r), lab(r), x, k, op, y, r.below(3), extra)
        }
        // WITH that drops a variable the following WHERE may still name (row-level fragment)
        10 => {
            let keep = *r.pick(&["a", "a, b", "b"]);
            let v = *r.pick(&["a", "b"]);
            let ret = if keep == "b" { "b.k9" } else { "a.k9" };
            format!("MATCH (a{})-[]->(b{}) WITH {} WHERE {}.k{} = {} RETURN {}", lab(r), lab(r), keep, v, r.below(3), 1 + r.below(3), ret)
        }
        // several patterns in one MATCH
        0 => {
            let p1 = gen_pattern(r, &mut next, &mut bound, false, true);
            let p2 = gen_pattern(r, &mut next, &mut bound, true, true);
            let w = gen_where(r, &bound);
            format!("MATCH {}, {}{}{}", p1, p2, w, gen_return(r, &bound))
        }
        // several MATCH clauses (GQL: Join; Cypher: chained scans)
        1 | 2 => {
            let n = 2 + r.below(2);
            let mut s = String::new();
            for i in 0..n {
                if next >= NV.len() {
                    break;
                }
                let multi = r.chance(1, 3);
                let reuse = i > 0 && r.chance(1, 3);
                let p = gen_pattern(r, &mut next, &mut bound, reuse, false);
                s += &format!("MATCH {}", p);
                if multi && next < NV.len() {
                    let p2 = gen_pattern(r, &mut next, &mut bound, false, false);
                    s += &format!(", {}", p2);
                }
                s.push(' ');
                // Cypher allows WHERE after each MATCH
                if lang == "cypher" && r.chance(1, 3) {
                    let w = gen_where(r, &bound);
                    s += w.trim_start();
                    s.push(' ');
                }
            }
            let w = gen_where(r, &bound);
            format!("{}{}{}", s.trim_end(), w, gen_return(r, &bound))
        }
        // WITH pipeline
        3 | 4 => {
            let p1 = gen_pattern(r, &mut next, &mut bound, false, true);
            let w0 = if r.chance(1, 2) { gen_where(r, &bound) } else { String::new() };
            let keep: Vec<String> = bound.iter().filter(|_| r.chance(2, 3)).cloned().collect();
            let keep = if keep.is_empty() { vec![bound[0].clone()] } else { keep };
            let mut items: Vec<String> = keep.clone();
            let mut aliases: Vec<String> = vec![];
            if r.chance(1, 2) {
                let v = r.pick(&bound).clone();
                items.push(format!("{}.k{} AS x", v, r.below(3)));
                aliases.push("x".into());
            }
            if r.chance(1, 6) {
                // an alias that shadows a pattern variable
                let v = r.pick(&bound).clone();
                let w = r.pick(&bound).clone();
                items.push(format!("{} AS {}", v, w));
            }
            let mut wv = keep.clone();
            if r.chance(1, 6) {
                wv = bound.clone(); // refers to variables the WITH did not keep
            }
            let mut w1 = gen_where(r, &wv);
            if !aliases.is_empty() && r.chance(1, 2) {
                w1 = if w1.is_empty() { " WHERE x > 1".into() } else { format!("{} AND x > 1", w1) };
            }
            let d = if r.chance(1, 6) { "DISTINCT " } else { "" };
            format!("MATCH {}{} WITH {}{}{}{}", p1, w0, d, items.join(", "), w1, gen_return(r, &keep))
        }
        // OPTIONAL MATCH
        5 => {
            let p1 = gen_pattern(r, &mut next, &mut bound, false, false);
            let p2 = gen_pattern(r, &mut next, &mut bound, true, false);
            let w = gen_where(r, &bound);
            format!("MATCH {} OPTIONAL MATCH {}{}{}", p1, p2, w, gen_return(r, &bound))
        }
        // named variable-length path
        6 => {
            let lo = r.below(2);
            let hi = 1 + r.below(3);
            let w = match r.below(3) {
                0 => format!(" WHERE length(p) = {}", 1 + r.below(2)),
                1 => format!(" WHERE a.k0 = {} AND length(p) >= 1", 1 + r.below(2)),
                _ => " WHERE b.k0 = 2".to_string(),
            };
            format!("MATCH p = (a{})-[*{}..{}]->(b){} RETURN a.k9, b.k9", lab(r), lo, hi.max(lo), w)
        }
        // UNWIND
        7 => {
            let p1 = gen_pattern(r, &mut next, &mut bound, false, false);
            let mut vs = bound.clone();
            vs.push("x".into());
            if lang == "gql" {
                format!("MATCH {} UNWIND [1, 2] AS x WHERE {}.k0 = x{}", p1, bound[0], gen_return(r, &bound))
            } else {
                format!("MATCH {} UNWIND [1, 2] AS x WITH {}, x WHERE {}.k0 = x{}", p1, bound.join(", "), bound[0], gen_return(r, &bound))
            }
        }
        // EXISTS subquery (GQL only; Cypher front end rejects it)
        _ => {
            if lang == "cypher" {
                return format!("MATCH (a{}) WHERE a.k{} IS NOT NULL RETURN a.k9", lab(r), r.below(3));
            }
            let p1 = gen_pattern(r, &mut next, &mut bound, false, false);
            let v = r.pick(&bound).clone();
            let extra = if r.chance(1, 2) { format!(" AND {}", gen_atom_pred(r, &bound)) } else { String::new() };
            format!("MATCH {} WHERE EXISTS {{ MATCH ({})-[]->(z) }}{}{}", p1, v, extra, gen_return(r, &bound))
        }
    }
}

// ------------------------------------------------------------------ structural fuzzing

const FV: [&str; 6] = ["a", "b", "c", "d", "x", "y"];

fn fz_var(r: &mut Rng) -> String {
    r.pick(&FV).to_string()
}

fn fz_expr(r: &mut Rng, depth: u32) -> LogicalExpression {
    use LogicalExpression as E;
    let leaf = depth == 0 || r.chance(2, 5);
    if leaf {
        return match r.below(12) {
            0 | 1 => E::Variable(fz_var(r)),
            2 | 3 | 4 | 5 => E::Property { variable: fz_var(r), property: format!("k{}", r.below(3)) },
            6 | 7 => E::Literal(Value::Int64(r.below(5) as i64)),
            8 => E::Literal(Value::String("a b".into())),
            9 => match r.below(3) {
                0 => E::Labels(fz_var(r)),
                1 => E::Type(fz_var(r)),
                _ => E::Id(fz_var(r)),
            },
            10 => E::Parameter("p".into()),
            _ => {
                if r.chance(1, 2) {
                    E::ExistsSubquery(Box::new(LogicalOperator::Empty))
                } else {
                    E::Literal(Value::Null)
                }
            }
        };
    }
    let d = depth - 1;
    match r.below(12) {
        0..=4 => E::Binary { left: Box::new(fz_expr(r, d)), op: *r.pick(&BIN_OPS), right: Box::new(fz_expr(r, d)) },
        5 | 6 => E::Unary { op: *r.pick(&UN_OPS), operand: Box::new(fz_expr(r, d)) },
        7 => E::FunctionCall { name: r.pick(&["hasLabel", "f", "toInteger"]).to_string(), args: (0..r.below(3)).map(|_| fz_expr(r, d)).collect(), distinct: r.chance(1, 5) },
        8 => E::List((0..r.below(3)).map(|_| fz_expr(r, d)).collect()),
        9 => E::Case {
            operand: if r.chance(1, 2) { Some(Box::new(fz_expr(r, d))) } else { None },
            when_clauses: (0..1 + r.below(2)).map(|_| (fz_expr(r, d), fz_expr(r, d))).collect(),
            else_clause: if r.chance(1, 2) { Some(Box::new(fz_expr(r, d))) } else { None },
        },
        10 => match r.below(3) {
            0 => E::IndexAccess { base: Box::new(fz_expr(r, d)), index: Box::new(fz_expr(r, d)) },
            1 => E::SliceAccess { base: Box::new(fz_expr(r, d)), start: if r.chance(1, 2) { Some(Box::new(fz_expr(r, d))) } else { None }, end: if r.chance(1, 2) { Some(Box::new(fz_expr(r, d))) } else { None } },
            _ => E::Map(vec![("m".into(), fz_expr(r, d)), ("n n".into(), fz_expr(r, d))]),
        },
        _ => E::ListComprehension { variable: fz_var(r), list_expr: Box::new(fz_expr(r, d)), filter_expr: if r.chance(1, 2) { Some(Box::new(fz_expr(r, d))) } else { None }, map_expr: Box::new(fz_expr(r, d)) },
    }
}

fn fz_items(r: &mut Rng) -> Vec<(LogicalExpression, Option<String>)> {
    (0..1 + r.below(3)).map(|_| (fz_expr(r, 1), if r.chance(1, 2) { Some(fz_var(r)) } else { None })).collect()
}

fn fz_plan(r: &mut Rng, depth: u32) -> LogicalOperator {
    use LogicalOperator as O;
    let scan = |r: &mut Rng| O::NodeScan(NodeScanOp { variable: fz_var(r), label: if r.chance(1, 2) { Some(format!("L{}", r.below(3))) } else { None }, input: None });
    if depth == 0 {
        return if r.chance(1, 10) { O::Empty } else { scan(r) };
    }
    let d = depth - 1;
    match r.below(20) {
        0 => scan(r),
        1 => O::NodeScan(NodeScanOp { variable: fz_var(r), label: None, input: Some(Box::new(fz_plan(r, d))) }),
        2 | 3 => O::Expand(ExpandOp {
            from_variable: fz_var(r),
            to_variable: fz_var(r),
            edge_variable: if r.chance(1, 3) { Some(fz_var(r)) } else { None },
            direction: *r.pick(&[ExpandDirection::Outgoing, ExpandDirection::Incoming, ExpandDirection::Both]),
            edge_type: if r.chance(1, 2) { Some("T0".into()) } else { None },
            min_hops: 1,
            max_hops: if r.chance(1, 4) { None } else { Some(1 + r.below(2) as u32) },
            path_alias: if r.chance(1, 4) { Some(fz_var(r)) } else { None },
            input: Box::new(fz_plan(r, d)),
        }),
        4..=8 => O::Filter(FilterOp { predicate: fz_expr(r, 2), input: Box::new(fz_plan(r, d)) }),
        9 | 10 => O::Project(ProjectOp { projections: fz_items(r).into_iter().map(|(expression, alias)| Projection { expression, alias }).collect(), input: Box::new(fz_plan(r, d)) }),
        11 => O::Return(ReturnOp { items: fz_items(r).into_iter().map(|(expression, alias)| ReturnItem { expression, alias }).collect(), distinct: r.chance(1, 4), input: Box::new(fz_plan(r, d)) }),
        12 | 13 | 14 => O::Join(JoinOp {
            left: Box::new(fz_plan(r, d)),
            right: Box::new(fz_plan(r, d)),
            join_type: if r.chance(1, 2) { *r.pick(&[JoinType::Inner, JoinType::Cross]) } else { *r.pick(&JOIN_TYPES) },
            conditions: (0..r.below(3)).map(|_| JoinCondition { left: fz_expr(r, 1), right: fz_expr(r, 1) }).collect(),
        }),
        15 => O::Limit(LimitOp { count: r.below(5) as usize, input: Box::new(fz_plan(r, d)) }),
        16 => O::Skip(SkipOp { count: r.below(5) as usize, input: Box::new(fz_plan(r, d)) }),
        17 => O::Sort(SortOp { keys: (0..1 + r.below(2)).map(|_| SortKey { expression: fz_expr(r, 1), order: if r.chance(1, 2) { SortOrder::Ascending } else { SortOrder::Descending } }).collect(), input: Box::new(fz_plan(r, d)) }),
        18 => O::Distinct(DistinctOp { columns: if r.chance(1, 3) { Some(vec![fz_var(r)]) } else { None }, input: Box::new(fz_plan(r, d)) }),
        _ => O::Aggregate(AggregateOp {
            group_by: (0..r.below(3)).map(|_| fz_expr(r, 1)).collect(),
            aggregates: (0..1 + r.below(2))
                .map(|_| AggregateExpr { function: *r.pick(&AGG_FUNCS), expression: if r.chance(2, 3) { Some(fz_expr(r, 1)) } else { None }, distinct: r.chance(1, 4), alias: if r.chance(2, 3) { Some(fz_var(r)) } else { None }, percentile: if r.chance(1, 5) { Some(0.5) } else { None } })
                .collect(),
            input: Box::new(fz_plan(r, d)),
            having: if r.chance(1, 4) { Some(fz_expr(r, 1)) } else { None },
        }),
    }
}

/// join trees over distinct scan variables with variable / property equality conditions — the only
/// shape on which `reorder_joins` changes anything
fn fz_join_tree(r: &mut Rng) -> LogicalOperator {
    use LogicalOperator as O;
    let n = 2 + r.below(3) as usize;
    let mut leaves: Vec<(Vec<String>, LogicalOperator)> = (0..n)
        .map(|i| {
            let v = NV[i].to_string();
            let mut op = O::NodeScan(NodeScanOp { variable: v.clone(), label: if r.chance(2, 3) { Some(format!("L{}", r.below(3))) } else { None }, input: None });
            let mut vars = vec![v.clone()];
            if r.chance(1, 4) {
                let t = format!("{}t", v);
                op = O::Expand(ExpandOp { from_variable: v.clone(), to_variable: t.clone(), edge_variable: None, direction: ExpandDirection::Outgoing, edge_type: None, min_hops: 1, max_hops: Some(1), path_alias: None, input: Box::new(op) });
                vars.push(t);
            }
            if r.chance(1, 4) {
                op = O::Filter(FilterOp { predicate: LogicalExpression::Binary { left: Box::new(LogicalExpression::Property { variable: v.clone(), property: "k0".into() }), op: BinaryOp::Eq, right: Box::new(LogicalExpression::Literal(Value::Int64(1))) }, input: Box::new(op) });
            }
            (vars, op)
        })
        .collect();
    while leaves.len() > 1 {
        let i = r.below(leaves.len() as u64 - 1) as usize;
        let (lv, lo) = leaves.remove(i);
        let (rv, ro) = leaves.remove(i);
        let mut conditions = vec![];
        let nc = match r.below(6) {
            0 => 0,
            5 => 2,
            _ => 1,
        };
        for _ in 0..nc {
            let side = |r: &mut Rng, vs: &Vec<String>| {
                let v = r.pick(vs).clone();
                match r.below(6) {
                    0 => LogicalExpression::Id(v),
                    1 | 2 => LogicalExpression::Property { variable: v, property: format!("k{}", r.below(2)) },
                    _ => LogicalExpression::Variable(v),
                }
            };
            let (l, rr) = (side(r, &lv), side(r, &rv));
            conditions.push(if r.chance(1, 5) { JoinCondition { left: rr, right: l } } else { JoinCondition { left: l, right: rr } });
        }
        let join_type = if r.chance(1, 8) { *r.pick(&[JoinType::Left, JoinType::Semi, JoinType::Anti]) } else if r.chance(1, 4) { JoinType::Cross } else { JoinType::Inner };
        let mut vars = lv;
        vars.extend(rv);
        leaves.insert(i, (vars, O::Join(JoinOp { left: Box::new(lo), right: Box::new(ro), join_type, conditions })));
    }
    let mut op = leaves.remove(0).1;
    if r.chance(1, 2) {
        op = O::Return(ReturnOp { items: vec![ReturnItem { expression: LogicalExpression::Variable("a".into()), alias: None }], distinct: false, input: Box::new(op) });
    }
    op
}

// ------------------------------------------------------------------ the row-level fragment

/// plans whose rows the Lean `eval` reproduces exactly (values: null, integers, strings, nodes)
fn rows_fragment(op: &LogicalOperator, top: bool) -> bool {
    use LogicalOperator as O;
    fn ex(e: &LogicalExpression) -> bool {
        use LogicalExpression as E;
        match e {
            E::Property { .. } => true,
            E::Literal(Value::Int64(_)) | E::Literal(Value::String(_)) => true,
            E::Binary { left, op, right } => matches!(op, BinaryOp::Eq | BinaryOp::Ne | BinaryOp::Lt | BinaryOp::Le | BinaryOp::Gt | BinaryOp::Ge | BinaryOp::And) && ex(left) && ex(right),
            E::FunctionCall { name, args, .. } => name == "hasLabel" && args.len() == 2,
            _ => false,
        }
    }
    match op {
        O::Return(r) => top && !r.distinct && r.items.iter().all(|i| i.alias.is_none() && matches!(i.expression, LogicalExpression::Property { .. })) && rows_fragment(&r.input, false),
        O::NodeScan(s) => s.input.as_ref().map_or(true, |i| rows_fragment(i, false)),
        O::Expand(e) => e.min_hops == 1 && e.max_hops == Some(1) && e.path_alias.is_none() && rows_fragment(&e.input, false),
        O::Filter(f) => ex(&f.predicate) && rows_fragment(&f.input, top),
        O::Join(j) => j.conditions.is_empty() && matches!(j.join_type, JoinType::Cross | JoinType::Inner) && rows_fragment(&j.left, false) && rows_fragment(&j.right, false),
        O::Project(p) => p.projections.iter().all(|x| matches!(x.expression, LogicalExpression::Variable(_)) && x.alias.is_none()) && rows_fragment(&p.input, false),
        _ => false,
    }
}

fn execute(store: Arc<grafeo_core::graph::lpg::LpgStore>, plan: LogicalPlan, mask: u32) -> String {
    let optimizer = Optimizer::from_store(&store).with_filter_pushdown(mask & 1 != 0).with_join_reorder(mask & 2 != 0).with_projection_pushdown(mask & 4 != 0);
    let plan = match optimizer.optimize(plan) {
        Ok(p) => p,
        Err(_) => return "error:optimize".into(),
    };
    let txm = Arc::new(TransactionManager::new());
    let epoch = txm.current_epoch();
    let planner = Planner::with_context(Arc::clone(&store), txm, None, epoch).with_factorized_execution(false);
    let mut phys = match planner.plan(&plan) {
        Ok(p) => p,
        Err(_) => return "error:plan".into(),
    };
    let executor = Executor::with_columns(phys.columns.clone());
    match executor.execute(phys.operator.as_mut()) {
        Ok(r) => {
            let mut rs: Vec<String> = r.rows.iter().map(|row| row.iter().map(crate::vals::tok).collect::<Vec<_>>().join("|")).collect();
            rs.sort();
            if rs.is_empty() { "norows".into() } else { rs.join(";") }
        }
        Err(_) => "error:execute".into(),
    }
}

// ------------------------------------------------------------------ generate

pub fn generate(seed: u64, cases: usize, out: &mut Vec<String>) {
    let mut r = Rng::new(seed ^ 0x706c616e);
    for c in 0..cases {
        out.push(format!("# case {} seed {}", c, seed));
        // (1) texts through the real front ends
        let (nodes, edges) = gen_graph(&mut r);
        let mut texts: Vec<(String, String)> = vec![];
        for _ in 0..2 {
            let (start, hops, preds, ret, distinct, ord, skip, lim) = gen_query(&mut r);
            let t = render(&start, &hops, &preds, &ret, &distinct, &ord, &skip, &lim);
            if !(preds.contains("z/") || preds.contains("y/")) {
                texts.push(("gql".into(), t.clone()));
            }
            texts.push(("cypher".into(), t));
        }
        for _ in 0..4 {
            let lang = if r.chance(1, 2) { "gql" } else { "cypher" };
            texts.push((lang.to_string(), gen_text(&mut r, lang)));
        }
        for (lang, text) in texts {
            let plan = match translate_bind(&lang, &text) {
                Ok(p) => p,
                Err(e) => {
                    out.push(format!("# rejected {} {} :: {}", e, lang, text));
                    continue;
                }
            };
            let sx = ser_op(&plan.root);
            let src = format!("{}:{}", lang, hex(text.as_bytes()));
            out.push(format!("# text {} :: {}", lang, text));
            out.push(format!("plan pushdown {} {}", src, sx));
            out.push(format!("plan projdown {} {}", src, sx));
            let stats = *r.pick(&["n", "L0=3,L1=500,L2=40", "L0=100000,L1=1,fanout=3"]);
            let after = optimize_with(plan.root.clone(), false, true, false, stats);
            out.push(format!("plan joinorder {} {} {} => {}", src, stats, sx, after));
            let distinct_cols = |op: &LogicalOperator| -> bool {
                // a variable bound twice (`(a)-[]->(b)-[]->(a)`, a shared variable of two MATCH clauses): the
                // planner resolves the name to different columns in different operators; not row-modelled
                fn all(op: &LogicalOperator, f: &dyn Fn(&LogicalOperator) -> bool) -> bool {
                    use LogicalOperator as O;
                    f(op)
                        && match op {
                            O::NodeScan(s) => s.input.as_ref().map_or(true, |i| all(i, f)),
                            O::Expand(e) => all(&e.input, f),
                            O::Filter(x) => all(&x.input, f),
                            O::Project(x) => all(&x.input, f),
                            O::Return(x) => all(&x.input, f),
                            O::Join(j) => all(&j.left, f) && all(&j.right, f),
                            _ => true,
                        }
                }
                all(op, &|o| match columns(o) {
                    Some(cs) => {
                        let mut d = cs.clone();
                        d.sort();
                        d.dedup();
                        d.len() == cs.len()
                    }
                    None => false,
                })
            };
            // every accepted text, modelled or not: the eight switch sets must agree with each other
            // on the real engine (C09's own wording; needs no model of the query)
            // (plans in which a column name occurs twice are the open finding C09-pushdown-join-duplicate-column:
            // the planner resolves such a name to different columns in different operators)
            let no_duplicate_names = {
                fn ok(op: &LogicalOperator) -> bool {
                    use LogicalOperator as O;
                    let here = match columns(op) {
                        Some(cs) => {
                            let mut d = cs.clone();
                            d.sort();
                            d.dedup();
                            d.len() == cs.len()
                        }
                        None => true,
                    };
                    here && match op {
                        O::NodeScan(s) => s.input.as_ref().map_or(true, |i| ok(i)),
                        O::Expand(e) => ok(&e.input),
                        O::Filter(x) => ok(&x.input),
                        O::Project(x) => ok(&x.input),
                        O::Return(x) => ok(&x.input),
                        O::Limit(x) => ok(&x.input),
                        O::Skip(x) => ok(&x.input),
                        O::Sort(x) => ok(&x.input),
                        O::Distinct(x) => ok(&x.input),
                        O::Aggregate(x) => ok(&x.input),
                        O::Join(j) => ok(&j.left) && ok(&j.right),
                        _ => true,
                    }
                }
                ok(&plan.root)
            };
            if nodes.len() <= 6 && no_duplicate_names {
                out.push(format!("plan masks {} {} {}", nodes_arg(&nodes), edges_arg(&edges), src));
            }
            if rows_fragment(&plan.root, true) && distinct_cols(&plan.root) && nodes.len() <= 6 {
                for mask in 0..8 {
                    out.push(format!("plan rows {} {} {} {} {}", nodes_arg(&nodes), edges_arg(&edges), mask, src, sx));
                }
            }
        }
        // (2) structural fuzzing: arbitrary trees over the modelled algebra
        for _ in 0..4 {
            let depth = 2 + r.below(3) as u32;
            let p = fz_plan(&mut r, depth);
            let sx = ser_op(&p);
            out.push(format!("plan pushdown sx {}", sx));
            out.push(format!("plan projdown sx {}", sx));
        }
        for _ in 0..2 {
            let p = if r.chance(1, 4) { fz_plan(&mut r, 3) } else { fz_join_tree(&mut r) };
            let sx = ser_op(&p);
            let stats = *r.pick(&["n", "L0=3,L1=500,L2=40", "L0=100000,L1=1,fanout=3"]);
            let after = optimize_with(p.clone(), false, true, false, stats);
            out.push(format!("plan joinorder sx {} {} => {}", stats, sx, after));
        }
    }
}

// ------------------------------------------------------------------ run

pub fn run(args: &[&str]) -> String {
    let a: Vec<String> = args.iter().map(|s| s.to_string()).collect();
    guarded(move || {
        let a: Vec<&str> = a.iter().map(|s| s.as_str()).collect();
        match a.as_slice() {
            ["pushdown", src, rest @ ..] | ["projdown", src, rest @ ..] => {
                let sx = rest.join(" ");
                match plan_of(src, &sx) {
                    Ok(root) => {
                        if a[0] == "pushdown" {
                            optimize_with(root, true, false, false, "n")
                        } else {
                            optimize_with(root, false, false, true, "n")
                        }
                    }
                    Err(e) => e,
                }
            }
            ["joinorder", src, stats, rest @ ..] => {
                let all = rest.join(" ");
                let Some((before, after)) = all.split_once(" => ") else { return "bad-op".into() };
                match plan_of(src, before) {
                    Ok(root) => {
                        let now = optimize_with(root, false, true, false, stats);
                        if now == after { "ok".into() } else { format!("changed:{}", now) }
                    }
                    Err(e) => e,
                }
            }
            ["rows", nodes, edges, mask, src, rest @ ..] => {
                let sx = rest.join(" ");
                let root = match plan_of(src, &sx) {
                    Ok(r) => r,
                    Err(e) => return e,
                };
                let store = crate::opt::build_store(&parse_nodes(nodes), &parse_edges(edges));
                execute(store, LogicalPlan::new(root), mask.parse().unwrap_or(0))
            }
            ["masks", nodes, edges, src] => {
                let Some((lang, h)) = src.split_once(':') else { return "bad-op".into() };
                let text = String::from_utf8(unhex(h).unwrap_or_default()).unwrap_or_default();
                let plan = match translate_bind(lang, &text) {
                    Ok(p) => p,
                    Err(e) => return e,
                };
                let (ns, es) = (parse_nodes(nodes), parse_edges(edges));
                let base = execute(crate::opt::build_store(&ns, &es), LogicalPlan::new(plan.root.clone()), 0);
                let mut differ: Vec<String> = vec![];
                for mask in 1..8u32 {
                    let got = execute(crate::opt::build_store(&ns, &es), LogicalPlan::new(plan.root.clone()), mask);
                    if got != base {
                        differ.push(mask.to_string());
                    }
                }
                if differ.is_empty() { "same".to_string() } else { format!("differ:{}", differ.join(",")) }
            }
            // development aid (never generated): the s-expression of a text's plan
            ["sx", src] => {
                let Some((lang, h)) = src.split_once(':') else { return "bad-op".into() };
                let text = String::from_utf8(unhex(h).unwrap_or_default()).unwrap_or_default();
                match translate_bind(lang, &text) {
                    Ok(p) => ser_op(&p.root),
                    Err(e) => e,
                }
            }
            _ => "bad-op".into(),
        }
    })
}
