//! Stream `hcon` — HNSW graph construction and maintenance (`HnswIndex::insert` / `remove`) and the
//! integer parts of the vector quantisers (C18).  Model: `lean/GrafeoModel/Model/HnswBuild.lean`.
//!
//! Stateless lines; a history is carried inside one line:
//!
//!   hcon hist <metric> <num>/<den> <dim> <M> <M0> <efc> <seed> <ml bits> <ops>
//!   hcon inv  <same>
//!
//!   metric  = e (Euclidean) | m (Manhattan);  alpha = num/den (`HnswConfig::alpha`)
//!   ops     = <op>|<op>|…   (`_` = none)
//!   op      = i<id>:<level>:<x>,<y>,…   insert (or re-insert) an integer grid vector; `level` is what
//!                                        `random_level()` draws for this insert under (seed, ml) — the
//!                                        generator reads it off the real index, `run` checks it
//!           | r<id>:<pick>              remove; `pick` = the new entry point when `id` was the entry
//!                                        point (`nodes.keys().next()` of a std HashMap is random per
//!                                        map: `run` rebuilds until the real choice equals `pick`)
//!
//!   hist → `<core>#<shape>#<len>#<dump>`: verdicts on the REAL dump, `len()`, and `verif_dump()` itself
//!          (`<entry|N>;<max level>;<id>=<layer 0 list>/<layer 1 list>/…;…`, `_` = empty list), compared
//!          textually with the graph the model builds.  Grid vectors: every distance is an exact small
//!          integer (or the f32 square root of one), so comparisons agree with the integer model.
//!          `ties` when two inserted vectors are equally far from a third (heap order among equals is
//!          not modelled).
//!   inv  → core verdict only (ties allowed): `ok`, or `viol:` + the failing ones of
//!          a (dangling link), d (list longer than M / M0), f1 (entry point missing / absent),
//!          g (len ≠ number of ids), s (a search from an inserted vector returns > k, a duplicate,
//!          an absent id, a wrong distance or an unsorted result).
//!   shape verdict: b (self link), c (duplicate in a list), e (listed above its level),
//!          f2 (entry point not on max_level / max_level not the greatest level).
//!
//!   hcon bq.ham <ints a> <ints b>   → `<words a>;<words b>;<hamming_distance>` (BinaryQuantizer)
//!   hcon sq.rt <min> <log2 step> <ints> → `<codes>;<dequantised>;within|off` (ScalarQuantizer with
//!          min, max = min + 255·step: all f32 operations exact)
#![allow(unused)]
use crate::util::*;
use grafeo_common::types::NodeId;
use grafeo_core::index::vector::{BinaryQuantizer, DistanceMetric, HnswConfig, HnswIndex, ScalarQuantizer, compute_distance};
use std::collections::{BTreeMap, BTreeSet};

#[derive(Clone)]
enum Op {
    Ins(u64, usize, Vec<i64>),
    Rem(u64, u64),
}

#[derive(Clone)]
struct Line {
    metric: DistanceMetric,
    num: u64,
    den: u64,
    dim: usize,
    m: usize,
    m0: usize,
    efc: usize,
    seed: u64,
    ml: u64,
    ops: Vec<Op>,
}

fn nat(s: &str) -> Option<u64> {
    if s.is_empty() || !s.bytes().all(|b| b.is_ascii_digit()) {
        return None;
    }
    s.parse().ok()
}

fn int(s: &str) -> Option<i64> {
    match s.strip_prefix('-') {
        Some(r) => nat(r).map(|v| -(v as i64)),
        None => nat(s).map(|v| v as i64),
    }
}

fn parse_op(dim: usize, t: &str) -> Option<Op> {
    if let Some(rest) = t.strip_prefix('i') {
        let p: Vec<&str> = rest.split(':').collect();
        if p.len() != 3 {
            return None;
        }
        let v: Option<Vec<i64>> = p[2].split(',').map(int).collect();
        let v = v?;
        if v.len() != dim {
            return None;
        }
        Some(Op::Ins(nat(p[0])?, nat(p[1])? as usize, v))
    } else if let Some(rest) = t.strip_prefix('r') {
        let p: Vec<&str> = rest.split(':').collect();
        if p.len() != 2 {
            return None;
        }
        Some(Op::Rem(nat(p[0])?, nat(p[1])?))
    } else {
        None
    }
}

fn parse_line(a: &[&str]) -> Option<Line> {
    if a.len() != 9 {
        return None;
    }
    let metric = match a[0] {
        "e" => DistanceMetric::Euclidean,
        "m" => DistanceMetric::Manhattan,
        _ => return None,
    };
    let (n, d) = a[1].split_once('/')?;
    if d.contains('/') {
        return None;
    }
    let (num, den) = (nat(n)?, nat(d)?);
    let dim = nat(a[2])? as usize;
    let m = nat(a[3])? as usize;
    let m0 = nat(a[4])? as usize;
    let efc = nat(a[5])? as usize;
    let seed = nat(a[6])?;
    let ml = nat(a[7])?;
    if den == 0 || dim == 0 || dim > 8 {
        return None;
    }
    let mut ops = Vec::new();
    if a[8] != "_" {
        for t in a[8].split('|') {
            ops.push(parse_op(dim, t)?);
        }
    }
    Some(Line { metric, num, den, dim, m, m0, efc, seed, ml, ops })
}

fn show_ops(ops: &[Op]) -> String {
    if ops.is_empty() {
        return "_".into();
    }
    ops.iter()
        .map(|o| match o {
            Op::Ins(id, lv, v) => format!("i{}:{}:{}", id, lv, join(v)),
            Op::Rem(id, pick) => format!("r{}:{}", id, pick),
        })
        .collect::<Vec<_>>()
        .join("|")
}

fn show_line(op: &str, l: &Line) -> String {
    format!(
        "hcon {} {} {}/{} {} {} {} {} {} {} {}",
        op,
        if l.metric == DistanceMetric::Euclidean { "e" } else { "m" },
        l.num,
        l.den,
        l.dim,
        l.m,
        l.m0,
        l.efc,
        l.seed,
        l.ml,
        show_ops(&l.ops)
    )
}

fn new_index(l: &Line) -> HnswIndex {
    let mut cfg = HnswConfig::new(l.dim, l.metric);
    cfg.m = l.m;
    cfg.m_max = l.m0;
    cfg.ef_construction = l.efc;
    cfg.alpha = l.num as f32 / l.den as f32;
    cfg.ml = f64::from_bits(l.ml);
    HnswIndex::with_seed(cfg, l.seed)
}

fn fvec(v: &[i64]) -> Vec<f32> {
    v.iter().map(|x| *x as f32).collect()
}

fn idist(metric: DistanceMetric, a: &[i64], b: &[i64]) -> i64 {
    a.iter().zip(b).map(|(x, y)| if metric == DistanceMetric::Euclidean { (x - y) * (x - y) } else { (x - y).abs() }).sum()
}

fn tie_free(metric: DistanceMetric, ws: &[Vec<i64>]) -> bool {
    for i in 0..ws.len() {
        let mut seen = BTreeSet::new();
        for j in 0..ws.len() {
            if j != i && !seen.insert(idist(metric, &ws[i], &ws[j])) {
                return false;
            }
        }
    }
    true
}

fn ins_vecs(ops: &[Op]) -> Vec<Vec<i64>> {
    ops.iter().filter_map(|o| if let Op::Ins(_, _, v) = o { Some(v.clone()) } else { None }).collect()
}

fn level_of(ix: &HnswIndex, id: u64) -> Option<usize> {
    let (_, _, nodes) = ix.verif_dump();
    nodes.iter().find(|(i, _)| i.0 == id).map(|(_, ls)| ls.len().saturating_sub(1))
}

enum Built {
    Ok(HnswIndex),
    Level,
    Pick,
}

/// one attempt; `Err(())` = the HashMap handed out another entry point than `pick`
fn build_once(l: &Line) -> Result<Built, ()> {
    let ix = new_index(l);
    for op in &l.ops {
        match op {
            Op::Ins(id, lv, v) => {
                ix.insert(NodeId::new(*id), &fvec(v));
                if level_of(&ix, *id) != Some(*lv) {
                    return Ok(Built::Level);
                }
            }
            Op::Rem(id, pick) => {
                let was_entry = ix.verif_dump().0 == Some(NodeId::new(*id));
                let found = ix.remove(NodeId::new(*id));
                if found && was_entry && ix.len() > 0 {
                    if !ix.contains(NodeId::new(*pick)) {
                        return Ok(Built::Pick);
                    }
                    if ix.verif_dump().0 != Some(NodeId::new(*pick)) {
                        return Err(());
                    }
                }
            }
        }
    }
    Ok(Built::Ok(ix))
}

fn build(l: &Line, force_picks: bool) -> Built {
    for _ in 0..20000 {
        match build_once(l) {
            Ok(b) => return b,
            Err(()) => {
                if !force_picks {
                    // any choice will do: replay without insisting (one more attempt that ignores picks)
                    let mut l2 = l.clone();
                    return build_free(&l2);
                }
            }
        }
    }
    Built::Pick
}

/// build without forcing the entry-point choice (verdict lines)
fn build_free(l: &Line) -> Built {
    let ix = new_index(l);
    for op in &l.ops {
        match op {
            Op::Ins(id, lv, v) => {
                ix.insert(NodeId::new(*id), &fvec(v));
                if level_of(&ix, *id) != Some(*lv) {
                    return Built::Level;
                }
            }
            Op::Rem(id, _) => {
                ix.remove(NodeId::new(*id));
            }
        }
    }
    Built::Ok(ix)
}

fn show_dump(ix: &HnswIndex) -> String {
    let (entry, max_level, nodes) = ix.verif_dump();
    let mut parts = vec![entry.map_or("N".to_string(), |e| e.0.to_string()), max_level.to_string()];
    for (id, levels) in &nodes {
        let ls: Vec<String> = levels
            .iter()
            .map(|l| if l.is_empty() { "_".to_string() } else { l.iter().map(|n| n.0.to_string()).collect::<Vec<_>>().join(",") })
            .collect();
        parts.push(format!("{}={}", id.0, ls.join("/")));
    }
    parts.join(";")
}

fn search_sound(l: &Line, ix: &HnswIndex, q: &[i64]) -> bool {
    let qf = fvec(q);
    let r = ix.search_with_ef(&qf, 2, l.efc);
    if r.len() > 2 {
        return false;
    }
    let ids: BTreeSet<u64> = r.iter().map(|(i, _)| i.0).collect();
    if ids.len() != r.len() {
        return false;
    }
    for (i, d) in &r {
        match ix.get(*i) {
            None => return false,
            Some(v) => {
                if compute_distance(&qf, &v, l.metric).to_bits() != d.to_bits() {
                    return false;
                }
            }
        }
    }
    r.windows(2).all(|w| w[0].1 <= w[1].1)
}

fn verdicts(l: &Line, ix: &HnswIndex) -> (String, String) {
    let (entry, max_level, nodes) = ix.verif_dump();
    let level: BTreeMap<u64, usize> = nodes.iter().map(|(i, ls)| (i.0, ls.len().saturating_sub(1))).collect();
    let (mut a, mut b, mut c, mut d, mut e) = (true, true, true, true, true);
    for (id, ls) in &nodes {
        for (lc, list) in ls.iter().enumerate() {
            let mut seen = BTreeSet::new();
            for x in list {
                if !level.contains_key(&x.0) {
                    a = false;
                }
                if x.0 == id.0 {
                    b = false;
                }
                if !seen.insert(x.0) {
                    c = false;
                }
                if let Some(lv) = level.get(&x.0) {
                    if lc > *lv {
                        e = false;
                    }
                }
            }
            if list.len() > if lc == 0 { l.m0 } else { l.m } {
                d = false;
            }
        }
    }
    let f1 = match entry {
        None => nodes.is_empty(),
        Some(en) => level.contains_key(&en.0),
    };
    let f2 = match entry {
        None => true,
        Some(en) => level.get(&en.0) == Some(&max_level) && level.values().all(|lv| *lv <= max_level),
    };
    let ids: BTreeSet<u64> = nodes.iter().map(|(i, _)| i.0).collect();
    let g = ids.len() == nodes.len() && ix.len() == nodes.len();
    let s = ins_vecs(&l.ops).iter().all(|q| search_sound(l, ix, q));
    let fmt = |xs: Vec<(&str, bool)>| {
        let bad: Vec<&str> = xs.iter().filter(|(_, ok)| !ok).map(|(n, _)| *n).collect();
        if bad.is_empty() { "ok".to_string() } else { format!("viol:{}", bad.join(",")) }
    };
    (fmt(vec![("a", a), ("d", d), ("f1", f1), ("g", g), ("s", s)]), fmt(vec![("b", b), ("c", c), ("e", e), ("f2", f2)]))
}

fn words_needed(n: usize) -> usize {
    (n + 63) / 64
}

pub fn run(toks: &[&str]) -> String {
    if toks.is_empty() {
        return "bad-op".into();
    }
    let toks: Vec<String> = toks.iter().map(|s| s.to_string()).collect();
    guarded(move || {
        let a: Vec<&str> = toks[1..].iter().map(|s| s.as_str()).collect();
        match toks[0].as_str() {
            "hist" => {
                let Some(l) = parse_line(&a) else { return "bad-op".into() };
                if !tie_free(l.metric, &ins_vecs(&l.ops)) {
                    return "ties".into();
                }
                match build(&l, true) {
                    Built::Level => "level-mismatch".into(),
                    Built::Pick => "pick-mismatch".into(),
                    Built::Ok(ix) => {
                        let (core, shape) = verdicts(&l, &ix);
                        format!("{}#{}#{}#{}", core, shape, ix.len(), show_dump(&ix))
                    }
                }
            }
            "inv" => {
                let Some(l) = parse_line(&a) else { return "bad-op".into() };
                match build_free(&l) {
                    Built::Level => "level-mismatch".into(),
                    Built::Pick => "pick-mismatch".into(),
                    Built::Ok(ix) => verdicts(&l, &ix).0,
                }
            }
            "bq.ham" => {
                if a.len() != 2 {
                    return "bad-op".into();
                }
                let (Some(x), Some(y)) = (parse_ints(a[0]), parse_ints(a[1])) else { return "bad-op".into() };
                if words_needed(x.len()) != words_needed(y.len()) {
                    return "bad-op".into();
                }
                let (cx, cy) = (BinaryQuantizer::quantize(&fvec(&x)), BinaryQuantizer::quantize(&fvec(&y)));
                format!("{};{};{}", join(&cx), join(&cy), BinaryQuantizer::hamming_distance(&cx, &cy))
            }
            "sq.rt" => {
                if a.len() != 3 {
                    return "bad-op".into();
                }
                let (Some(mn), Some(lg), Some(xs)) = (int(a[0]), nat(a[1]), parse_ints(a[2])) else { return "bad-op".into() };
                if lg > 6 || xs.is_empty() {
                    return "bad-op".into();
                }
                let s = (1u64 << lg) as f32;
                let n = xs.len();
                let q = ScalarQuantizer::with_ranges(vec![mn as f32; n], vec![mn as f32 + 255.0 * s; n]);
                let codes = q.quantize(&fvec(&xs));
                let back = q.dequantize(&codes);
                let within = xs.iter().zip(&back).all(|(x, y)| *y <= *x as f32 && (*x as f32) < *y + s);
                let back_s: Vec<String> =
                    back.iter().map(|y| if y.fract() == 0.0 && y.abs() < 1e9 { format!("{}", *y as i64) } else { format!("f{:08x}", y.to_bits()) }).collect();
                format!("{};{};{}", join(&codes), back_s.join(","), if within { "within" } else { "off" })
            }
            _ => "bad-op".into(),
        }
    })
}

fn parse_ints(s: &str) -> Option<Vec<i64>> {
    if s == "-" || s.is_empty() {
        return Some(vec![]);
    }
    s.split(',').map(int).collect()
}

// ------------------------------------------------------------------------------------ generator

#[derive(Default)]
struct Stats {
    lines: BTreeMap<&'static str, usize>,
    ev: BTreeMap<&'static str, usize>,
}

impl Stats {
    fn line(&mut self, k: &'static str) {
        *self.lines.entry(k).or_default() += 1;
    }
    fn ev(&mut self, k: &'static str) {
        *self.ev.entry(k).or_default() += 1;
    }
}

fn rand_vec(rng: &mut Rng, dim: usize) -> Vec<i64> {
    let hi = if dim == 1 { 60 } else { 15 };
    (0..dim).map(|_| rng.below(hi + 1) as i64).collect()
}

/// a history; levels are read off the real index under (seed, ml)
fn gen_history(rng: &mut Rng, tie_free_wanted: bool, st: &mut Stats) -> Line {
    let metric = if rng.chance(1, 2) { DistanceMetric::Euclidean } else { DistanceMetric::Manhattan };
    let alphas: &[(u64, u64)] = if metric == DistanceMetric::Euclidean { &[(1, 1), (1, 1), (2, 1), (1, 2)] } else { &[(1, 1), (1, 1), (2, 1), (1, 2), (3, 2)] };
    let (num, den) = *rng.pick(alphas);
    let dim = rng.range(1, 3) as usize;
    let m = *rng.pick(&[0usize, 1, 1, 2, 2, 3, 4]);
    let m0 = *rng.pick(&[0usize, 1, 2, 2, 3, 4, 6]);
    let efc = *rng.pick(&[0usize, 1, 2, 3, 4, 8, 8, 16]);
    let seed = rng.below(1 << 32);
    let ml = *rng.pick(&[0.0f64, 0.4, 0.7, 1.0, 1.0, 2.0]);
    let mut l = Line { metric, num, den, dim, m, m0, efc, seed, ml: ml.to_bits(), ops: vec![] };
    let ix = new_index(&l);
    let n_ops = rng.range(0, 11) as usize;
    let pool = rng.range(2, 7);
    let mut present: BTreeSet<u64> = BTreeSet::new();
    let mut entry: Option<u64> = None;
    let mut max_level = 0usize;
    let mut ws: Vec<Vec<i64>> = Vec::new();
    for _ in 0..n_ops {
        if present.is_empty() || rng.chance(13, 20) {
            // insert
            let fresh: Vec<u64> = (1..=pool).filter(|i| !present.contains(i)).collect();
            let id = if !fresh.is_empty() && rng.chance(3, 4) { *rng.pick(&fresh) } else { rng.range(1, pool) };
            let mut v = rand_vec(rng, dim);
            if tie_free_wanted {
                let mut ok = false;
                for _ in 0..60 {
                    ws.push(v.clone());
                    let t = tie_free(metric, &ws);
                    ws.pop();
                    if t {
                        ok = true;
                        break;
                    }
                    v = rand_vec(rng, dim);
                }
                if !ok {
                    break;
                }
            } else if !ws.is_empty() && rng.chance(1, 6) {
                v = rng.pick(&ws).clone(); // an intended tie: the same vector again
            }
            ws.push(v.clone());
            ix.insert(NodeId::new(id), &fvec(&v));
            let lv = level_of(&ix, id).unwrap_or(0);
            st.ev(if present.contains(&id) { "insert.present-id" } else { "insert.fresh-id" });
            if lv > 0 {
                st.ev("insert.level>0");
            }
            if entry.is_none() {
                entry = Some(id);
                max_level = lv;
            } else if lv > max_level {
                entry = Some(id);
                max_level = lv;
                st.ev("insert.new-top");
            }
            present.insert(id);
            l.ops.push(Op::Ins(id, lv, v));
        } else {
            let id = if entry.is_some() && rng.chance(3, 10) {
                entry.unwrap()
            } else if rng.chance(1, 6) {
                rng.range(1, pool + 1)
            } else {
                *rng.pick(&present.iter().copied().collect::<Vec<_>>())
            };
            let was = present.remove(&id);
            let rest: Vec<u64> = present.iter().copied().collect();
            let pick = if rest.is_empty() { 0 } else { *rng.pick(&rest) };
            if was && entry == Some(id) {
                entry = if rest.is_empty() { None } else { Some(pick) };
                st.ev("remove.entry-point");
            } else if was {
                st.ev("remove.other");
            } else {
                st.ev("remove.absent");
            }
            ix.remove(NodeId::new(id));
            l.ops.push(Op::Rem(id, pick));
        }
    }
    // how often pruning / selection limits were reached
    let (_, _, nodes) = ix.verif_dump();
    for (_, ls) in &nodes {
        for (lc, list) in ls.iter().enumerate() {
            if list.len() == if lc == 0 { m0 } else { m } && !list.is_empty() {
                st.ev("list.at-bound");
            }
        }
    }
    l
}

pub fn generate(seed: u64, cases: usize, out: &mut Vec<String>) {
    let mut rng = Rng::new(seed ^ 0x68c0_6e5f_11aa_7731);
    let mut st = Stats::default();
    // fixed boundary lines
    out.push("# case 0 seed 0".to_string());
    for s in [
        "hcon hist e 1/1 2 2 4 8 1 0 _",
        "hcon inv e 1/1 2 2 4 8 1 0 _",
        "hcon hist e 1/1 1 2 4 8 1 0 i1:0:5",
        "hcon hist e 1/1 1 2 4 8 1 0 i1:0:5|i1:0:9",
        "hcon hist e 1/1 1 2 4 8 1 0 i1:0:5|r1:0",
        "hcon hist e 1/1 1 2 4 8 1 0 i1:0:5|r2:0",
        "hcon hist m 1/1 1 1 1 8 1 0 i1:0:0|i2:0:10|i3:0:4|i4:0:9",
        "hcon hist m 1/1 1 1 2 8 1 0 i1:0:0|i2:0:10|i3:0:4|r1:3|i4:0:9",
        "hcon inv m 1/1 1 1 2 8 1 0 i1:0:0|i2:0:0|i3:0:0|r1:3|i4:0:0",
        "hcon hist e 1/1 1 0 0 8 1 0 i1:0:0|i2:0:10",
        "hcon hist e 1/1 1 2 4 0 1 0 i1:0:0|i2:0:10|i3:0:3",
        "hcon bq.ham - -",
        "hcon bq.ham 1,-1,0 1,1,-2",
        "hcon bq.ham 1 -1",
        "hcon sq.rt 0 0 0,1,254,255,256,-1",
        "hcon sq.rt -10 2 -10,-9,-7,-6,1010,1011",
    ] {
        out.push(s.to_string());
    }
    for case in 1..=cases {
        out.push(format!("# case {} seed {}", case, seed));
        let l = gen_history(&mut rng, true, &mut st);
        // the exact-graph comparison needs the recorded entry-point picks to be reproducible: the real
        // choice is `HashMap::keys().next()`; a history whose picks cannot be forced (seen once in
        // ~170k thorough lines, after a duplicate insert) is compared through its invariants only
        let forced = matches!(build(&l, true), Built::Ok(_));
        if forced {
            out.push(show_line("hist", &l));
            st.line("hist");
        }
        if !forced || rng.chance(1, 2) {
            out.push(show_line("inv", &l));
            st.line("inv");
        }
        let l2 = gen_history(&mut rng, false, &mut st);
        out.push(show_line("inv", &l2));
        st.line("inv");
        if rng.chance(1, 2) {
            // binary quantisation: lengths around the 64-bit word boundaries
            let n = *rng.pick(&[0u64, 1, 2, 5, 63, 64, 65, 100, 128, 129]) as usize;
            let n2 = if rng.chance(1, 8) { (n + rng.range(1, 3) as usize).min(words_needed(n).max(1) * 64) } else { n };
            let n2 = if words_needed(n2) == words_needed(n) { n2 } else { n };
            let a: Vec<i64> = (0..n).map(|_| rng.below(7) as i64 - 3).collect();
            let b: Vec<i64> = if rng.chance(1, 6) && n2 == n { a.clone() } else { (0..n2).map(|_| rng.below(7) as i64 - 3).collect() };
            out.push(format!("hcon bq.ham {} {}", list_arg(&a), list_arg(&b)));
            st.line("bq.ham");
        }
        if rng.chance(1, 2) {
            let mn = rng.below(101) as i64 - 50;
            let lg = rng.below(7);
            let s = 1i64 << lg;
            let n = rng.range(1, 6);
            let xs: Vec<i64> = (0..n)
                .map(|_| match rng.below(8) {
                    0 => mn,
                    1 => mn + 255 * s,
                    2 => mn - rng.range(1, 40) as i64,
                    3 => mn + 255 * s + rng.range(1, 40) as i64,
                    _ => mn + rng.below(255 * s as u64 + 1) as i64,
                })
                .collect();
            out.push(format!("hcon sq.rt {} {} {}", mn, lg, join(&xs)));
            st.line("sq.rt");
        }
    }
    if std::env::var("VH_STATS").is_ok() {
        eprintln!("hcon lines: {:?}", st.lines);
        eprintln!("hcon events: {:?}", st.ev);
    }
}
