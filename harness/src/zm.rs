//! Stream `zm` — zone maps, property indexes and the planner's path choice (C10, storage half).
//! Stateful: reset at every `# case`.
//!
//! State: one in-memory `GrafeoDB` (its `LpgStore` is driven directly) and, next to it, a bare
//! `PropertyStorage<NodeId>` that receives the same property writes (`might` / `range` / `zone`
//! are answered by the bare storage and cross-checked with the store's node-property storage).
//!
//!   zm node                                  create_node(&[])                     → id
//!   zm set <id> <key> <tok>                  set_node_property (no-op unless <id> is a live node) → -
//!   zm remove <id> <key>                     remove_node_property                 → old token | none
//!   zm delnode <id>                          delete_node                          → true|false
//!   zm rebuild <key=id.id..,key=..|->        rebuild_zone_maps. The hash maps are seeded randomly
//!                                            (`ahash::RandomState`), so the iteration order that
//!                                            `rebuild_zone_map` walks is not reproducible: the
//!                                            argument is `-` while no column is order-sensitive, or
//!                                            `~k.k` naming the keys whose rebuilt min/max depend on
//!                                            that order (printed as `~` by `zone` until the next
//!                                            rebuild; the model re-checks the claim). An explicit
//!                                            order is read by the model only.
//!   zm mix <op> <tok> <tok,tok,..>           stateless: the listed values in a fresh column,
//!                                            `rebuild_zone_maps`, `might_match(op, tok)`; repeated
//!                                            over many freshly seeded maps → the *set* of
//!                                            (answer; zone map) outcomes, which the model computes
//!                                            over all iteration orders
//!   zm zone <key>                            zone map                             → min,max,nulls,rows | none
//!   zm might <key> <op> <tok>                PropertyStorage::might_match         → true|false
//!   zm range <key> <lo|*> <hi|*> <li> <hi>   PropertyStorage::might_match_range   → true|false
//!   zm index <key> / zm dropindex <key>      create/drop_property_index           → - / true|false
//!   zm find <key> <tok>                      find_nodes_by_property               → sorted ids | empty
//!   zm findrange <key> <lo|*> <hi|*> <li> <hi>  find_nodes_in_range               → sorted ids | empty
//!   zm findprops <key=tok,key=tok..>         find_nodes_by_properties             → sorted ids | empty
//!   zm plan <key> <op> <tok>                 GQL `MATCH (n) WHERE n.k<key> <op> <lit> RETURN n`
//!                                            through a session                     → sorted ids | empty
//!   zm get <id> <key>                        get_node_property                    → token | none
//!   zm gql <hex utf8>                        (debugging aid, never generated) any GQL text
//!   zm edge <src> <dst> <key> <tok>          (debugging aid, never generated) edge with a property
#![allow(unused)]
use crate::util::*;
use crate::vals::{tok, untok};
use grafeo_common::types::{NodeId, PropertyKey, Value};
use grafeo_core::graph::lpg::{CompareOp, PropertyStorage};
use grafeo_engine::database::GrafeoDB;

pub struct ZmSt {
    db: GrafeoDB,
    ps: PropertyStorage<NodeId>,
    /// keys whose zone map was rebuilt over order-sensitive content (`rebuild ~k.k`): their
    /// min/max depend on the random iteration order and are printed as `~`
    fuzzy: Vec<String>,
}
impl ZmSt {
    pub fn new() -> Self {
        ZmSt { db: GrafeoDB::new_in_memory(), ps: PropertyStorage::new(), fuzzy: vec![] }
    }
}

fn key(code: &str) -> String {
    format!("k{}", code)
}

// ------------------------------------------------------------------ value pools

const P53: i64 = 1 << 53;

fn f(x: f64) -> String {
    format!("F{:016x}", x.to_bits())
}

/// small integers, huge integers around ±2^53 and the i64 extremes
fn int_pool() -> Vec<String> {
    let mut v: Vec<i64> = vec![0, 1, 2, 3, 5, 7, -1, -2, -5, 10, 100];
    v.extend([P53 - 1, P53, P53 + 1, P53 + 2, P53 + 3, -P53, -P53 - 1, -P53 - 2]);
    v.extend([i64::MAX, i64::MAX - 1, i64::MIN, i64::MIN + 1, (1 << 62) + 1]);
    v.iter().map(|i| format!("I{}", i)).collect()
}
fn small_int_pool() -> Vec<String> {
    [0i64, 1, 2, 3, 5, 7, -1, -2, 10].iter().map(|i| format!("I{}", i)).collect()
}
/// integer-valued floats (incl. ±0, 2^53, 2^63), exact binary fractions
fn nice_float_pool() -> Vec<String> {
    [0.0f64, -0.0, 1.0, 2.0, 3.0, 5.0, -1.0, -2.0, 10.0, 0.5, 1.5, 2.5, -1.5, 0.25, 9007199254740992.0,
     9007199254740994.0, -9007199254740992.0, 9223372036854775808.0, -9223372036854775808.0, 1e300]
        .iter()
        .map(|x| f(*x))
        .collect()
}
/// fractional floats within 2^-52 of each other, tiny values, NaNs, infinities, subnormals
fn odd_float_pool() -> Vec<String> {
    let mut v: Vec<String> = [0.1f64, 0.1 + 1.3877787807814457e-17, 0.30000000000000004, 0.3, 1e-20, -1e-20, 1e-300,
        2e-300, 1.0 - 1.1102230246251565e-16, 1.0 + 2.220446049250313e-16, 2.220446049250313e-16,
        f64::MAX, f64::MIN_POSITIVE, f64::INFINITY, f64::NEG_INFINITY, f64::NAN]
        .iter()
        .map(|x| f(*x))
        .collect();
    v.push("F0000000000000001".into()); // smallest subnormal
    v.push("Ffff8000000000001".into()); // negative NaN with payload
    v.push("F7ff0000000000001".into()); // signalling NaN pattern
    v
}
fn str_pool() -> Vec<String> {
    ["", "a", "b", "ab", "A", "1", "a0"].iter().map(|s| format!("S{}", hex(s.as_bytes()))).collect()
}
fn misc_pool() -> Vec<String> {
    vec!["N".into(), "B0".into(), "B1".into()]
}

/// what the value pool of a case looks like
fn case_pool(r: &mut Rng) -> (Vec<String>, Vec<String>) {
    let mut p = Vec::new();
    match r.below(13) {
        9 => {
            // around 2^53, where `i64 as f64` rounds: integers and the floats they collide with
            for i in [P53 - 1, P53, P53 + 1, P53 + 2, P53 + 3, -P53, -P53 - 1, -P53 - 2] {
                p.push(format!("I{}", i));
            }
            for x in [9007199254740992.0f64, 9007199254740994.0, -9007199254740992.0, -9007199254740994.0] {
                p.push(f(x));
            }
        }
        10 => {
            // floats closer than f64::EPSILON to each other (the filter's equality) and zeros
            for x in [0.0f64, -0.0, 1e-20, -1e-20, 0.1, 0.1 + 1.3877787807814457e-17, 0.3, 0.30000000000000004,
                      1.0, 1.0 - 1.1102230246251565e-16, 1.0 + 2.220446049250313e-16, 2.220446049250313e-16] {
                p.push(f(x));
            }
            p.push("I0".into());
            p.push("I1".into());
        }
        11 => {
            // infinities and NaNs next to ordinary numbers
            for x in [f64::INFINITY, f64::NEG_INFINITY, f64::NAN, 1.0, -1.0, 0.0, f64::MAX] {
                p.push(f(x));
            }
            p.push("I1".into());
            p.push("I-1".into());
        }
        0 => p.extend(small_int_pool()),                                  // homogeneous ints
        1 => p.extend(str_pool()),                                        // homogeneous strings
        2 => { p.extend(small_int_pool()); p.extend(nice_float_pool()); } // ints and nice floats
        3 => { p.extend(int_pool()); p.extend(nice_float_pool()); }       // huge ints and floats
        4 => { p.extend(nice_float_pool()); p.extend(odd_float_pool()); } // floats only
        5 => { p.extend(small_int_pool()); p.extend(str_pool()); p.extend(misc_pool()); }
        6 => { p.extend(small_int_pool()); p.push("N".into()); p.push("N".into()); }
        7 => { p.extend(int_pool()); }
        _ => {
            p.extend(int_pool());
            p.extend(nice_float_pool());
            p.extend(odd_float_pool());
            p.extend(str_pool());
            p.extend(misc_pool());
        }
    }
    // a case works on a handful of values so that overwrites, equal values and prunes happen
    let n = r.range(3, 9) as usize;
    let mut out = Vec::new();
    for _ in 0..n {
        out.push(r.pick(&p).clone());
    }
    (p, out)
}

/// fresh randomly seeded maps per `mix` line (an outcome needs a particular first element and
/// particular tie order: frequency ≥ 1/24 for ≤ 6 values; missed with probability < 1e-11)
const MIX_SAMPLES: usize = 600;

const OPS: [&str; 6] = ["eq", "ne", "lt", "le", "gt", "ge"];

/// generator-side mirror: liveness and, per key, a hash map of the same type as
/// `PropertyColumn::values` receiving the same inserts/removes (its iteration order is what
/// `rebuild_zone_map` walks).
struct Mirror {
    next: u64,
    live: Vec<u64>,
    cols: Vec<Vec<(u64, String)>>,
}

impl Mirror {
    fn set(&mut self, id: u64, k: usize, t: &str) {
        if !self.live.contains(&id) {
            return; // the store ignores writes to ids that are not live nodes
        }
        self.cols[k].retain(|(i, _)| *i != id);
        self.cols[k].push((id, t.to_string()));
    }
    fn remove(&mut self, id: u64, k: usize) {
        self.cols[k].retain(|(i, _)| *i != id);
    }
    fn delnode(&mut self, id: u64) {
        if let Some(p) = self.live.iter().position(|x| *x == id) {
            self.live.remove(p);
            for c in self.cols.iter_mut() {
                c.retain(|(i, _)| *i != id);
            }
        }
    }
    /// may the rebuilt zone map of column `k` depend on the iteration order? (conservative:
    /// two non-null values of different comparison classes, a NaN next to anything, or two
    /// different representations that collide as f64)
    fn sensitive(&self, k: usize) -> bool {
        let vs: Vec<Value> = self.cols[k].iter().map(|(_, t)| untok(t)).filter(|v| !matches!(v, Value::Null)).collect();
        for i in 0..vs.len() {
            for j in 0..i {
                let (a, b) = (&vs[i], &vs[j]);
                let ca = class(a);
                if ca == 3 || ca != class(b) {
                    return true;
                }
                if ca == 0 && tok(a) != tok(b) && as_f64(a) == as_f64(b) {
                    return true;
                }
            }
        }
        false
    }
    /// `rebuild -` when no column is order-sensitive, otherwise a stateless `mix` line per
    /// sensitive column (small ones)
    fn rebuild_lines(&self, r: &mut Rng, pool: &[String], out: &mut Vec<String>) {
        let sens: Vec<String> = (0..self.cols.len()).filter(|k| self.sensitive(*k)).map(|k| k.to_string()).collect();
        if sens.is_empty() {
            out.push("zm rebuild -".into());
            return;
        }
        out.push(format!("zm rebuild ~{}", sens.join(".")));
        for k in 0..self.cols.len() {
            if self.sensitive(k) && self.cols[k].len() <= 6 {
                let vals: Vec<String> = self.cols[k].iter().map(|(_, t)| t.clone()).collect();
                out.push(format!("zm mix {} {} {}", r.pick(&OPS), r.pick(pool), vals.join(",")));
            }
        }
    }
}

fn class(v: &Value) -> u8 {
    match v {
        Value::Int64(_) => 0,
        Value::Float64(x) => if x.is_nan() { 3 } else { 0 },
        Value::String(_) => 1,
        Value::Bool(_) => 2,
        _ => 4,
    }
}
fn as_f64(v: &Value) -> f64 {
    match v {
        Value::Int64(i) => *i as f64,
        Value::Float64(x) => *x,
        _ => 0.0,
    }
}

fn bound(r: &mut Rng, pool: &[String]) -> String {
    if r.chance(1, 4) { "*".into() } else { r.pick(pool).clone() }
}

pub fn generate(seed: u64, cases: usize, out: &mut Vec<String>) {
    let mut r = Rng::new(seed ^ 0x7a6d);
    for c in 0..cases {
        out.push(format!("# case {} seed {}", c, seed));
        let nkeys = if r.chance(2, 3) { 1 } else { 2 };
        let (full, pool) = case_pool(&mut r);
        let mut m = Mirror { next: 0, live: vec![], cols: (0..nkeys).map(|_| Vec::new()).collect() };
        // index before any data in a third of the cases
        if r.chance(1, 3) {
            out.push("zm index 0".into());
        }
        for _ in 0..r.range(2, 6) {
            out.push("zm node".into());
            m.live.push(m.next);
            m.next += 1;
        }
        let wild = r.chance(1, 6); // writes to ids that are not live nodes
        let len = r.range(6, 50);
        for _ in 0..len {
            let k = r.below(nkeys) as usize;
            let id = if wild && r.chance(1, 5) { r.below(m.next + 2) } else if m.live.is_empty() { 0 } else { *r.pick(&m.live) };
            let v = r.pick(&pool).clone();
            // query values: the case's values or anything from the category (so that prunes happen)
            let q = if r.chance(1, 2) { r.pick(&pool).clone() } else { r.pick(&full).clone() };
            match r.below(100) {
                0..=37 => {
                    out.push(format!("zm set {} {} {}", id, k, v));
                    m.set(id, k, &v);
                }
                38..=44 => {
                    out.push(format!("zm remove {} {}", id, k));
                    m.remove(id, k);
                }
                45..=47 => {
                    out.push(format!("zm delnode {}", id));
                    m.delnode(id);
                }
                48..=50 => {
                    out.push("zm node".into());
                    m.live.push(m.next);
                    m.next += 1;
                }
                51..=55 => m.rebuild_lines(&mut r, &pool, out),
                56..=58 => out.push(format!("zm index {}", k)),
                59..=60 => out.push(format!("zm dropindex {}", k)),
                61..=75 => out.push(format!("zm might {} {} {}", k, r.pick(&OPS), q)),
                76..=79 => {
                    let (lo, hi) = (bound(&mut r, &pool), bound(&mut r, &pool));
                    out.push(format!("zm range {} {} {} {} {}", k, lo, hi, r.below(2), r.below(2)));
                }
                80..=82 => out.push(format!("zm zone {}", k)),
                83..=88 => out.push(format!("zm find {} {}", k, q)),
                89..=91 => {
                    let (lo, hi) = (bound(&mut r, &pool), bound(&mut r, &pool));
                    out.push(format!("zm findrange {} {} {} {} {}", k, lo, hi, r.below(2), r.below(2)));
                }
                92..=93 => {
                    let v2 = r.pick(&pool).clone();
                    out.push(format!("zm findprops {}={},{}={}", k, v, r.below(nkeys), v2));
                }
                94..=98 => {
                    if literal(&untok(&q)).is_some() {
                        out.push(format!("zm plan {} {} {}", k, r.pick(&OPS), q));
                    }
                }
                _ => out.push(format!("zm get {} {}", id, k)),
            }
        }
        // final sweep over every key
        for k in 0..nkeys {
            out.push(format!("zm zone {}", k));
            for i in 0..4 {
                let v = if i < 2 { r.pick(&pool).clone() } else { r.pick(&full).clone() };
                for op in OPS {
                    out.push(format!("zm might {} {} {}", k, op, v));
                }
                out.push(format!("zm find {} {}", k, v));
                let v2 = r.pick(&pool).clone();
                out.push(format!("zm range {} {} {} {} {}", k, v, v2, r.below(2), r.below(2)));
                out.push(format!("zm findrange {} {} {} {} {}", k, v, v2, r.below(2), r.below(2)));
                if literal(&untok(&v)).is_some() {
                    out.push(format!("zm plan {} {} {}", k, r.pick(&OPS), v));
                }
            }
            if r.chance(1, 2) {
                m.rebuild_lines(&mut r, &pool, out);
                out.push(format!("zm zone {}", k));
                let v = r.pick(&pool).clone();
                for op in OPS {
                    out.push(format!("zm might {} {} {}", k, op, v));
                }
            }
            // index created after the data / dropped: same lookups again
            let v = r.pick(&pool).clone();
            out.push(format!("zm find {} {}", k, v));
            out.push(format!("zm {} {}", if r.chance(2, 3) { "index" } else { "dropindex" }, k));
            out.push(format!("zm find {} {}", k, v));
            if literal(&untok(&v)).is_some() {
                out.push(format!("zm plan {} eq {}", k, v));
            }
        }
    }
}

// ------------------------------------------------------------------ implementation side

fn cmp_op(s: &str) -> CompareOp {
    match s {
        "eq" => CompareOp::Eq,
        "ne" => CompareOp::Ne,
        "lt" => CompareOp::Lt,
        "le" => CompareOp::Le,
        "gt" => CompareOp::Gt,
        _ => CompareOp::Ge,
    }
}

fn gql_op(s: &str) -> &'static str {
    match s {
        "eq" => "=",
        "ne" => "<>",
        "lt" => "<",
        "le" => "<=",
        "gt" => ">",
        _ => ">=",
    }
}

/// GQL literal text of a value, when the lexer has one for it (no exponent notation, no NaN/inf;
/// a leading `-` parses as unary minus applied to a literal).
pub fn literal(v: &Value) -> Option<String> {
    match v {
        Value::Null => Some("NULL".into()),
        Value::Bool(b) => Some(if *b { "true".into() } else { "false".into() }),
        Value::Int64(i) => {
            if *i == i64::MIN { None } else { Some(format!("{}", i)) }
        }
        Value::Float64(x) => {
            if !x.is_finite() {
                return None;
            }
            let s = format!("{:?}", x);
            if s.contains('e') || s.contains('E') { None } else { Some(s) }
        }
        Value::String(s) => {
            if s.chars().all(|c| c.is_ascii_alphanumeric()) { Some(format!("'{}'", s)) } else { None }
        }
        _ => None,
    }
}

/// sorted ids; the empty set is `empty` (a bare `-` in the spec column would mean "unconstrained")
fn ids(mut v: Vec<u64>) -> String {
    v.sort_unstable();
    if v.is_empty() { "empty".into() } else { join(&v) }
}

fn opt_val(s: &str) -> Option<Value> {
    if s == "*" { None } else { Some(untok(s)) }
}

fn zone_str(z: Option<grafeo_core::index::zone_map::ZoneMapEntry>, fuzzy: bool) -> String {
    match z {
        None => "none".into(),
        Some(z) if fuzzy => format!("~,~,{},{}", z.null_count, z.row_count),
        Some(z) => format!(
            "{},{},{},{}",
            z.min.as_ref().map(tok).unwrap_or("-".into()),
            z.max.as_ref().map(tok).unwrap_or("-".into()),
            z.null_count,
            z.row_count
        ),
    }
}

fn both(a: String, b: String) -> String {
    if a == b { a } else { format!("DIVERGE:{}|{}", a, b) }
}

fn run_gql(db: &GrafeoDB, text: &str) -> String {
    let s = db.session();
    match s.execute(text) {
        Ok(r) => {
            let mut v = Vec::new();
            for row in &r.rows {
                match row.first() {
                    Some(Value::Int64(i)) if row.len() == 1 => v.push(*i as u64),
                    _ => return format!("rows:{:?}", r.rows).replace(' ', ""),
                }
            }
            ids(v)
        }
        Err(e) => format!("err:{}", e.to_string().lines().next().unwrap_or("").replace(' ', "_")),
    }
}

pub fn run(st: &mut ZmSt, args: &[&str]) -> String {
    let a = args.to_vec();
    guarded(move || {
        let store = st.db.store().clone();
        let nid = |x: &str| NodeId::new(x.parse().unwrap());
        match a.as_slice() {
            ["node"] => format!("{}", store.create_node(&[]).as_u64()),
            ["set", id, k, v] => {
                // since 9bbd0dc the store ignores a write to an id that is not a live node; the
                // bare storage (which has no notion of nodes) mirrors the store's column
                let live = store.get_node(nid(id)).is_some();
                store.set_node_property(nid(id), &key(k), untok(v));
                if live {
                    st.ps.set(nid(id), PropertyKey::new(key(k)), untok(v));
                }
                "-".into()
            }
            ["remove", id, k] => {
                let a = store.remove_node_property(nid(id), &key(k));
                let b = st.ps.remove(nid(id), &PropertyKey::new(key(k)));
                let sh = |x: Option<Value>| x.as_ref().map(tok).unwrap_or("none".into());
                both(sh(b), sh(a))
            }
            ["delnode", id] => {
                let ok = store.delete_node(nid(id));
                if ok {
                    st.ps.remove_all(nid(id));
                }
                format!("{}", ok)
            }
            ["rebuild", ords] => {
                store.rebuild_zone_maps();
                st.ps.rebuild_zone_maps();
                st.fuzzy = match ords.strip_prefix('~') {
                    Some(ks) => ks.split('.').map(|k| k.to_string()).collect(),
                    None => vec![],
                };
                "-".into()
            }
            ["mix", op, q, vals] => {
                let vs: Vec<Value> = vals.split(',').map(untok).collect();
                let qv = untok(q);
                let pk = PropertyKey::new("m");
                let mut answers = std::collections::BTreeSet::new();
                let mut zones = std::collections::BTreeSet::new();
                for _ in 0..MIX_SAMPLES {
                    let ps: PropertyStorage<NodeId> = PropertyStorage::new();
                    for (i, v) in vs.iter().enumerate() {
                        ps.set(NodeId::new(i as u64), pk.clone(), v.clone());
                    }
                    ps.rebuild_zone_maps();
                    answers.insert(format!("{}", ps.might_match(&pk, cmp_op(op), &qv)));
                    zones.insert(zone_str(ps.zone_map(&pk), false));
                }
                format!(
                    "{};{}",
                    answers.into_iter().collect::<Vec<_>>().join("|"),
                    zones.into_iter().collect::<Vec<_>>().join("|")
                )
            }
            ["zone", k] => {
                let pk = PropertyKey::new(key(k));
                let fz = st.fuzzy.iter().any(|x| x == k);
                both(zone_str(st.ps.zone_map(&pk), fz), zone_str(store.node_property_zone_map(&pk), fz))
            }
            ["might", k, op, v] => {
                let pk = PropertyKey::new(key(k));
                let val = untok(v);
                both(
                    format!("{}", st.ps.might_match(&pk, cmp_op(op), &val)),
                    format!("{}", store.node_property_might_match(&pk, cmp_op(op), &val)),
                )
            }
            ["range", k, lo, hi, li, hi_incl] => {
                let pk = PropertyKey::new(key(k));
                let (l, h) = (opt_val(lo), opt_val(hi));
                format!("{}", st.ps.might_match_range(&pk, l.as_ref(), h.as_ref(), *li == "1", *hi_incl == "1"))
            }
            ["index", k] => {
                store.create_property_index(&key(k));
                "-".into()
            }
            ["dropindex", k] => format!("{}", store.drop_property_index(&key(k))),
            ["find", k, v] => ids(store.find_nodes_by_property(&key(k), &untok(v)).iter().map(|n| n.as_u64()).collect()),
            ["findrange", k, lo, hi, li, hi_incl] => {
                let (l, h) = (opt_val(lo), opt_val(hi));
                ids(store
                    .find_nodes_in_range(&key(k), l.as_ref(), h.as_ref(), *li == "1", *hi_incl == "1")
                    .iter()
                    .map(|n| n.as_u64())
                    .collect())
            }
            ["findprops", conds] => {
                let parsed: Vec<(String, Value)> = conds
                    .split(',')
                    .map(|c| {
                        let (k, v) = c.split_once('=').unwrap();
                        (key(k), untok(v))
                    })
                    .collect();
                let refs: Vec<(&str, Value)> = parsed.iter().map(|(k, v)| (k.as_str(), v.clone())).collect();
                ids(store.find_nodes_by_properties(&refs).iter().map(|n| n.as_u64()).collect())
            }
            ["plan", k, op, v] => match literal(&untok(v)) {
                Some(lit) => run_gql(&st.db, &format!("MATCH (n) WHERE n.{} {} {} RETURN n", key(k), gql_op(op), lit)),
                None => "no-literal".into(),
            },
            ["get", id, k] => store
                .get_node_property(nid(id), &PropertyKey::new(key(k)))
                .as_ref()
                .map(tok)
                .unwrap_or("none".into()),
            // debugging aid, never generated: an edge src→dst of type T carrying one property
            ["edge", sr, d, k, v] => {
                let e = store.create_edge(nid(sr), nid(d), "T");
                store.set_edge_property(e, &key(k), untok(v));
                format!("{}", e.as_u64())
            }
            ["gql", h] => run_gql(&st.db, &String::from_utf8(unhex(h).unwrap()).unwrap()),
            _ => "bad-op".into(),
        }
    })
}
