//! Stream `opt` — one query through translate → bind → optimize (any subset of the three
//! rewrites, fresh / stale / no statistics) → plan (factorized on/off) → execute (C09, C10).
use crate::q::*;
use crate::util::*;
use grafeo_common::types::NodeId;
use grafeo_core::graph::lpg::LpgStore;
use grafeo_engine::query::{Executor, Optimizer, Planner, binder::Binder, translate_cypher, translate_gql};
use grafeo_engine::transaction::TransactionManager;
use std::sync::Arc;

pub fn build_store(nodes: &[GNode], edges: &[GEdge]) -> Arc<LpgStore> {
    let store = Arc::new(LpgStore::new());
    for n in nodes {
        let labels: Vec<String> = n.labels.iter().map(|l| format!("L{}", l)).collect();
        let refs: Vec<&str> = labels.iter().map(|s| s.as_str()).collect();
        let id = store.create_node(&refs);
        assert_eq!(id.as_u64(), n.id);
        for (k, v) in &n.props {
            store.set_node_property(id, &format!("k{}", k), crate::vals::untok(v));
        }
    }
    for e in edges {
        let id = store.create_edge(NodeId::new(e.src), NodeId::new(e.dst), &format!("T{}", e.ty));
        assert_eq!(id.as_u64(), e.id);
    }
    store
}

pub fn generate(seed: u64, cases: usize, out: &mut Vec<String>) {
    let mut r = Rng::new(seed ^ 0x6f7074);
    // plan-cache key: texts differing only in whitespace inside a literal
    for (a, b) in [("MATCH (n) RETURN 'a  b'", "MATCH (n) RETURN 'a b'"), ("MATCH (n)  RETURN  'x'", "MATCH (n) RETURN 'x'"), ("MATCH (n) RETURN \"p\tq\"", "MATCH (n) RETURN \"p q\""), ("MATCH (n) RETURN 'it\\'s  x'", "MATCH (n) RETURN 'it\\'s x'")] {
        out.push(format!("opt cache2 {} {}", hex(a.as_bytes()), hex(b.as_bytes())));
    }
    for c in 0..cases {
        out.push(format!("# case {} seed {}", c, seed));
        let (nodes, edges) = gen_graph(&mut r);
        for _ in 0..2 {
            let (start, hops, preds, ret, distinct, ord, skip, lim) = gen_query(&mut r);
            if preds.contains("z/") || preds.contains("y/") {
                continue; // GQL front end has no IS NULL
            }
            // C10: physical configurations
            for _ in 0..2 {
                let fact = if r.chance(1, 2) { 1 } else { 0 };
                let idx: Vec<u64> = (0..3).filter(|_| r.chance(1, 2)).collect();
                for lang in ["gql", "cypher"] {
                    out.push(format!(
                        "opt cfg {} {} {} {} {} {} {} {} {} {} {} {} {}",
                        nodes_arg(&nodes), edges_arg(&edges), start, hops, preds, ret, distinct, ord, skip, lim, lang, fact, list_arg(&idx)
                    ));
                }
            }
            // C10: histories (execute, change the data, execute the same text again)
            for lang in ["gql", "cypher"] {
                let fact = if r.chance(1, 2) { 1 } else { 0 };
                let idx: Vec<u64> = (0..3).filter(|_| r.chance(1, 2)).collect();
                let e1 = if edges.is_empty() { 0 } else { r.below(edges.len() as u64 + 1) };
                let vals = ["I1", "I2", "I3", "I5", "S61", "S62", "I-4", "_"];
                let mut pre: Vec<String> = vec![];
                for n in &nodes {
                    for k in 0..3u64 {
                        if r.chance(1, 4) {
                            let v = r.pick(&vals).to_string();
                            let now = n.props.iter().find(|(k2, _)| *k2 == k).map(|(_, v)| v.clone()).unwrap_or("_".into());
                            if v != now {
                                pre.push(format!("{}.{}={}", n.id, k, v));
                            }
                        }
                    }
                }
                out.push(format!(
                    "opt hist {} {} {} {} {} {} {} {} {} {} {} {} {} {} {}",
                    nodes_arg(&nodes), edges_arg(&edges), start, hops, preds, ret, distinct, ord, skip, lim, lang, fact, list_arg(&idx), e1, list_arg(&pre)
                ));
            }
            // every subset of {filter push-down, join reorder, projection push-down};
            // statistics: f = computed after the data was loaded, s = computed on the empty store, n = never
            for mask in 0..8 {
                let stats = *r.pick(&["f", "s", "n"]);
                let fact = if r.chance(1, 2) { 1 } else { 0 };
                out.push(format!(
                    "opt run {} {} {} {} {} {} {} {} {} {} gql {} {} {}",
                    nodes_arg(&nodes),
                    edges_arg(&edges),
                    start,
                    hops,
                    preds,
                    ret,
                    distinct,
                    ord,
                    skip,
                    lim,
                    mask,
                    stats,
                    fact
                ));
            }
        }
    }
}

pub fn run(args: &[&str]) -> String {
    let a = args.to_vec();
    guarded(move || match a.as_slice() {
        ["run", nodes, edges, start, hops, preds, ret, distinct, ord, skip, lim, lang, mask, stats, fact] => {
            let (ns, es) = (parse_nodes(nodes), parse_edges(edges));
            let store = if *stats == "s" {
                // statistics computed before the data exists, then the data arrives: stale
                let s = Arc::new(LpgStore::new());
                s.compute_statistics();
                for n in &ns {
                    let labels: Vec<String> = n.labels.iter().map(|l| format!("L{}", l)).collect();
                    let refs: Vec<&str> = labels.iter().map(|x| x.as_str()).collect();
                    let id = s.create_node(&refs);
                    for (k, v) in &n.props {
                        s.set_node_property(id, &format!("k{}", k), crate::vals::untok(v));
                    }
                }
                for e in &es {
                    s.create_edge(NodeId::new(e.src), NodeId::new(e.dst), &format!("T{}", e.ty));
                }
                s
            } else {
                let s = build_store(&ns, &es);
                if *stats == "f" {
                    s.compute_statistics();
                }
                s
            };
            let text = render(start, hops, preds, ret, distinct, ord, skip, lim);
            let plan = if *lang == "gql" { translate_gql(&text) } else { translate_cypher(&text) };
            let plan = match plan {
                Ok(p) => p,
                Err(_) => return "error:translate".into(),
            };
            let mut binder = Binder::new();
            if binder.bind(&plan).is_err() {
                return "error:bind".into();
            }
            let m: u32 = mask.parse().unwrap();
            let optimizer = Optimizer::from_store(&store)
                .with_filter_pushdown(m & 1 != 0)
                .with_join_reorder(m & 2 != 0)
                .with_projection_pushdown(m & 4 != 0);
            let plan = match optimizer.optimize(plan) {
                Ok(p) => p,
                Err(_) => return "error:optimize".into(),
            };
            let txm = Arc::new(TransactionManager::new());
            let epoch = txm.current_epoch();
            let planner = Planner::with_context(Arc::clone(&store), txm, None, epoch).with_factorized_execution(*fact == "1");
            let mut phys = match planner.plan(&plan) {
                Ok(p) => p,
                Err(_) => return "error:plan".into(),
            };
            let executor = Executor::with_columns(phys.columns.clone());
            match executor.execute(phys.operator.as_mut()) {
                Ok(r) => show_rows(*ord != "-", &r.rows),
                Err(_) => "error:execute".into(),
            }
        }
        // C10: the same text on the same data under a physical configuration: factorized on/off,
        // any subset of indexed properties, executed twice through one session (cold, then from the
        // plan cache), then once more after an index was dropped / created
        ["cfg", nodes, edges, start, hops, preds, ret, distinct, ord, skip, lim, lang, fact, idx] => {
            use grafeo_engine::config::Config;
            use grafeo_engine::database::GrafeoDB;
            let (ns, es) = (parse_nodes(nodes), parse_edges(edges));
            let cfg = if *fact == "1" { Config::in_memory() } else { Config::in_memory().without_factorized_execution() };
            let db = GrafeoDB::with_config(cfg).unwrap();
            for n in &ns {
                let labels: Vec<String> = n.labels.iter().map(|l| format!("L{}", l)).collect();
                let refs: Vec<&str> = labels.iter().map(|x| x.as_str()).collect();
                let id = db.create_node(&refs);
                for (k, v) in &n.props {
                    db.set_node_property(id, &format!("k{}", k), crate::vals::untok(v));
                }
            }
            for e in &es {
                db.create_edge(NodeId::new(e.src), NodeId::new(e.dst), &format!("T{}", e.ty));
            }
            let keys: Vec<u64> = parse_u64s(idx).unwrap();
            for k in &keys {
                db.create_property_index(&format!("k{}", k));
            }
            let text = render(start, hops, preds, ret, distinct, ord, skip, lim);
            let session = db.session();
            let exec = |s: &grafeo_engine::session::Session| {
                let r = if *lang == "gql" { s.execute(&text) } else { s.execute_cypher(&text) };
                match r {
                    Ok(r) => show_rows(*ord != "-", &r.rows),
                    Err(_) => "error".to_string(),
                }
            };
            let cold = exec(&session);
            let warm = exec(&session);
            if cold != warm {
                return format!("cache-differs:{}|{}", cold, warm);
            }
            // toggle the index set and ask again: answers may not change
            for k in 0..3u64 {
                if keys.contains(&k) {
                    db.drop_property_index(&format!("k{}", k));
                } else {
                    db.create_property_index(&format!("k{}", k));
                }
            }
            let after = exec(&session);
            if after != cold {
                return format!("index-change-differs:{}|{}", cold, after);
            }
            cold
        }
        // C10 histories: the query is executed (plan cached, statistics and zone maps as of then) on an
        // earlier state of the data, the data changes, and the same text is executed again in the same
        // session: the second answer is the answer on the final graph.
        // `pre` = earlier values `id.key=tok` (`_` = absent then); `e1` = number of edges present then
        ["hist", nodes, edges, start, hops, preds, ret, distinct, ord, skip, lim, lang, fact, idx, e1, pre] => {
            use grafeo_engine::config::Config;
            use grafeo_engine::database::GrafeoDB;
            let (ns, es) = (parse_nodes(nodes), parse_edges(edges));
            let e1: usize = e1.parse().unwrap();
            let pre: Vec<(u64, u64, String)> = if *pre == "-" {
                vec![]
            } else {
                pre.split(',')
                    .map(|t| {
                        let (l, v) = t.split_once('=').unwrap();
                        let (i, k) = l.split_once('.').unwrap();
                        (i.parse().unwrap(), k.parse().unwrap(), v.to_string())
                    })
                    .collect()
            };
            let cfg = if *fact == "1" { Config::in_memory() } else { Config::in_memory().without_factorized_execution() };
            let db = GrafeoDB::with_config(cfg).unwrap();
            for k in parse_u64s(idx).unwrap() {
                db.create_property_index(&format!("k{}", k));
            }
            for n in &ns {
                let labels: Vec<String> = n.labels.iter().map(|l| format!("L{}", l)).collect();
                let refs: Vec<&str> = labels.iter().map(|x| x.as_str()).collect();
                let id = db.create_node(&refs);
                let mut props: Vec<(u64, String)> = n.props.clone();
                for (i, k, v) in &pre {
                    if *i == n.id {
                        props.retain(|(k2, _)| k2 != k);
                        if v != "_" {
                            props.push((*k, v.clone()));
                        }
                    }
                }
                for (k, v) in &props {
                    db.set_node_property(id, &format!("k{}", k), crate::vals::untok(v));
                }
            }
            for e in es.iter().take(e1) {
                db.create_edge(NodeId::new(e.src), NodeId::new(e.dst), &format!("T{}", e.ty));
            }
            let text = render(start, hops, preds, ret, distinct, ord, skip, lim);
            let session = db.session();
            let exec = |s: &grafeo_engine::session::Session| {
                let r = if *lang == "gql" { s.execute(&text) } else { s.execute_cypher(&text) };
                match r {
                    Ok(r) => show_rows(*ord != "-", &r.rows),
                    Err(_) => "error".to_string(),
                }
            };
            let _ = exec(&session);
            // the data changes
            for (i, k, _) in &pre {
                let fin = ns.iter().find(|n| n.id == *i).and_then(|n| n.props.iter().find(|(k2, _)| k2 == k));
                match fin {
                    Some((_, v)) => db.set_node_property(NodeId::new(*i), &format!("k{}", k), crate::vals::untok(v)),
                    None => {
                        db.remove_node_property(NodeId::new(*i), &format!("k{}", k));
                    }
                }
            }
            for e in es.iter().skip(e1) {
                db.create_edge(NodeId::new(e.src), NodeId::new(e.dst), &format!("T{}", e.ty));
            }
            let again = exec(&session);
            let fresh = exec(&db.session());
            if again != fresh {
                return format!("stale-session-answer:{}|{}", again, fresh);
            }
            again
        }
        // two texts that differ only inside a string literal must not share a cached plan
        ["cache2", h1, h2] => {
            let db = grafeo_engine::database::GrafeoDB::new_in_memory();
            db.create_node(&["L0"]);
            let s = db.session();
            let t1 = String::from_utf8(unhex(h1).unwrap()).unwrap();
            let t2 = String::from_utf8(unhex(h2).unwrap()).unwrap();
            let show = |r: grafeo_common::utils::error::Result<grafeo_engine::database::QueryResult>| match r {
                Ok(r) => show_rows(true, &r.rows),
                Err(_) => "error".to_string(),
            };
            let a = show(s.execute(&t1));
            let b = show(s.execute(&t2));
            // fresh sessions on a fresh database: what each text answers on its own
            let db2 = grafeo_engine::database::GrafeoDB::new_in_memory();
            db2.create_node(&["L0"]);
            let b_alone = show(db2.session().execute(&t2));
            if b == b_alone { format!("{};{}", a, b) } else { format!("cache-collision:{}!={}", b, b_alone) }
        }
        _ => "bad-op".into(),
    })
}
