//! Stream `ops2` — C11, predicate / sort / aggregate level: the real pull operators of
//! grafeo-core (`FilterOperator` + `ExpressionPredicate`, `SortOperator`, `SimpleAggregateOperator`,
//! `HashAggregateOperator`, `DistinctOperator`, `LimitOperator`, `SkipOperator`,
//! `LimitSkipOperator`) over a mock child with arbitrary chunking.
//!
//! Op lines (one output line each):
//!
//!   ops2 tlp    <ncols> <pred> <sizes> <table>   positions passing p ; NOT p ; p IS NULL
//!   ops2 tlp.c  <ncols> <pred> <sizes> <table>   chunk structure of the filter p (positions)
//!   ops2 sort   <ncols> <keys> <sizes> <table>   positions in output order (flat)
//!   ops2 sort.c <ncols> <keys> <sizes> <table>   … with the output chunk structure
//!   ops2 sort.m <p|n> <ncols> <keys> <sizes> <table>   as `sort` (regression lines: before the repair of the
//!                                             comparator `sort_by` could panic here)
//!   ops2 count  <ncols> <col> <pred|-> <skip|-> <limit|-> <sizes> <table>
//!                                             count(*),count(col) of Simple ; Hash aggregate ; rows,non-null of the pipeline
//!   ops2 pipe.f <ncols> <stages> <sizes> <table> rows of the chain (flat) ; pipe.c with chunk structure
//!
//!   ops2 qtlp <ncols> <pred> <table>           the three WHERE queries through the Cypher front end (one
//!                                             node per row, a NULL cell = a missing property)
//!   ops2 qord <keys> <skip|-> <limit|-> <table>   MATCH … RETURN … ORDER BY … SKIP … LIMIT …
//!   ops2 qord.m <p|n> <keys> <table>           as `qord` without a window (regression lines)
//!   ops2 qcnt <ncols> <col> <pred|-> <table>   RETURN count(*), count(n.c<col>) against the number of rows
//!
//!   <table>  = r1;r2;…  (row = value tokens joined by `,`) | -
//!   <sizes>  = c:<n1>,<n2>,… child chunk sizes (the rest of the rows forms one more chunk) | c:
//!   <pred>   = Polish notation, tokens joined by `,`:
//!              l<valtok> | c<k> | m (a variable that is not bound) |
//!              eq ne lt le gt ge and or xor add sub mul div mod sw ew ct  (two operands) |
//!              not isn nn neg (one operand) | in<k> lhs item1 … itemk
//!   <keys>   = <col><a|d><f|l> joined by `,`
//!   <stages> = f=<pred> | d | d=<c1>+<c2>… | o=<keys> | s=<n> | l=<n> | w=<s>+<n>  joined by `;`  | -
use crate::util::*;
use crate::vals::{tok, untok};
use grafeo_common::types::{LogicalType, Value};
use grafeo_core::execution::DataChunk;
use grafeo_core::execution::ValueVector;
use grafeo_core::execution::operators as ops;
use grafeo_core::execution::operators::{Operator, OperatorResult};
use grafeo_core::graph::lpg::LpgStore;
use std::collections::HashMap;
use std::sync::Arc;

type Row = Vec<Value>;

struct Mock {
    chunks: Vec<Option<DataChunk>>,
    pos: usize,
}

impl Operator for Mock {
    fn next(&mut self) -> OperatorResult {
        if self.pos < self.chunks.len() {
            let c = self.chunks[self.pos].take();
            self.pos += 1;
            Ok(c)
        } else {
            Ok(None)
        }
    }
    fn reset(&mut self) {
        self.pos = 0;
    }
    fn name(&self) -> &'static str {
        "Mock"
    }
}

// ---------------------------------------------------------------------------------------------
// text
// ---------------------------------------------------------------------------------------------

fn parse_table(s: &str) -> Vec<Row> {
    if s == "-" {
        return vec![];
    }
    s.split(';').map(|r| r.split(',').map(untok).collect()).collect()
}

fn show_row(r: &Row) -> String {
    r.iter().map(tok).collect::<Vec<_>>().join(",")
}

fn show_table(rs: &[Row]) -> String {
    if rs.is_empty() { "-".into() } else { rs.iter().map(show_row).collect::<Vec<_>>().join(";") }
}

fn parse_sizes(s: &str) -> Vec<usize> {
    let s = s.strip_prefix("c:").unwrap_or(s);
    if s.is_empty() || s == "-" { vec![] } else { s.split(',').map(|x| x.parse().unwrap()).collect() }
}

fn show_sizes(s: &[usize]) -> String {
    format!("c:{}", s.iter().map(|x| x.to_string()).collect::<Vec<_>>().join(","))
}

fn build_chunk(rows: &[Row], ncols: usize) -> DataChunk {
    let cols: Vec<ValueVector> = (0..ncols)
        .map(|c| {
            let vals: Vec<Value> = rows.iter().map(|r| r[c].clone()).collect();
            ValueVector::from_values(&vals)
        })
        .collect();
    DataChunk::new(cols)
}

/// the chunks the mock child hands out: `sizes` in order (cut at the end of the table), then
/// whatever is left as one more chunk
fn split_chunks(rows: &[Row], sizes: &[usize], ncols: usize) -> Vec<DataChunk> {
    let mut out = Vec::new();
    let mut pos = 0;
    for &n in sizes {
        let end = (pos + n).min(rows.len());
        out.push(build_chunk(&rows[pos..end], ncols));
        pos = end;
    }
    if pos < rows.len() {
        out.push(build_chunk(&rows[pos..], ncols));
    }
    out
}

fn with_positions(rows: &[Row]) -> Vec<Row> {
    rows.iter()
        .enumerate()
        .map(|(i, r)| {
            let mut r = r.clone();
            r.push(Value::Int64(i as i64));
            r
        })
        .collect()
}

fn mock(rows: &[Row], sizes: &[usize], ncols: usize) -> Box<dyn Operator> {
    Box::new(Mock { chunks: split_chunks(rows, sizes, ncols).into_iter().map(Some).collect(), pos: 0 })
}

fn any_schema(w: usize) -> Vec<LogicalType> {
    vec![LogicalType::Any; w]
}

fn chunk_rows(c: &DataChunk) -> Vec<Row> {
    c.selected_indices()
        .map(|i| (0..c.column_count()).map(|k| c.column(k).and_then(|col| col.get_value(i)).unwrap_or(Value::Null)).collect())
        .collect()
}

fn drain(mut op: Box<dyn Operator>) -> Result<Vec<Vec<Row>>, String> {
    let mut out = Vec::new();
    let mut guard = 0;
    loop {
        match op.next() {
            Ok(Some(c)) => out.push(chunk_rows(&c)),
            Ok(None) => break,
            Err(_) => return Err("err".into()),
        }
        guard += 1;
        if guard > 100_000 {
            return Err("hang".into());
        }
    }
    Ok(out)
}

fn pos_of(r: &Row) -> String {
    match r.last() {
        Some(Value::Int64(i)) => i.to_string(),
        _ => "?".into(),
    }
}

fn show_pos_flat(cs: &[Vec<Row>]) -> String {
    let v: Vec<String> = cs.iter().flatten().map(pos_of).collect();
    if v.is_empty() { "-".into() } else { v.join(",") }
}

fn show_pos_chunks(cs: &[Vec<Row>]) -> String {
    if cs.is_empty() {
        return "-".into();
    }
    cs.iter()
        .map(|c| if c.is_empty() { "_".to_string() } else { c.iter().map(pos_of).collect::<Vec<_>>().join(",") })
        .collect::<Vec<_>>()
        .join("|")
}

fn show_rows_flat(cs: &[Vec<Row>]) -> String {
    let v: Vec<String> = cs.iter().flatten().map(show_row).collect();
    if v.is_empty() { "-".into() } else { v.join(";") }
}

fn show_rows_chunks(cs: &[Vec<Row>]) -> String {
    if cs.is_empty() {
        return "-".into();
    }
    cs.iter()
        .map(|c| if c.is_empty() { "_".to_string() } else { c.iter().map(show_row).collect::<Vec<_>>().join(";") })
        .collect::<Vec<_>>()
        .join("|")
}

// ---------------------------------------------------------------------------------------------
// predicates
// ---------------------------------------------------------------------------------------------

fn bin_op(t: &str) -> Option<ops::BinaryFilterOp> {
    use ops::BinaryFilterOp::*;
    Some(match t {
        "eq" => Eq,
        "ne" => Ne,
        "lt" => Lt,
        "le" => Le,
        "gt" => Gt,
        "ge" => Ge,
        "and" => And,
        "or" => Or,
        "xor" => Xor,
        "add" => Add,
        "sub" => Sub,
        "mul" => Mul,
        "div" => Div,
        "mod" => Mod,
        "sw" => StartsWith,
        "ew" => EndsWith,
        "ct" => Contains,
        _ => return None,
    })
}

fn un_op(t: &str) -> Option<ops::UnaryFilterOp> {
    use ops::UnaryFilterOp::*;
    Some(match t {
        "not" => Not,
        "isn" => IsNull,
        "nn" => IsNotNull,
        "neg" => Neg,
        _ => return None,
    })
}

fn parse_expr(ts: &[&str], i: &mut usize) -> ops::FilterExpression {
    use ops::FilterExpression as E;
    let t = ts[*i];
    *i += 1;
    if let Some(b) = bin_op(t) {
        let l = parse_expr(ts, i);
        let r = parse_expr(ts, i);
        return E::Binary { left: Box::new(l), op: b, right: Box::new(r) };
    }
    if let Some(u) = un_op(t) {
        let e = parse_expr(ts, i);
        return E::Unary { op: u, operand: Box::new(e) };
    }
    if t == "m" {
        return E::Variable("unbound".into());
    }
    if let Some(k) = t.strip_prefix("in") {
        let k: usize = k.parse().unwrap();
        let l = parse_expr(ts, i);
        let items: Vec<E> = (0..k).map(|_| parse_expr(ts, i)).collect();
        return E::Binary { left: Box::new(l), op: ops::BinaryFilterOp::In, right: Box::new(E::List(items)) };
    }
    if let Some(v) = t.strip_prefix('l') {
        return E::Literal(untok(v));
    }
    if let Some(k) = t.strip_prefix('c') {
        return E::Variable(format!("c{}", k.parse::<usize>().unwrap()));
    }
    panic!("bad predicate token {t}");
}

fn parse_pred(s: &str) -> ops::FilterExpression {
    let ts: Vec<&str> = s.split(',').collect();
    let mut i = 0;
    let e = parse_expr(&ts, &mut i);
    assert!(i == ts.len(), "trailing predicate tokens");
    e
}

fn predicate(e: ops::FilterExpression, ncols: usize, store: &Arc<LpgStore>) -> Box<dyn ops::Predicate> {
    let mut vc = HashMap::new();
    for k in 0..ncols {
        vc.insert(format!("c{k}"), k);
    }
    Box::new(ops::ExpressionPredicate::new(e, vc, Arc::clone(store)))
}

fn filter_op(child: Box<dyn Operator>, e: ops::FilterExpression, ncols: usize, store: &Arc<LpgStore>) -> Box<dyn Operator> {
    Box::new(ops::FilterOperator::new(child, predicate(e, ncols, store)))
}

fn unary(op: ops::UnaryFilterOp, e: ops::FilterExpression) -> ops::FilterExpression {
    ops::FilterExpression::Unary { op, operand: Box::new(e) }
}

fn parse_keys(s: &str) -> Vec<ops::SortKey> {
    if s == "-" {
        return vec![];
    }
    s.split(',')
        .map(|k| {
            let n = k.len();
            let col: usize = k[..n - 2].parse().unwrap();
            let key = if &k[n - 2..n - 1] == "a" { ops::SortKey::ascending(col) } else { ops::SortKey::descending(col) };
            key.with_null_order(if &k[n - 1..] == "f" { ops::NullOrder::NullsFirst } else { ops::NullOrder::NullsLast })
        })
        .collect()
}

// ---------------------------------------------------------------------------------------------
// run
// ---------------------------------------------------------------------------------------------

fn run_tlp(chunked: bool, ncols: usize, pred: &str, sizes: &str, table: &str) -> String {
    let rows = with_positions(&parse_table(table));
    let sizes = parse_sizes(sizes);
    let store = Arc::new(LpgStore::new());
    let w = ncols + 1;
    let p = parse_pred(pred);
    let run = |e: ops::FilterExpression| drain(filter_op(mock(&rows, &sizes, w), e, ncols, &store));
    if chunked {
        return match run(p) {
            Ok(cs) => show_pos_chunks(&cs),
            Err(e) => e,
        };
    }
    let parts = [
        run(p.clone()),
        run(unary(ops::UnaryFilterOp::Not, p.clone())),
        run(unary(ops::UnaryFilterOp::IsNull, p)),
    ];
    parts
        .iter()
        .map(|r| match r {
            Ok(cs) => show_pos_flat(cs),
            Err(e) => e.clone(),
        })
        .collect::<Vec<_>>()
        .join("/")
}

fn run_sort(mode: &str, ncols: usize, keys: &str, sizes: &str, table: &str) -> String {
    let rows = with_positions(&parse_table(table));
    let sizes = parse_sizes(sizes);
    let w = ncols + 1;
    let op = Box::new(ops::SortOperator::new(mock(&rows, &sizes, w), parse_keys(keys), any_schema(w)));
    match drain(op) {
        Ok(cs) => match mode {
            "c" => show_pos_chunks(&cs),
            _ => show_pos_flat(&cs),
        },
        Err(e) => e,
    }
}

fn below(child: Box<dyn Operator>, ncols: usize, w: usize, pred: &str, skip: &str, limit: &str, store: &Arc<LpgStore>) -> Box<dyn Operator> {
    let mut cur = child;
    if pred != "-" {
        cur = filter_op(cur, parse_pred(pred), ncols, store);
    }
    match (skip, limit) {
        ("-", "-") => {}
        (s, "-") => cur = Box::new(ops::SkipOperator::new(cur, s.parse().unwrap(), any_schema(w))),
        ("-", n) => cur = Box::new(ops::LimitOperator::new(cur, n.parse().unwrap(), any_schema(w))),
        (s, n) => cur = Box::new(ops::LimitSkipOperator::new(cur, s.parse().unwrap(), n.parse().unwrap(), any_schema(w))),
    }
    cur
}

fn run_count(ncols: usize, col: usize, pred: &str, skip: &str, limit: &str, sizes: &str, table: &str) -> String {
    let rows = with_positions(&parse_table(table));
    let sizes = parse_sizes(sizes);
    let store = Arc::new(LpgStore::new());
    let w = ncols + 1;
    let aggs = || vec![ops::AggregateExpr::count_star(), ops::AggregateExpr::count(col)];
    let show_agg = |r: Result<Vec<Vec<Row>>, String>| match r {
        Ok(cs) => show_rows_chunks(&cs),
        Err(e) => e,
    };
    let simple = show_agg(drain(Box::new(ops::SimpleAggregateOperator::new(
        below(mock(&rows, &sizes, w), ncols, w, pred, skip, limit, &store),
        aggs(),
        any_schema(2),
    ))));
    let hash = show_agg(drain(Box::new(ops::HashAggregateOperator::new(
        below(mock(&rows, &sizes, w), ncols, w, pred, skip, limit, &store),
        vec![],
        aggs(),
        any_schema(2),
    ))));
    let plain = match drain(below(mock(&rows, &sizes, w), ncols, w, pred, skip, limit, &store)) {
        Ok(cs) => {
            let n = cs.iter().flatten().count();
            let nn = cs.iter().flatten().filter(|r| r.get(col).is_some_and(|v| !matches!(v, Value::Null))).count();
            format!("I{},I{}", n, nn)
        }
        Err(e) => e,
    };
    format!("{}/{}/{}", simple, hash, plain)
}

fn run_pipe(chunked: bool, ncols: usize, stages: &str, sizes: &str, table: &str) -> String {
    let rows = parse_table(table);
    let sizes = parse_sizes(sizes);
    let store = Arc::new(LpgStore::new());
    let w = ncols;
    let mut cur = mock(&rows, &sizes, w);
    if stages != "-" {
        for st in stages.split(';') {
            let (k, arg) = st.split_once('=').unwrap_or((st, ""));
            cur = match k {
                "f" => filter_op(cur, parse_pred(arg), ncols, &store),
                "d" if arg.is_empty() => Box::new(ops::DistinctOperator::new(cur, any_schema(w))),
                "d" => Box::new(ops::DistinctOperator::on_columns(
                    cur,
                    arg.split('+').map(|c| c.parse().unwrap()).collect(),
                    any_schema(w),
                )),
                "o" => Box::new(ops::SortOperator::new(cur, parse_keys(arg), any_schema(w))),
                "s" => Box::new(ops::SkipOperator::new(cur, arg.parse().unwrap(), any_schema(w))),
                "l" => Box::new(ops::LimitOperator::new(cur, arg.parse().unwrap(), any_schema(w))),
                "w" => {
                    let (s, n) = arg.split_once('+').unwrap();
                    Box::new(ops::LimitSkipOperator::new(cur, s.parse().unwrap(), n.parse().unwrap(), any_schema(w)))
                }
                _ => panic!("bad stage {st}"),
            };
        }
    }
    match drain(cur) {
        Ok(cs) => {
            if chunked {
                show_rows_chunks(&cs)
            } else {
                show_rows_flat(&cs)
            }
        }
        Err(e) => e,
    }
}

// ---------------------------------------------------------------------------------------------
// query level: the same predicates / sort keys through the Cypher front end and the planner
// ---------------------------------------------------------------------------------------------

fn lit_text(v: &Value) -> Option<String> {
    Some(match v {
        Value::Null => "null".into(),
        Value::Bool(b) => if *b { "true".into() } else { "false".into() },
        Value::Int64(i) if *i == i64::MIN => return None,
        Value::Int64(i) if *i < 0 => format!("({})", i),
        Value::Int64(i) => i.to_string(),
        Value::Float64(f) if f.is_finite() => {
            let t = format!("{:?}", f);
            if t.contains('e') || t.contains("E") {
                return None;
            }
            if *f < 0.0 || (*f == 0.0 && f.is_sign_negative()) { format!("({})", t) } else { t }
        }
        Value::String(s) if s.chars().all(|c| c.is_ascii_alphanumeric()) => format!("'{}'", s),
        _ => return None,
    })
}

/// Cypher text of a predicate of the grammar (`None`: something the text form cannot carry)
fn expr_text(ts: &[&str], i: &mut usize, ncols: usize) -> Option<String> {
    let t = ts[*i];
    *i += 1;
    let bin = |sym: &str, ts: &[&str], i: &mut usize| -> Option<String> {
        let l = expr_text(ts, i, ncols)?;
        let r = expr_text(ts, i, ncols)?;
        Some(format!("({} {} {})", l, sym, r))
    };
    Some(match t {
        "eq" => bin("=", ts, i)?,
        "ne" => bin("<>", ts, i)?,
        "lt" => bin("<", ts, i)?,
        "le" => bin("<=", ts, i)?,
        "gt" => bin(">", ts, i)?,
        "ge" => bin(">=", ts, i)?,
        "and" => bin("AND", ts, i)?,
        "or" => bin("OR", ts, i)?,
        "xor" => bin("XOR", ts, i)?,
        "add" => bin("+", ts, i)?,
        "sub" => bin("-", ts, i)?,
        "mul" => bin("*", ts, i)?,
        "div" => bin("/", ts, i)?,
        "mod" => bin("%", ts, i)?,
        "sw" => bin("STARTS WITH", ts, i)?,
        "ew" => bin("ENDS WITH", ts, i)?,
        "ct" => bin("CONTAINS", ts, i)?,
        "not" => format!("(NOT {})", expr_text(ts, i, ncols)?),
        "isn" => format!("({} IS NULL)", expr_text(ts, i, ncols)?),
        "nn" => format!("({} IS NOT NULL)", expr_text(ts, i, ncols)?),
        "neg" => format!("(-{})", expr_text(ts, i, ncols)?),
        "m" => "n.unbound".into(),
        _ => {
            if let Some(k) = t.strip_prefix("in") {
                let k: usize = k.parse().ok()?;
                let l = expr_text(ts, i, ncols)?;
                let mut items = Vec::new();
                for _ in 0..k {
                    items.push(expr_text(ts, i, ncols)?);
                }
                format!("({} IN [{}])", l, items.join(", "))
            } else if let Some(v) = t.strip_prefix('l') {
                lit_text(&untok(v))?
            } else if let Some(k) = t.strip_prefix('c') {
                let k: usize = k.parse().ok()?;
                if k < ncols { format!("n.c{}", k) } else { "n.unbound".into() }
            } else {
                return None;
            }
        }
    })
}

fn pred_text(pred: &str, ncols: usize) -> Option<String> {
    let ts: Vec<&str> = pred.split(',').collect();
    let mut i = 0;
    let t = expr_text(&ts, &mut i, ncols)?;
    if i == ts.len() { Some(t) } else { None }
}

fn make_db(rows: &[Row]) -> grafeo_engine::database::GrafeoDB {
    let db = grafeo_engine::database::GrafeoDB::new_in_memory();
    for (i, r) in rows.iter().enumerate() {
        let id = db.create_node(&["T"]);
        db.set_node_property(id, "pos", Value::Int64(i as i64));
        for (k, v) in r.iter().enumerate() {
            // a NULL cell is a property the node does not have
            if !matches!(v, Value::Null) {
                db.set_node_property(id, &format!("c{}", k), v.clone());
            }
        }
    }
    db
}

fn query_positions(db: &grafeo_engine::database::GrafeoDB, text: &str, sorted: bool) -> String {
    let s = db.session();
    match s.execute_cypher(text) {
        Ok(r) => {
            let mut v: Vec<i64> = r
                .rows
                .iter()
                .map(|row| match row.first() {
                    Some(Value::Int64(i)) => *i,
                    _ => -1,
                })
                .collect();
            if sorted {
                v.sort();
            }
            if v.is_empty() { "-".into() } else { v.iter().map(|x| x.to_string()).collect::<Vec<_>>().join(",") }
        }
        Err(_) => "err".into(),
    }
}

fn run_qtlp(ncols: usize, pred: &str, table: &str) -> String {
    let rows = parse_table(table);
    let Some(p) = pred_text(pred, ncols) else { return "no-text".into() };
    let db = make_db(&rows);
    let q = |w: String| guarded(|| query_positions(&db, &format!("MATCH (n:T) WHERE {} RETURN n.pos", w), true));
    format!("{}/{}/{}", q(p.clone()), q(format!("NOT {}", p)), q(format!("{} IS NULL", p)))
}

fn keys_text(keys: &str) -> String {
    keys.split(',')
        .map(|k| {
            let n = k.len();
            format!("n.c{}{}", &k[..n - 2], if &k[n - 2..n - 1] == "a" { "" } else { " DESC" })
        })
        .collect::<Vec<_>>()
        .join(", ")
}

fn run_qord(keys: &str, skip: &str, limit: &str, table: &str) -> String {
    let rows = parse_table(table);
    let db = make_db(&rows);
    // the ORDER BY expressions have to be among the returned items in this front end
    let cols: Vec<String> = keys.split(',').map(|k| format!("n.c{}", &k[..k.len() - 2])).collect();
    let mut text = format!("MATCH (n:T) RETURN n.pos, {} ORDER BY {}", cols.join(", "), keys_text(keys));
    if skip != "-" {
        text += &format!(" SKIP {}", skip);
    }
    if limit != "-" {
        text += &format!(" LIMIT {}", limit);
    }
    guarded(|| query_positions(&db, &text, false))
}

fn run_qcnt(ncols: usize, col: usize, pred: &str, table: &str) -> String {
    let rows = parse_table(table);
    let db = make_db(&rows);
    let w = if pred == "-" {
        String::new()
    } else {
        match pred_text(pred, ncols) {
            Some(p) => format!(" WHERE {}", p),
            None => return "no-text".into(),
        }
    };
    let s = db.session();
    let one = |text: String| -> String {
        guarded(|| match s.execute_cypher(&text) {
            Ok(r) => {
                if r.rows.is_empty() {
                    "-".into()
                } else {
                    r.rows.iter().map(show_row).collect::<Vec<_>>().join(";")
                }
            }
            Err(_) => "err".into(),
        })
    };
    let c = one(format!("MATCH (n:T){} RETURN count(*), count(n.c{})", w, col));
    let n = guarded(|| query_positions(&db, &format!("MATCH (n:T){} RETURN n.pos", w), true));
    let nn = guarded(|| query_positions(&db, &format!("MATCH (n:T){} RETURN n.c{}", w, col), false));
    let _ = nn;
    let rows_n = if n == "-" { 0 } else { n.split(',').count() };
    format!("{}/I{}", c, rows_n)
}

pub fn run(args: &[&str]) -> String {
    let a = args.to_vec();
    guarded(move || match a.as_slice() {
        ["tlp", n, p, s, t] => run_tlp(false, n.parse().unwrap(), p, s, t),
        ["tlp.c", n, p, s, t] => run_tlp(true, n.parse().unwrap(), p, s, t),
        ["sort", n, k, s, t] => run_sort("f", n.parse().unwrap(), k, s, t),
        ["sort.c", n, k, s, t] => run_sort("c", n.parse().unwrap(), k, s, t),
        ["sort.m", _hint, n, k, s, t] => run_sort("m", n.parse().unwrap(), k, s, t),
        ["count", n, c, p, sk, li, s, t] => run_count(n.parse().unwrap(), c.parse().unwrap(), p, sk, li, s, t),
        ["pipe.f", n, st, s, t] => run_pipe(false, n.parse().unwrap(), st, s, t),
        ["pipe.c", n, st, s, t] => run_pipe(true, n.parse().unwrap(), st, s, t),
        ["qtlp", n, p, t] => run_qtlp(n.parse().unwrap(), p, t),
        ["qord", k, sk, li, t] => run_qord(k, sk, li, t),
        // regression lines of the corpus (the old comparator could make `sort_by` panic here)
        ["qord.m", _hint, k, t] => run_qord(k, "-", "-", t),
        ["qcnt", n, c, p, t] => run_qcnt(n.parse().unwrap(), c.parse().unwrap(), p, t),
        _ => "bad-op".into(),
    })
}

// ---------------------------------------------------------------------------------------------
// generator
// ---------------------------------------------------------------------------------------------

#[derive(Clone, Copy, PartialEq)]
enum Kind {
    IntSmall,
    IntAny,
    Flt,
    Num,
    Str,
    Bool,
    Nan,
    Mixed,
}

fn pal_int_small(r: &mut Rng) -> Value {
    Value::Int64(r.below(8) as i64 - 2)
}

fn pal_int_edge(r: &mut Rng) -> Value {
    Value::Int64(*r.pick(&[
        i64::MIN,
        i64::MAX,
        i64::MIN + 1,
        -1,
        0,
        1,
        2,
        3,
        1 << 53,
        (1 << 53) + 1,
        -(1 << 53) - 1,
        1 << 62,
        3037000500,
    ]))
}

fn pal_flt(r: &mut Rng) -> Value {
    Value::Float64(*r.pick(&[
        0.0,
        -0.0,
        1.0,
        1.5,
        -1.5,
        2.0,
        3.0,
        1.0000000000000002,
        0.9999999999999999,
        0.1,
        0.30000000000000004,
        5e-324,
        f64::INFINITY,
        f64::NEG_INFINITY,
        9007199254740992.0,
        1e308,
        -2.0,
    ]))
}

fn pal_str(r: &mut Rng) -> Value {
    Value::String(r.pick(&["", "a", "ab", "b", "ba", "é", "A", "abc"]).to_string().into())
}

fn pal_value(r: &mut Rng, k: Kind) -> Value {
    match k {
        Kind::IntSmall => pal_int_small(r),
        Kind::IntAny => {
            if r.chance(1, 2) {
                pal_int_small(r)
            } else {
                pal_int_edge(r)
            }
        }
        Kind::Flt => pal_flt(r),
        Kind::Num => {
            if r.chance(1, 2) {
                pal_int_small(r)
            } else {
                pal_flt(r)
            }
        }
        Kind::Str => pal_str(r),
        Kind::Bool => Value::Bool(r.chance(1, 2)),
        Kind::Nan => Value::Float64(f64::NAN),
        Kind::Mixed => match r.below(8) {
            0 | 1 => pal_int_small(r),
            2 => pal_int_edge(r),
            3 => pal_flt(r),
            4 => Value::Float64(f64::NAN),
            5 => pal_str(r),
            6 => Value::Bool(r.chance(1, 2)),
            _ => Value::Null,
        },
    }
}

fn is_safe(k: Kind) -> bool {
    k != Kind::Mixed
}

struct Table {
    ncols: usize,
    kinds: Vec<Kind>,
    domains: Vec<Vec<Value>>,
    rows: Vec<Row>,
}

fn gen_table(r: &mut Rng) -> Table {
    let ncols = r.range(1, 3) as usize;
    let mut kinds = Vec::new();
    for c in 0..ncols {
        let k = if c == 0 {
            // the first column is always one on which the sort comparator is a preorder
            *r.pick(&[Kind::IntSmall, Kind::IntSmall, Kind::IntAny, Kind::Flt, Kind::Num, Kind::Str, Kind::Bool, Kind::Nan])
        } else {
            *r.pick(&[Kind::IntSmall, Kind::IntAny, Kind::Flt, Kind::Num, Kind::Str, Kind::Bool, Kind::Mixed, Kind::Mixed, Kind::Mixed])
        };
        kinds.push(k);
    }
    // few different values per column: duplicates and equal sort keys are common
    let domains: Vec<Vec<Value>> = kinds
        .iter()
        .map(|&k| {
            let n = r.range(1, 6);
            let mut d: Vec<Value> = (0..n).map(|_| pal_value(r, k)).collect();
            if r.chance(2, 3) {
                d.push(Value::Null);
            }
            d
        })
        .collect();
    let n = match r.below(16) {
        0 => 0,
        1 => 1,
        2 => *r.pick(&[2047usize, 2048, 2049]),
        3 => *r.pick(&[2047usize, 2048, 2049, 4095, 4096, 4097]),
        // just above the size up to which `sort_by` is an insertion sort
        4 | 5 => r.range(19, 70) as usize,
        _ => r.range(2, 12) as usize,
    };
    let rows = (0..n).map(|_| domains.iter().map(|d| r.pick(d).clone()).collect()).collect();
    Table { ncols, kinds, domains, rows }
}

fn gen_sizes(r: &mut Rng, n: usize) -> String {
    let mut v: Vec<usize> = Vec::new();
    if n > 100 {
        match r.below(4) {
            0 => {}
            1 => v.push(*r.pick(&[2047usize, 2048, 2049])),
            2 => {
                v.push(*r.pick(&[1usize, 2047, 2048]));
                v.push(0);
                v.push(*r.pick(&[1usize, 2, 2048]));
            }
            _ => {
                let k = r.range(1, 4);
                for _ in 0..k {
                    v.push(r.below(n as u64 / 2 + 2) as usize);
                }
            }
        }
    } else {
        let k = r.below(6);
        for _ in 0..k {
            v.push(*r.pick(&[0usize, 0, 1, 1, 2, 3, 5]));
        }
    }
    show_sizes(&v)
}

fn gen_lit(r: &mut Rng, t: &Table) -> Value {
    if r.chance(2, 3) {
        // a value that occurs in the table
        let c = r.below(t.ncols as u64) as usize;
        r.pick(&t.domains[c]).clone()
    } else {
        pal_value(r, Kind::Mixed)
    }
}

fn gen_col(r: &mut Rng, t: &Table) -> String {
    if r.chance(1, 40) {
        // a column the child does not have: not bound to a variable
        format!("c{}", t.ncols + r.below(2) as usize)
    } else {
        format!("c{}", r.below(t.ncols as u64))
    }
}

fn gen_val(r: &mut Rng, t: &Table, d: u32, out: &mut Vec<String>) {
    let w = r.below(100);
    if w < 45 || (d == 0 && w < 60) {
        out.push(gen_col(r, t));
    } else if w < 80 || d == 0 {
        out.push(format!("l{}", tok(&gen_lit(r, t))));
    } else if w < 94 {
        if r.chance(1, 8) {
            out.push("neg".into());
            gen_val(r, t, d - 1, out);
        } else {
            out.push(r.pick(&["add", "sub", "mul", "div", "mod"]).to_string());
            gen_val(r, t, d - 1, out);
            gen_val(r, t, d - 1, out);
        }
    } else if w < 96 {
        out.push("m".into());
    } else {
        gen_pred(r, t, d - 1, out);
    }
}

fn gen_pred(r: &mut Rng, t: &Table, d: u32, out: &mut Vec<String>) {
    let w = r.below(100);
    if w < 40 || (d == 0 && w < 75) {
        out.push(r.pick(&["eq", "ne", "lt", "le", "gt", "ge", "eq", "ne"]).to_string());
        gen_val(r, t, d.saturating_sub(1), out);
        gen_val(r, t, d.saturating_sub(1), out);
    } else if w < 50 || d == 0 {
        out.push(r.pick(&["isn", "nn"]).to_string());
        if d > 0 && r.chance(1, 3) {
            gen_pred(r, t, d - 1, out);
        } else {
            gen_val(r, t, d.saturating_sub(1), out);
        }
    } else if w < 75 {
        out.push(r.pick(&["and", "or", "and", "or", "xor"]).to_string());
        gen_pred(r, t, d - 1, out);
        gen_pred(r, t, d - 1, out);
    } else if w < 83 {
        out.push("not".into());
        gen_pred(r, t, d - 1, out);
    } else if w < 89 {
        let k = r.below(4);
        out.push(format!("in{}", k));
        gen_val(r, t, 0, out);
        for _ in 0..k {
            gen_val(r, t, 0, out);
        }
    } else if w < 94 {
        out.push(r.pick(&["sw", "ew", "ct"]).to_string());
        gen_val(r, t, 0, out);
        if r.chance(2, 3) {
            out.push(format!("l{}", tok(&pal_str(r))));
        } else {
            gen_val(r, t, 0, out);
        }
    } else if w < 98 {
        // not a predicate: a bare variable, literal, unbound variable
        match r.below(4) {
            0 => out.push(gen_col(r, t)),
            1 => out.push(format!("l{}", tok(&Value::Bool(r.chance(1, 2))))),
            2 => out.push("lN".into()),
            _ => out.push("m".into()),
        }
    } else {
        out.push(r.pick(&["add", "sub", "mul", "div", "mod"]).to_string());
        gen_val(r, t, 0, out);
        gen_val(r, t, 0, out);
    }
}

/// doubles of every shape: the palette, arbitrary bit patterns, moderate magnitudes with random
/// mantissas, subnormals, values next to the overflow threshold
fn rand_f64(r: &mut Rng) -> f64 {
    match r.below(7) {
        0 => match pal_flt(r) {
            Value::Float64(f) => f,
            _ => 0.0,
        },
        1 => f64::from_bits(r.next()),
        2 => (r.below(20) as f64) - 5.0,
        3 => f64::from_bits((1018 + r.below(12)) << 52 | (r.next() >> 12) | (r.below(2) << 63)),
        4 => f64::from_bits(r.below(1 << 54) | (r.below(2) << 63)),
        5 => f64::from_bits((2040 + r.below(7)) << 52 | (r.next() >> 12) | (r.below(2) << 63)),
        _ => f64::from_bits((r.below(2047)) << 52 | (r.below(4) << 50) | (r.below(2) << 63)),
    }
}

/// one `tlp` line that pins the rounding of float arithmetic: `x <op> y` is compared (with the
/// exact comparisons `< <= > >=`, and `=`) against the result the hardware gives on the first row
/// and against its two neighbours
fn gen_arith_probe(r: &mut Rng, out: &mut Vec<String>) {
    let n = r.range(1, 4) as usize;
    let num = |r: &mut Rng| -> Value {
        if r.chance(1, 5) {
            if r.chance(1, 2) { pal_int_edge(r) } else { pal_int_small(r) }
        } else {
            Value::Float64(rand_f64(r))
        }
    };
    let rows: Vec<Row> = (0..n).map(|_| vec![num(r), num(r)]).collect();
    let f = |v: &Value| match v {
        Value::Int64(i) => *i as f64,
        Value::Float64(f) => *f,
        _ => 0.0,
    };
    let op = *r.pick(&["add", "sub", "mul", "div", "mod"]);
    let (x, y) = (f(&rows[0][0]), f(&rows[0][1]));
    let res = match op {
        "add" => x + y,
        "sub" => x - y,
        "mul" => x * y,
        "div" => x / y,
        _ => x % y,
    };
    let probe = match r.below(4) {
        0 => res.next_up(),
        1 => res.next_down(),
        _ => res,
    };
    let cmp = *r.pick(&["lt", "le", "gt", "ge", "eq", "ne"]);
    out.push(format!(
        "ops2 tlp 2 {},{},c0,c1,l{} {} {}",
        cmp,
        op,
        tok(&Value::Float64(probe)),
        gen_sizes(r, n),
        show_table(&rows)
    ));
}

/// a predicate that lets a good part of the table through: one column against one of its own values
fn simple_pred(r: &mut Rng, t: &Table) -> String {
    let c = r.below(t.ncols as u64) as usize;
    match r.below(4) {
        0 => format!("nn,c{}", c),
        1 => format!("not,isn,c{}", c),
        _ => format!("{},c{},l{}", r.pick(&["le", "ge", "ne", "le", "ge", "lt", "gt"]), c, tok(r.pick(&t.domains[c]))),
    }
}

fn pred_string(r: &mut Rng, t: &Table) -> String {
    if r.chance(1, 4) {
        return simple_pred(r, t);
    }
    let mut v = Vec::new();
    let d = r.below(5) as u32;
    gen_pred(r, t, d, &mut v);
    v.join(",")
}

fn gen_keys(r: &mut Rng, cols: &[usize]) -> String {
    if cols.is_empty() || r.chance(1, 30) {
        return "-".into();
    }
    let k = r.range(1, 3);
    (0..k)
        .map(|_| format!("{}{}{}", r.pick(cols), r.pick(&["a", "d"]), r.pick(&["f", "l"])))
        .collect::<Vec<_>>()
        .join(",")
}

fn pick_n(r: &mut Rng, total: usize) -> usize {
    match r.below(7) {
        0 => 0,
        1 => total,
        2 => total + 1 + r.below(3) as usize,
        3 => *r.pick(&[1usize, 2047, 2048, 2049]),
        _ => r.below(total as u64 + 2) as usize,
    }
}

fn gen_stages(r: &mut Rng, t: &Table, safe: &[usize]) -> String {
    let mut st: Vec<String> = Vec::new();
    let n = t.rows.len();
    if r.chance(2, 3) {
        st.push(format!("f={}", pred_string(r, t)));
    }
    if r.chance(1, 2) {
        if r.chance(2, 3) {
            st.push("d".into());
        } else {
            let k = r.range(1, 2);
            let cols: Vec<String> = (0..k)
                .map(|_| {
                    let extra = r.chance(1, 10) as u64;
                    r.below(t.ncols as u64 + extra).to_string()
                })
                .collect();
            st.push(format!("d={}", cols.join("+")));
        }
    }
    if r.chance(2, 3) {
        st.push(format!("o={}", gen_keys(r, safe)));
    }
    match r.below(5) {
        0 => {}
        1 => st.push(format!("s={}", pick_n(r, n))),
        2 => st.push(format!("l={}", pick_n(r, n))),
        3 => {
            st.push(format!("s={}", pick_n(r, n)));
            st.push(format!("l={}", pick_n(r, n)));
        }
        _ => st.push(format!("w={}+{}", pick_n(r, n), pick_n(r, n))),
    }
    // now and then another order (a limit below a sort, two filters, …)
    if st.len() > 1 && r.chance(1, 5) {
        let i = r.below(st.len() as u64) as usize;
        let j = r.below(st.len() as u64) as usize;
        st.swap(i, j);
    }
    if r.chance(1, 10) {
        st.push(format!("f={}", pred_string(r, t)));
    }
    if st.is_empty() { "-".into() } else { st.join(";") }
}

pub fn generate(seed: u64, cases: usize, out: &mut Vec<String>) {
    let mut r = Rng::new(seed ^ 0x6f70_7332);
    for c in 0..cases {
        out.push(format!("# case {} seed {}", c, seed));
        let t = gen_table(&mut r);
        let n = t.rows.len();
        let nc = t.ncols;
        let table = show_table(&t.rows);
        let safe: Vec<usize> = (0..nc).filter(|&k| is_safe(t.kinds[k])).collect();
        let all: Vec<usize> = (0..nc).collect();
        // predicates: the partition, and the chunk structure of the filter
        let p1 = pred_string(&mut r, &t);
        let p2 = pred_string(&mut r, &t);
        out.push(format!("ops2 tlp {} {} {} {}", nc, p1, gen_sizes(&mut r, n), table));
        out.push(format!("ops2 tlp {} {} {} {}", nc, p2, gen_sizes(&mut r, n), table));
        out.push(format!("ops2 tlp.c {} {} {} {}", nc, p1, gen_sizes(&mut r, n), table));
        if r.chance(1, 2) {
            gen_arith_probe(&mut r, out);
        }
        // sort: the same rows under two chunkings, the output chunk structure, and columns of mixed kinds
        let keys = gen_keys(&mut r, &safe);
        out.push(format!("ops2 sort {} {} {} {}", nc, keys, gen_sizes(&mut r, n), table));
        out.push(format!("ops2 sort {} {} {} {}", nc, keys, gen_sizes(&mut r, n), table));
        out.push(format!("ops2 sort.c {} {} {} {}", nc, keys, gen_sizes(&mut r, n), table));
        // columns of mixed kinds (strings, booleans, numbers, NaN in one column)
        out.push(format!("ops2 sort {} {} {} {}", nc, gen_keys(&mut r, &all), gen_sizes(&mut r, n), table));
        let safe = if r.chance(1, 2) { all.clone() } else { safe };
        // count
        for _ in 0..2 {
            let extra = r.chance(1, 10) as u64;
            let col = r.below(nc as u64 + extra);
            let p = match r.below(4) {
                0 => pred_string(&mut r, &t),
                1 => simple_pred(&mut r, &t),
                _ => "-".into(),
            };
            let sk = if r.chance(1, 3) {
                (if r.chance(1, 6) { pick_n(&mut r, n) } else { r.below(n as u64 / 2 + 1) as usize }).to_string()
            } else {
                "-".into()
            };
            let li = if r.chance(1, 3) { (1 + pick_n(&mut r, n)).to_string() } else { "-".into() };
            out.push(format!("ops2 count {} {} {} {} {} {} {}", nc, col, p, sk, li, gen_sizes(&mut r, n), table));
        }
        // chains
        let st = gen_stages(&mut r, &t, &safe);
        out.push(format!("ops2 pipe.f {} {} {} {}", nc, st, gen_sizes(&mut r, n), table));
        out.push(format!("ops2 pipe.c {} {} {} {}", nc, st, gen_sizes(&mut r, n), table));
        let st2 = gen_stages(&mut r, &t, &safe);
        out.push(format!("ops2 pipe.f {} {} {} {}", nc, st2, gen_sizes(&mut r, n), table));
        // the same through the Cypher front end and the planner: nodes with properties c0, c1, …
        if n <= 70 && r.chance(2, 3) {
            for p in [&p1, &p2] {
                if pred_text(p, nc).is_some() {
                    out.push(format!("ops2 qtlp {} {} {}", nc, p, table));
                }
            }
            let keys = gen_keys(&mut r, &all);
            if keys != "-" {
                let sk = if r.chance(1, 3) { r.below(n as u64 + 2).to_string() } else { "-".into() };
                let li = if r.chance(1, 3) { r.below(n as u64 + 2).to_string() } else { "-".into() };
                out.push(format!("ops2 qord {} {} {} {}", keys, sk, li, table));
            }
            let col = r.below(nc as u64);
            let p = if r.chance(1, 2) { simple_pred(&mut r, &t) } else { "-".into() };
            if p == "-" || pred_text(&p, nc).is_some() {
                out.push(format!("ops2 qcnt {} {} {} {}", nc, col, p, table));
            }
        }
    }
}
