//! Stream `wal` — WalManager / WalRecovery at byte level (C06, framing part of C05).
use crate::util::*;
use grafeo_adapters::storage::wal::{DurabilityMode, WalConfig, WalManager, WalRecord, WalRecovery};
use grafeo_common::types::{EdgeId, NodeId, TxId, Value};

fn enc(r: &WalRecord) -> Vec<u8> {
    bincode::serde::encode_to_vec(r, bincode::config::standard()).unwrap()
}

fn dec(b: &[u8]) -> WalRecord {
    bincode::serde::decode_from_slice::<WalRecord, _>(b, bincode::config::standard()).unwrap().0
}

fn gen_value(r: &mut Rng, depth: u32) -> Value {
    match r.below(if depth > 1 { 6 } else { 8 }) {
        0 => Value::Null,
        1 => Value::Bool(r.chance(1, 2)),
        2 => Value::Int64(*r.pick(&[0i64, 1, -1, i64::MIN, i64::MAX, 250, 251, 65536, -65537])),
        3 => Value::Float64(*r.pick(&[0.0f64, -0.0, 1.5, f64::NAN, f64::INFINITY, 1e300])),
        4 => Value::String(r.pick(&["", "a", "héllo", "x y"]).to_string().into()),
        5 => Value::Int64(r.next() as i64),
        6 => Value::List((0..r.below(3)).map(|_| gen_value(r, depth + 1)).collect::<Vec<_>>().into()),
        _ => Value::Bytes(vec![1u8, 2, 255].into()),
    }
}

fn gen_record(r: &mut Rng) -> WalRecord {
    match r.below(14) {
        0 | 1 => WalRecord::CreateNode {
            id: NodeId::new(r.below(300)),
            labels: (0..r.below(3)).map(|i| format!("L{}", i)).collect(),
        },
        2 => WalRecord::DeleteNode { id: NodeId::new(r.below(10)) },
        3 => WalRecord::CreateEdge {
            id: EdgeId::new(r.below(10)),
            src: NodeId::new(r.below(10)),
            dst: NodeId::new(r.below(10)),
            edge_type: "T".into(),
        },
        4 => WalRecord::DeleteEdge { id: EdgeId::new(r.below(10)) },
        5 | 6 => WalRecord::SetNodeProperty { id: NodeId::new(r.below(10)), key: "k".into(), value: gen_value(r, 0) },
        7 => WalRecord::SetEdgeProperty { id: EdgeId::new(r.below(10)), key: "w".into(), value: gen_value(r, 0) },
        8 => WalRecord::AddNodeLabel { id: NodeId::new(r.below(10)), label: "X".into() },
        9 => WalRecord::RemoveNodeLabel { id: NodeId::new(r.below(10)), label: "X".into() },
        10 | 11 => WalRecord::TxCommit { tx_id: TxId::new(r.below(5) + 2) },
        12 => WalRecord::TxAbort { tx_id: TxId::new(r.below(5) + 2) },
        _ => WalRecord::Checkpoint { tx_id: TxId::new(r.below(5) + 2) },
    }
}

fn gen_records(r: &mut Rng, n: usize) -> Vec<String> {
    (0..n).map(|_| hex(&enc(&gen_record(r)))).collect()
}

pub fn generate(seed: u64, cases: usize, tier_thorough: bool, out: &mut Vec<String>) {
    let mut r = Rng::new(seed ^ 0x77616c);
    for c in 0..cases {
        out.push(format!("# case {} seed {}", c, seed));
        let n = r.range(1, 9) as usize;
        let mut recs = gen_records(&mut r, n);
        if r.chance(2, 3) {
            recs.push(hex(&enc(&WalRecord::TxCommit { tx_id: TxId::new(2) })));
        }
        let line = recs.join(" ");
        out.push(format!("wal log {}", line));
        let total: usize = recs.iter().map(|h| h.len() / 2 + 8).sum();
        // every byte length (exhaustive per case)
        for k in 0..=total {
            out.push(format!("wal cut {} {}", k, line));
        }
        // bit flips: sampled in quick, every bit in thorough
        let bits = total * 8;
        if tier_thorough {
            for i in 0..bits {
                out.push(format!("wal flip {} {}", i, line));
            }
        } else {
            for _ in 0..12 {
                out.push(format!("wal flip {} {}", r.below(bits as u64), line));
            }
        }
        // crash image taken right after a successful sync(), in three durability modes
        for mode in ["b", "s", "n"] {
            out.push(format!("wal synced {} {}", mode, line));
        }
        // continuation: crash at k, reopen, write more, close, recover
        for _ in 0..4 {
            let k = r.below(total as u64 + 1);
            let m = r.range(1, 4) as usize;
            let mut more = gen_records(&mut r, m);
            more.push(hex(&enc(&WalRecord::TxCommit { tx_id: TxId::new(3) })));
            out.push(format!("wal cont {} {} | {}", k, line, more.join(" ")));
        }
    }
}

fn write_log(dir: &std::path::Path, recs: &[WalRecord]) -> Vec<u8> {
    let cfg = WalConfig { durability: DurabilityMode::NoSync, ..WalConfig::default() };
    let wal = WalManager::with_config(dir, cfg).unwrap();
    for r in recs {
        wal.log(r).unwrap();
    }
    wal.sync().unwrap();
    let files = wal.log_files().unwrap();
    assert_eq!(files.len(), 1);
    let p = files[0].clone();
    drop(wal);
    std::fs::read(p).unwrap()
}

fn recover_dir(dir: &std::path::Path) -> String {
    let rec = WalRecovery::new(dir);
    match rec.recover() {
        Ok(rs) => {
            if rs.is_empty() {
                "-".into()
            } else {
                rs.iter().map(|r| hex(&enc(r))).collect::<Vec<_>>().join(",")
            }
        }
        Err(_) => "err".into(),
    }
}

fn parse_recs(hs: &[&str]) -> Vec<WalRecord> {
    hs.iter().map(|h| dec(&unhex(h).unwrap())).collect()
}

pub fn run(args: &[&str]) -> String {
    let a = args.to_vec();
    guarded(move || {
        let tmp = tempfile::tempdir().unwrap();
        let dir = tmp.path().join("wal");
        match a.as_slice() {
            ["log", rest @ ..] => hex(&write_log(&dir, &parse_recs(rest))),
            ["cut", k, rest @ ..] => {
                let bytes = write_log(&dir, &parse_recs(rest));
                let k: usize = k.parse().unwrap();
                let cutdir = tmp.path().join("cut");
                std::fs::create_dir_all(&cutdir).unwrap();
                std::fs::write(cutdir.join("wal_00000000.log"), &bytes[..k.min(bytes.len())]).unwrap();
                recover_dir(&cutdir)
            }
            ["flip", i, rest @ ..] => {
                let mut bytes = write_log(&dir, &parse_recs(rest));
                let i: usize = i.parse().unwrap();
                if i / 8 < bytes.len() {
                    bytes[i / 8] ^= 1 << (i % 8);
                }
                let d2 = tmp.path().join("flip");
                std::fs::create_dir_all(&d2).unwrap();
                std::fs::write(d2.join("wal_00000000.log"), &bytes).unwrap();
                recover_dir(&d2)
            }
            // what is on disk after a successful sync() while the manager is still alive (a crash image
            // taken then must hold every record logged before the sync): mode b = Batch with
            // thresholds that are never reached, s = Sync, n = NoSync
            ["synced", mode, rest @ ..] => {
                let durability = match *mode {
                    "b" => DurabilityMode::Batch { max_delay_ms: 3_600_000, max_records: 1_000_000 },
                    "s" => DurabilityMode::Sync,
                    _ => DurabilityMode::NoSync,
                };
                let cfg = WalConfig { durability, ..WalConfig::default() };
                let wal = WalManager::with_config(&dir, cfg).unwrap();
                for r in parse_recs(rest) {
                    wal.log(&r).unwrap();
                }
                wal.sync().unwrap();
                // copy the files while `wal` (and its BufWriter) is alive: no drop, no flush-on-drop
                let d2 = tmp.path().join("image");
                std::fs::create_dir_all(&d2).unwrap();
                for f in wal.log_files().unwrap() {
                    std::fs::copy(&f, d2.join(f.file_name().unwrap())).unwrap();
                }
                let out = recover_dir(&d2);
                drop(wal);
                out
            }
            ["cont", k, rest @ ..] => {
                let pos = rest.iter().position(|x| *x == "|").unwrap();
                let (ra, rb) = (&rest[..pos], &rest[pos + 1..]);
                let bytes = write_log(&dir, &parse_recs(ra));
                let k: usize = k.parse().unwrap();
                let d2 = tmp.path().join("cont");
                std::fs::create_dir_all(&d2).unwrap();
                std::fs::write(d2.join("wal_00000000.log"), &bytes[..k.min(bytes.len())]).unwrap();
                // reopen the damaged directory and keep writing, as GrafeoDB::open does after recovery
                {
                    let cfg = WalConfig { durability: DurabilityMode::NoSync, ..WalConfig::default() };
                    let wal = WalManager::with_config(&d2, cfg).unwrap();
                    for r in parse_recs(rb) {
                        wal.log(&r).unwrap();
                    }
                    wal.sync().unwrap();
                }
                recover_dir(&d2)
            }
            _ => "bad-op".into(),
        }
    })
}
