//! Stream `c15b` — the C15 encodings beyond the integer codecs of stream `c15`:
//! dictionary, bit vector, automatic codec selector, compressed property columns,
//! compressed adjacency chunks, succinct structures (rank/select, Elias-Fano, wavelet tree).
//!
//! Every op line is self-contained (stateless stream). Argument formats:
//!   u64 list   `-` | elem{,elem}   elem = `v` | `a..b` (inclusive, ascending) | `v*k` (k copies)
//!   i64 list   `-` | elem{,elem}   elem = `v` | `v*k`
//!   bits       `-` | seg{.seg}     seg  = `[01]+` | `<bit>*<n>` | `[01]+^<k>` (pattern k times)
//!   strings    `-` | tok{,tok}     tok  = `~` (null) | `S<hex utf8>`
//!   bv program op{,op}: first `e` new | `f<bits>` from_bools | `o<n>` ones | `z<n>` zeros | `c<n>` with_capacity,
//!              then `p<b>` push | `P<bits>` pushes | `s<i>:<b>` set | `n` not | `A<x>` and | `O<x>` or | `X<x>` xor
//!              (operand x = bits, or `o<n>` for BitVector::ones(n))
//!   pc program op{,op}: `M<0|1|2>` storage default mode (first op only) | `s<id>:<k>:<valtok>` set |
//!              `b<start>:<n>:<k>:<pat>` bulk set | `r<id>:<k>` remove | `R<id>` remove_all |
//!              `F` force_compress_all | `C` compress_all | `D<k>` enable_compression(k, None) |
//!              `E<k>:<m>` enable_compression(k, mode m)
//!   adj program op{,op}: `a<src>:<dst>:<eid>` | `d<src>:<eid>` | `c` compact | `n` compact_if_needed | `f` freeze_all
#![allow(unused)]
use crate::util::*;
use crate::vals::{tok, untok};
use grafeo_common::types::{EdgeId, NodeId, PropertyKey, Value};
use grafeo_core::graph::lpg::PropertyStorage;
use grafeo_core::index::adjacency::ChunkedAdjacency;
use grafeo_core::storage::succinct::{EliasFano, SuccinctBitVector, WaveletTree};
use grafeo_core::storage::{
    BitVector, CodecSelector, CompressedData, CompressionCodec, CompressionMetadata, DictionaryBuilder,
    DictionaryEncoding, TypeSpecificCompressor, zigzag_decode,
};
use std::sync::Arc;

// ───────────────────────── argument parsing ─────────────────────────

fn p_u64s(s: &str) -> Vec<u64> {
    if s == "-" || s.is_empty() {
        return vec![];
    }
    let mut v = Vec::new();
    for e in s.split(',') {
        if let Some((a, b)) = e.split_once("..") {
            let (a, b): (u64, u64) = (a.parse().unwrap(), b.parse().unwrap());
            let mut x = a;
            loop {
                if x > b {
                    break;
                }
                v.push(x);
                if x == u64::MAX {
                    break;
                }
                x += 1;
            }
        } else if let Some((a, k)) = e.split_once('*') {
            let (a, k): (u64, usize) = (a.parse().unwrap(), k.parse().unwrap());
            for _ in 0..k {
                v.push(a);
            }
        } else {
            v.push(e.parse().unwrap());
        }
    }
    v
}

fn p_i64s(s: &str) -> Vec<i64> {
    if s == "-" || s.is_empty() {
        return vec![];
    }
    let mut v = Vec::new();
    for e in s.split(',') {
        if let Some((a, k)) = e.split_once('*') {
            let (a, k): (i64, usize) = (a.parse().unwrap(), k.parse().unwrap());
            for _ in 0..k {
                v.push(a);
            }
        } else {
            v.push(e.parse().unwrap());
        }
    }
    v
}

fn p_bits(s: &str) -> Vec<bool> {
    if s == "-" || s.is_empty() {
        return vec![];
    }
    let mut v = Vec::new();
    for seg in s.split('.') {
        if let Some((pat, k)) = seg.split_once('^') {
            let k: usize = k.parse().unwrap();
            for _ in 0..k {
                for c in pat.chars() {
                    v.push(c == '1');
                }
            }
        } else if let Some((b, n)) = seg.split_once('*') {
            let n: usize = n.parse().unwrap();
            let b = b == "1";
            for _ in 0..n {
                v.push(b);
            }
        } else {
            for c in seg.chars() {
                v.push(c == '1');
            }
        }
    }
    v
}

fn bits_str(bs: &[bool]) -> String {
    if bs.is_empty() {
        return "-".into();
    }
    bs.iter().map(|b| if *b { '1' } else { '0' }).collect()
}

fn p_strs(s: &str) -> Vec<Option<String>> {
    if s == "-" || s.is_empty() {
        return vec![];
    }
    s.split(',')
        .map(|t| {
            if t == "~" {
                None
            } else {
                Some(String::from_utf8(unhex(if t.len() == 1 { "-" } else { &t[1..] }).unwrap()).unwrap())
            }
        })
        .collect()
}

fn s_tok(s: &str) -> String {
    format!("S{}", hex(s.as_bytes()))
}

fn opt_s(o: Option<&str>) -> String {
    match o {
        Some(s) => s_tok(s),
        None => "~".into(),
    }
}

fn lst<T: ToString>(xs: &[T]) -> String {
    list_arg(xs)
}

// ───────────────────────── dictionary ─────────────────────────

fn dict_of(vs: &[Option<String>]) -> DictionaryEncoding {
    let mut b = DictionaryBuilder::new();
    for v in vs {
        b.add_optional(v.as_deref());
    }
    b.build()
}

// ───────────────────────── bit vector programs ─────────────────────────

fn bv_operand(x: &str) -> BitVector {
    if let Some(n) = x.strip_prefix('o') {
        BitVector::ones(n.parse().unwrap())
    } else {
        BitVector::from_bools(&p_bits(x))
    }
}

fn bv_prog(p: &str) -> BitVector {
    let mut it = p.split(',');
    let first = it.next().unwrap();
    let (k, rest) = first.split_at(1);
    let mut v = match k {
        "e" => BitVector::new(),
        "f" => BitVector::from_bools(&p_bits(rest)),
        "o" => BitVector::ones(rest.parse().unwrap()),
        "z" => BitVector::zeros(rest.parse().unwrap()),
        "c" => BitVector::with_capacity(rest.parse().unwrap()),
        _ => panic!("bad bv start"),
    };
    for op in it {
        let (k, rest) = op.split_at(1);
        match k {
            "p" => v.push(rest == "1"),
            "P" => {
                for b in p_bits(rest) {
                    v.push(b);
                }
            }
            "s" => {
                let (i, b) = rest.split_once(':').unwrap();
                v.set(i.parse().unwrap(), b == "1");
            }
            "n" => v = v.not(),
            "A" => v = v.and(&bv_operand(rest)),
            "O" => v = v.or(&bv_operand(rest)),
            "X" => v = v.xor(&bv_operand(rest)),
            _ => panic!("bad bv op"),
        }
    }
    v
}

fn opt_b(o: Option<bool>) -> String {
    match o {
        Some(true) => "ok:1".into(),
        Some(false) => "ok:0".into(),
        None => "none".into(),
    }
}

fn opt_us(o: Option<usize>) -> String {
    match o {
        Some(x) => format!("ok:{}", x),
        None => "none".into(),
    }
}

// ───────────────────────── codec selector ─────────────────────────

fn codec_str(c: &CompressionCodec) -> String {
    match c {
        CompressionCodec::None => "None".into(),
        CompressionCodec::Delta => "Delta".into(),
        CompressionCodec::BitPacked { bits } => format!("BitPacked:{}", bits),
        CompressionCodec::DeltaBitPacked { bits } => format!("DeltaBitPacked:{}", bits),
        CompressionCodec::Dictionary => "Dictionary".into(),
        CompressionCodec::BitVector => "BitVector".into(),
        CompressionCodec::RunLength => "RunLength".into(),
    }
}

fn p_codec(s: &str) -> CompressionCodec {
    if s == "None" {
        CompressionCodec::None
    } else if s == "Delta" {
        CompressionCodec::Delta
    } else if let Some(b) = s.strip_prefix("BitPacked:") {
        CompressionCodec::BitPacked { bits: b.parse().unwrap() }
    } else if let Some(b) = s.strip_prefix("DeltaBitPacked:") {
        CompressionCodec::DeltaBitPacked { bits: b.parse().unwrap() }
    } else if s == "Dictionary" {
        CompressionCodec::Dictionary
    } else if s == "BitVector" {
        CompressionCodec::BitVector
    } else if s == "RunLength" {
        CompressionCodec::RunLength
    } else {
        panic!("bad codec")
    }
}

fn meta_str(m: &CompressionMetadata) -> String {
    match m {
        CompressionMetadata::None => "None".into(),
        CompressionMetadata::Delta { base } => format!("Delta:{}", base),
        CompressionMetadata::BitPacked { count } => format!("BitPacked:{}", count),
        CompressionMetadata::DeltaBitPacked { base, count } => format!("DeltaBitPacked:{}:{}", base, count),
        CompressionMetadata::Dictionary { dict_id } => format!("Dictionary:{}", dict_id),
        CompressionMetadata::RunLength { run_count } => format!("RunLength:{}", run_count),
    }
}

fn cd_str(c: &CompressedData) -> String {
    format!(
        "{};{};{};{};{}",
        codec_str(&c.codec),
        c.uncompressed_size,
        if c.data.is_empty() { "-".to_string() } else { hex(&c.data) },
        meta_str(&c.metadata),
        if c.compression_ratio() > 1.2 { 1 } else { 0 }
    )
}

// ───────────────────────── property columns ─────────────────────────

/// `CompressionMode` lives in the private module `graph::lpg::property` and is not
/// re-exported, so it cannot be named from here. Its three field-less variants
/// (None, Auto, Eager) have discriminants 0, 1, 2; the argument type is inferred.
macro_rules! mode {
    ($m:expr) => {
        unsafe { std::mem::transmute::<u8, _>($m as u8) }
    };
}

fn pkey(k: &str) -> PropertyKey {
    PropertyKey::new(format!("k{}", k))
}

fn bulk_val(pat: &str, id: u64) -> Value {
    match pat {
        "q" => Value::Int64(1000 + id as i64),
        "m" => Value::Int64(20 + (id % 50) as i64),
        "w" => Value::Int64((id as i64).wrapping_mul(0x9E37_79B9_7F4A_7C15u64 as i64)),
        "g" => Value::Int64(-((id % 7) as i64)),
        "c" => Value::String(["Person", "Company", "Product", "Location"][(id % 4) as usize].into()),
        "u" => Value::String(format!("u{}", id).into()),
        "t" => Value::Bool(id % 2 == 0),
        "T" => Value::Bool(true),
        _ => panic!("bad pattern"),
    }
}

fn pc_run(prog: &str) -> PropertyStorage<NodeId> {
    let mut ops: Vec<&str> = if prog == "-" { vec![] } else { prog.split(',').collect() };
    let st: PropertyStorage<NodeId> = if let Some(m) = ops.first().and_then(|o| o.strip_prefix('M')) {
        let m: u8 = m.parse().unwrap();
        assert!(m < 3);
        ops.remove(0);
        if m == 0 { PropertyStorage::new() } else { PropertyStorage::with_compression(mode!(m)) }
    } else {
        PropertyStorage::new()
    };
    for op in ops {
        let (k, rest) = op.split_at(1);
        let f: Vec<&str> = rest.split(':').collect();
        match k {
            "s" => st.set(NodeId::new(f[0].parse().unwrap()), pkey(f[1]), untok(f[2])),
            "b" => {
                let (start, n): (u64, u64) = (f[0].parse().unwrap(), f[1].parse().unwrap());
                for id in start..start + n {
                    st.set(NodeId::new(id), pkey(f[2]), bulk_val(f[3], id));
                }
            }
            "r" => {
                st.remove(NodeId::new(f[0].parse().unwrap()), &pkey(f[1]));
            }
            "R" => st.remove_all(NodeId::new(f[0].parse().unwrap())),
            "F" => st.force_compress_all(),
            "C" => st.compress_all(),
            "D" => st.enable_compression(&pkey(f[0]), Default::default()),
            "E" => {
                let m: u8 = f[1].parse().unwrap();
                assert!(m < 3);
                st.enable_compression(&pkey(f[0]), mode!(m))
            }
            _ => panic!("bad pc op"),
        }
    }
    st
}

fn opt_v(o: Option<Value>) -> String {
    match o {
        Some(v) => tok(&v),
        None => "~".into(),
    }
}

fn pc_query(st: &PropertyStorage<NodeId>, q: &str) -> String {
    let (k, rest) = q.split_at(1);
    match k {
        "g" => {
            let (id, key) = rest.split_once(':').unwrap();
            opt_v(st.get(NodeId::new(id.parse().unwrap()), &pkey(key)))
        }
        "a" => {
            let m = st.get_all(NodeId::new(rest.parse().unwrap()));
            let mut kv: Vec<(String, String)> = m.iter().map(|(k, v)| (k.as_str().to_string(), tok(v))).collect();
            kv.sort();
            let parts: Vec<String> = kv.into_iter().map(|(k, v)| format!("{}={}", k, v)).collect();
            format!("{{{}}}", parts.join("&"))
        }
        "B" => {
            let (key, ids) = rest.split_once(':').unwrap();
            let ids: Vec<NodeId> = ids.split('.').map(|i| NodeId::new(i.parse().unwrap())).collect();
            let r = st.get_batch(&ids, &pkey(key));
            let parts: Vec<String> = r.into_iter().map(opt_v).collect();
            format!("[{}]", parts.join("."))
        }
        _ => panic!("bad pc query"),
    }
}

// ───────────────────────── adjacency ─────────────────────────

fn adj_run(cap: usize, prog: &str) -> ChunkedAdjacency {
    let adj = ChunkedAdjacency::with_chunk_capacity(cap);
    if prog == "-" {
        return adj;
    }
    for op in prog.split(',') {
        let (k, rest) = op.split_at(1);
        let f: Vec<u64> = if rest.is_empty() { vec![] } else { rest.split(':').map(|x| x.parse().unwrap()).collect() };
        match k {
            "a" => adj.add_edge(NodeId::new(f[0]), NodeId::new(f[1]), EdgeId::new(f[2])),
            "d" => adj.mark_deleted(NodeId::new(f[0]), EdgeId::new(f[1])),
            "c" => adj.compact(),
            "n" => adj.compact_if_needed(),
            "f" => adj.freeze_all(),
            _ => panic!("bad adj op"),
        }
    }
    adj
}

fn edges_str(es: &[(u64, u64)]) -> String {
    if es.is_empty() {
        return "-".into();
    }
    es.iter().map(|(d, e)| format!("{}:{}", d, e)).collect::<Vec<_>>().join(",")
}

// ───────────────────────── run ─────────────────────────

pub fn run(args: &[&str]) -> String {
    let a = args.to_vec();
    guarded(move || match a.as_slice() {
        // ── dictionary ──
        ["dict.build", l] => {
            let d = dict_of(&p_strs(l));
            let dict: Vec<String> = d.dictionary().iter().map(|s| s_tok(s)).collect();
            // the null bitmap is private: observe it through is_null on a padded range
            let nulls: Vec<usize> = (0..d.len() + 70).filter(|i| d.is_null(*i)).collect();
            format!("{}|{}|{}|{}", lst(d.codes()), lst(&dict), lst(&nulls), d.dictionary_size())
        }
        ["dict.get", l, i] => opt_s(dict_of(&p_strs(l)).get(i.parse().unwrap())),
        ["dict.code", l, i] => match dict_of(&p_strs(l)).get_code(i.parse().unwrap()) {
            Some(c) => format!("{}", c),
            None => "~".into(),
        },
        ["dict.dec", l] => {
            let d = dict_of(&p_strs(l));
            let v: Vec<String> = d.iter().map(opt_s).collect();
            format!("{};{}", d.len(), lst(&v))
        }
        ["dict.enc", l, s] => {
            let d = dict_of(&p_strs(l));
            let s = String::from_utf8(unhex(if s.len() == 1 { "-" } else { &s[1..] }).unwrap()).unwrap();
            match d.encode(&s) {
                Some(c) => format!("ok:{}", c),
                None => "none".into(),
            }
        }
        ["dict.filter", l, c] => {
            let d = dict_of(&p_strs(l));
            let c: u32 = c.parse().unwrap();
            lst(&d.filter_by_code(|x| x == c))
        }
        ["dict.ratio", l] => {
            let d = dict_of(&p_strs(l));
            format!("{}", if d.compression_ratio() > 1.2 { 1 } else { 0 })
        }
        ["dict.raw", dict, codes, bitmap, i] => {
            let dict: Vec<Arc<str>> = p_strs(dict).into_iter().map(|s| Arc::from(s.unwrap().as_str())).collect();
            let codes: Vec<u32> = p_u64s(codes).into_iter().map(|c| c as u32).collect();
            let mut d = DictionaryEncoding::new(dict.into(), codes);
            if *bitmap != "x" {
                d = d.with_nulls(p_u64s(bitmap));
            }
            let i: usize = i.parse().unwrap();
            format!("{};{}", opt_s(d.get(i)), match d.get_code(i) { Some(c) => format!("{}", c), None => "~".into() })
        }
        // ── bit vector ──
        ["bv.from", b] => {
            let v = BitVector::from_bools(&p_bits(b));
            format!("{};{}", v.len(), lst(v.data()))
        }
        ["bv.get", p, i] => opt_b(bv_prog(p).get(i.parse().unwrap())),
        ["bv.prog", p] => {
            let v = bv_prog(p);
            format!("{};{};{};{}", v.len(), bits_str(&v.to_bools()), v.count_ones(), v.count_zeros())
        }
        ["bv.words", p] => {
            let v = bv_prog(p);
            format!("{};{}", v.len(), lst(v.data()))
        }
        ["bv.iter", p] => {
            let v = bv_prog(p);
            let o: Vec<usize> = v.ones_iter().collect();
            let z: Vec<usize> = v.zeros_iter().collect();
            let it: Vec<bool> = v.iter().collect();
            format!("{}|{}|{}", lst(&o), lst(&z), bits_str(&it))
        }
        ["bv.eq", p, q] => format!("{}", if bv_prog(p) == bv_prog(q) { 1 } else { 0 }),
        ["bv.bytes", p] => hex(&bv_prog(p).to_bytes()),
        ["bv.rt", p] => {
            let v = bv_prog(p);
            match BitVector::from_bytes(&v.to_bytes()) {
                Ok(w) => format!("ok:{};{};{}", w.len(), bits_str(&w.to_bools()), if w == v { 1 } else { 0 }),
                Err(_) => "err".into(),
            }
        }
        ["bv.fb", h] => match BitVector::from_bytes(&unhex(h).unwrap()) {
            Ok(w) => format!("ok:{};{}", w.len(), lst(w.data())),
            Err(_) => "err".into(),
        },
        ["bv.collect", b] => {
            let v: BitVector = p_bits(b).into_iter().collect();
            format!("{};{}", v.len(), lst(v.data()))
        }
        // ── codec selector ──
        ["sel.int", l] => codec_str(&CodecSelector::select_for_integers(&p_u64s(l))),
        ["sel.str", l] => {
            let v = p_strs(l);
            let r: Vec<&str> = v.iter().map(|s| s.as_deref().unwrap()).collect();
            codec_str(&CodecSelector::select_for_strings(&r))
        }
        ["sel.cint", l] => cd_str(&TypeSpecificCompressor::compress_integers(&p_u64s(l))),
        ["sel.rt", l] => {
            let c = TypeSpecificCompressor::compress_integers(&p_u64s(l));
            match TypeSpecificCompressor::decompress_integers(&c) {
                Ok(v) => format!("ok:{}", join(&v)),
                Err(_) => "err".into(),
            }
        }
        ["sel.srt", l] => {
            let c = TypeSpecificCompressor::compress_signed_integers(&p_i64s(l));
            match TypeSpecificCompressor::decompress_integers(&c) {
                Ok(v) => format!("ok:{}", join(&v.iter().map(|x| zigzag_decode(*x)).collect::<Vec<_>>())),
                Err(_) => "err".into(),
            }
        }
        ["sel.bool", b] => {
            let c = TypeSpecificCompressor::compress_booleans(&p_bits(b));
            let d = match TypeSpecificCompressor::decompress_booleans(&c) {
                Ok(v) => format!("ok:{}", bits_str(&v)),
                Err(_) => "err".into(),
            };
            format!("{}|{}", cd_str(&c), d)
        }
        ["sel.dec", codec, h] => {
            let c = CompressedData {
                codec: p_codec(codec),
                uncompressed_size: 0,
                data: unhex(h).unwrap(),
                metadata: CompressionMetadata::None,
            };
            match TypeSpecificCompressor::decompress_integers(&c) {
                Ok(v) => format!("ok:{}", join(&v)),
                Err(_) => "err".into(),
            }
        }
        // ── property columns ──
        ["pc", prog, qs] => {
            let st = pc_run(prog);
            let parts: Vec<String> = qs.split(',').map(|q| pc_query(&st, q)).collect();
            parts.join(";")
        }
        ["pc.stat", prog, k] => {
            let st = pc_run(prog);
            let stats = st.compression_stats();
            match stats.get(&pkey(k)) {
                Some(s) => format!(
                    "{}:{}",
                    match &s.codec { Some(c) => codec_str(c), None => "-".into() },
                    s.value_count
                ),
                None => "nocol".into(),
            }
        }
        // ── adjacency ──
        ["adj.seq", cap, prog, src] => {
            let adj = adj_run(cap.parse().unwrap(), prog);
            let s = NodeId::new(src.parse().unwrap());
            let es: Vec<(u64, u64)> = adj.edges_from(s).into_iter().map(|(d, e)| (d.as_u64(), e.as_u64())).collect();
            let ns: Vec<u64> = adj.neighbors(s).into_iter().map(|d| d.as_u64()).collect();
            format!("{}|{}|{}", edges_str(&es), lst(&ns), adj.out_degree(s))
        }
        ["adj.set", cap, prog, src] => {
            let adj = adj_run(cap.parse().unwrap(), prog);
            let s = NodeId::new(src.parse().unwrap());
            let mut es: Vec<(u64, u64)> =
                adj.edges_from(s).into_iter().map(|(d, e)| (d.as_u64(), e.as_u64())).collect();
            es.sort();
            edges_str(&es)
        }
        ["adj.stat", cap, prog] => {
            let adj = adj_run(cap.parse().unwrap(), prog);
            let m = adj.memory_stats();
            format!(
                "{};{};{};{};{};{}",
                m.hot_entries,
                m.cold_entries,
                m.cold_bytes,
                adj.total_edge_count(),
                adj.active_edge_count(),
                adj.node_count()
            )
        }
        // ── succinct bit vector ──
        ["sbv.info", p] => {
            let s = SuccinctBitVector::from_bitvec(bv_prog(p));
            format!("{};{};{};{}", s.len(), s.count_ones(), s.count_zeros(), s.auxiliary_size_bytes())
        }
        ["sbv.rank1", p, i] => format!("{}", SuccinctBitVector::from_bitvec(bv_prog(p)).rank1(i.parse().unwrap())),
        ["sbv.rank0", p, i] => format!("{}", SuccinctBitVector::from_bitvec(bv_prog(p)).rank0(i.parse().unwrap())),
        ["sbv.sel1", p, k] => opt_us(SuccinctBitVector::from_bitvec(bv_prog(p)).select1(k.parse().unwrap())),
        ["sbv.sel0", p, k] => opt_us(SuccinctBitVector::from_bitvec(bv_prog(p)).select0(k.parse().unwrap())),
        // ── Elias-Fano ──
        ["ef.info", l] => {
            let e = EliasFano::new(&p_u64s(l));
            format!("{};{};{}", e.len(), e.universe(), e.size_bytes() - std::mem::size_of::<EliasFano>())
        }
        ["ef.get", l, i] => format!("{}", EliasFano::new(&p_u64s(l)).get(i.parse().unwrap())),
        ["ef.dec", l] => {
            let e = EliasFano::new(&p_u64s(l));
            let v: Vec<u64> = e.iter().collect();
            format!("ok:{}", join(&v))
        }
        ["ef.contains", l, v] => format!("{}", if EliasFano::new(&p_u64s(l)).contains(v.parse().unwrap()) { 1 } else { 0 }),
        ["ef.pred", l, v] => opt_us(EliasFano::new(&p_u64s(l)).predecessor(v.parse().unwrap())),
        ["ef.succ", l, v] => opt_us(EliasFano::new(&p_u64s(l)).successor(v.parse().unwrap())),
        // ── wavelet tree ──
        ["wt.info", l] => {
            let w = WaveletTree::new(&p_u64s(l));
            let al: Vec<u64> = w.alphabet().collect();
            format!(
                "{};{};{};{}",
                w.len(),
                w.sigma(),
                lst(&al),
                w.size_bytes() - std::mem::size_of::<WaveletTree>()
            )
        }
        ["wt.access", l, i] => format!("{}", WaveletTree::new(&p_u64s(l)).access(i.parse().unwrap())),
        ["wt.dec", l] => {
            let w = WaveletTree::new(&p_u64s(l));
            let v: Vec<u64> = w.iter().map(|(_, s)| s).collect();
            format!("ok:{}", join(&v))
        }
        ["wt.rank", l, s, i] => format!("{}", WaveletTree::new(&p_u64s(l)).rank(s.parse().unwrap(), i.parse().unwrap())),
        ["wt.select", l, s, k] => opt_us(WaveletTree::new(&p_u64s(l)).select(s.parse().unwrap(), k.parse().unwrap())),
        ["wt.count", l, s] => format!("{}", WaveletTree::new(&p_u64s(l)).count(s.parse().unwrap())),
        _ => "bad-op".into(),
    })
}

// ───────────────────────── generator ─────────────────────────

fn g_bits(r: &mut Rng) -> String {
    let len = match r.below(12) {
        0 => 0,
        1 => 1,
        2 => r.range(62, 66),
        3 => r.range(126, 130),
        4 => r.range(510, 515),
        5 | 6 => r.range(2, 40),
        7 => r.range(40, 200),
        8 => r.range(200, 1300),
        _ => r.range(1, 100),
    } as usize;
    if len == 0 {
        return "-".into();
    }
    match r.below(7) {
        0 => format!("1*{}", len),
        1 => format!("0*{}", len),
        2 | 3 => {
            // runs
            let mut segs = Vec::new();
            let mut left = len;
            let mut b = r.below(2);
            while left > 0 {
                let cap = if r.chance(1, 3) { 400 } else { 20 };
                let n = (r.range(1, (left as u64).min(cap)) as usize).min(left);
                segs.push(format!("{}*{}", b, n));
                left -= n;
                b ^= 1;
            }
            segs.join(".")
        }
        4 => {
            let pat: String = (0..r.range(2, 9)).map(|_| if r.chance(1, 3) { '1' } else { '0' }).collect();
            format!("{}^{}", pat, (len / pat.len()).max(1))
        }
        _ => {
            let dens = r.range(1, 9);
            (0..len).map(|_| if r.below(10) < dens { '1' } else { '0' }).collect()
        }
    }
}

fn g_bv_prog(r: &mut Rng, allow_panic: bool) -> String {
    let mut ops: Vec<String> = Vec::new();
    let mut len: usize;
    match r.below(8) {
        0 => {
            ops.push("e".into());
            len = 0;
        }
        1 => {
            len = *r.pick(&[0usize, 1, 5, 63, 64, 65, 100, 128, 130]);
            ops.push(format!("o{}", len));
        }
        2 => {
            len = *r.pick(&[0usize, 1, 5, 63, 64, 65, 100, 128]);
            ops.push(format!("z{}", len));
        }
        3 => {
            ops.push(format!("c{}", r.below(200)));
            len = 0;
        }
        _ => {
            let b = g_bits(r);
            len = p_bits(&b).len();
            ops.push(format!("f{}", b));
        }
    }
    let n_ops = if r.chance(1, 3) { 0 } else { r.below(6) };
    for _ in 0..n_ops {
        match r.below(9) {
            0 | 1 => {
                ops.push(format!("p{}", r.below(2)));
                len += 1;
            }
            2 => {
                let b = g_bits(r);
                let n = p_bits(&b).len();
                if n > 0 && n < 300 {
                    ops.push(format!("P{}", b));
                    len += n;
                }
            }
            3 | 4 => {
                if len > 0 {
                    ops.push(format!("s{}:{}", r.below(len as u64), r.below(2)));
                } else if allow_panic && r.chance(1, 4) {
                    ops.push(format!("s{}:1", r.below(3)));
                    return ops.join(",");
                }
            }
            5 => ops.push("n".into()),
            k => {
                let x = if r.chance(1, 3) {
                    let n = r.below(140) as usize;
                    len = len.min(n);
                    format!("o{}", n)
                } else {
                    let b = g_bits(r);
                    len = len.min(p_bits(&b).len());
                    b
                };
                ops.push(format!("{}{}", ["A", "O", "X"][(k - 6) as usize], x));
            }
        }
    }
    ops.join(",")
}

fn g_strs(r: &mut Rng) -> Vec<Option<String>> {
    let pool = ["", "a", "b", "ab", "Person", "Company", "é", "a b", "xxxxxxxxxxxxxxxxxxxxxxxx", "日本"];
    let len = match r.below(8) {
        0 => 0,
        1 => 1,
        2 => r.range(2, 5),
        3 => r.range(62, 67),
        4 => r.range(126, 131),
        _ => r.range(3, 30),
    } as usize;
    let nullp = *r.pick(&[0u64, 0, 1, 3, 10]);
    let card = r.range(1, pool.len() as u64) as usize;
    let uniq = r.chance(1, 6);
    (0..len)
        .map(|i| {
            if r.below(10) < nullp {
                None
            } else if uniq {
                Some(format!("s{}", i))
            } else {
                Some(pool[r.below(card as u64) as usize].to_string())
            }
        })
        .collect()
}

fn strs_arg(v: &[Option<String>]) -> String {
    if v.is_empty() {
        return "-".into();
    }
    v.iter().map(|s| opt_s(s.as_deref())).collect::<Vec<_>>().join(",")
}

fn g_u64s(r: &mut Rng) -> Vec<u64> {
    let len = match r.below(10) {
        0 => r.below(8),
        1 => 8,
        2 => r.range(62, 66),
        3 => r.range(100, 300),
        _ => r.range(8, 60),
    } as usize;
    let width = r.range(0, 64) as u32;
    let rnd = |r: &mut Rng| if width == 0 { 0 } else { r.next() >> (64 - width) };
    let mut cur = rnd(r);
    let mut v = Vec::with_capacity(len);
    match r.below(9) {
        0 => v = vec![cur; len],
        1 | 2 => {
            // runs with a chosen number of breaks
            let pbreak = r.range(1, 9);
            let small = r.chance(1, 2);
            for _ in 0..len {
                if r.below(10) < pbreak {
                    cur = if small { r.below(6) } else { rnd(r) };
                }
                v.push(cur);
            }
        }
        3 | 4 => {
            // sorted, steps of a chosen magnitude, some repeats
            let sh = r.below(40);
            for _ in 0..len {
                if !r.chance(1, 4) {
                    cur = cur.saturating_add(r.below(1 << sh));
                }
                v.push(cur);
            }
        }
        5 => {
            for _ in 0..len {
                v.push(rnd(r));
            }
        }
        6 => {
            for _ in 0..len {
                v.push(*r.pick(&[0u64, 1, u64::MAX, u64::MAX - 1, 1 << 63, (1 << 63) - 1, 1 << 31, (1 << 31) - 1, 1 << 32]));
            }
            if r.chance(1, 2) {
                v.sort_unstable();
            }
        }
        7 => {
            // exactly r runs over n values with n around 2r / 3r (the selector's thresholds)
            let runs = r.range(3, 12) as usize;
            let n = (*r.pick(&[2 * runs, 2 * runs + 1, 3 * runs - 1, 3 * runs, 3 * runs + 1, 4 * runs])).max(8);
            let sorted = r.chance(1, 2);
            let mut val = r.below(4);
            let mut cuts: Vec<usize> = (0..runs).map(|i| (i + 1) * n / runs).collect();
            cuts[runs - 1] = n;
            let mut start = 0;
            for c in cuts {
                for _ in start..c {
                    v.push(val);
                }
                start = c;
                let hi = 1u64 << r.below(33);
                val = if sorted { val + r.range(1, hi) } else { (val + r.range(1, 5)) % 7 };
            }
        }
        _ => {
            for i in 0..len {
                v.push(i as u64 * r.range(1, 3));
            }
        }
    }
    v
}

/// compact form of a u64 list (`v*k` for repeats, `a..b` for unit steps)
fn u64s_arg(v: &[u64]) -> String {
    if v.is_empty() {
        return "-".into();
    }
    let mut out: Vec<String> = Vec::new();
    let mut i = 0;
    while i < v.len() {
        let mut j = i + 1;
        while j < v.len() && v[j] == v[i] {
            j += 1;
        }
        if j - i >= 3 {
            out.push(format!("{}*{}", v[i], j - i));
            i = j;
            continue;
        }
        let mut j = i + 1;
        while j < v.len() && v[j - 1] != u64::MAX && v[j] == v[j - 1] + 1 {
            j += 1;
        }
        if j - i >= 4 {
            out.push(format!("{}..{}", v[i], v[j - 1]));
            i = j;
            continue;
        }
        out.push(v[i].to_string());
        i += 1;
    }
    out.join(",")
}

fn i64s_arg(v: &[i64]) -> String {
    if v.is_empty() {
        return "-".into();
    }
    v.iter().map(|x| x.to_string()).collect::<Vec<_>>().join(",")
}

fn g_val(r: &mut Rng, kind: u64) -> Value {
    match kind {
        0 => Value::Int64(match r.below(4) {
            0 => r.below(10) as i64,
            1 => -(r.below(1000) as i64),
            2 => *r.pick(&[i64::MIN, i64::MAX, 0, -1]),
            _ => r.next() as i64 >> r.below(64),
        }),
        1 => Value::String((*r.pick(&["", "a", "b", "Person", "Company", "é", "longer string value"])).into()),
        2 => Value::Bool(r.chance(1, 2)),
        3 => Value::Float64(*r.pick(&[0.0, -0.0, 1.5, f64::NAN, f64::INFINITY, -2.25])),
        _ => Value::Null,
    }
}

fn g_pc_prog(r: &mut Rng) -> (String, Vec<u64>) {
    let mut ops: Vec<String> = Vec::new();
    let mode = *r.pick(&[0u64, 0, 0, 0, 1, 2]);
    if mode != 0 || r.chance(1, 4) {
        ops.push(format!("M{}", mode));
    }
    let mut ids: Vec<u64> = vec![0, 1];
    let n_ops = r.range(1, 9);
    for _ in 0..n_ops {
        match r.below(14) {
            0 | 1 | 2 => {
                let start = *r.pick(&[0u64, 0, 3, 100, 1 << 40]);
                let n = *r.pick(&[7u64, 8, 9, 12, 20, 40]);
                let k = r.below(3);
                let pat = *r.pick(&["q", "m", "w", "g", "c", "u", "t", "T", "m", "c"]);
                ops.push(format!("b{}:{}:{}:{}", start, n, k, pat));
                ids.push(start);
                ids.push(start + n - 1);
                ids.push(start + r.below(n));
            }
            3 | 4 | 5 => {
                let id = if r.chance(2, 3) { *r.pick(&ids) } else { r.below(50) };
                let kind = *r.pick(&[0u64, 0, 0, 1, 1, 2, 2, 3, 4]);
                ops.push(format!("s{}:{}:{}", id, r.below(3), tok(&g_val(r, kind))));
                ids.push(id);
            }
            6 => ops.push(format!("r{}:{}", *r.pick(&ids), r.below(3))),
            7 => ops.push(format!("R{}", *r.pick(&ids))),
            8 | 9 | 10 => ops.push("F".into()),
            11 => ops.push("C".into()),
            12 => ops.push(format!("D{}", r.below(3))),
            _ => ops.push(format!("E{}:{}", r.below(3), r.below(3))),
        }
    }
    ids.sort_unstable();
    ids.dedup();
    (ops.join(","), ids)
}

fn g_adj_prog(r: &mut Rng) -> (u64, String) {
    let cap = *r.pick(&[1u64, 1, 2, 3, 4, 8, 64, 64]);
    let mut ops: Vec<String> = Vec::new();
    let n = r.range(1, if cap >= 8 { 120 } else { 40 });
    let mut eid = r.below(3);
    let big_dst = r.chance(1, 6);
    let big_eid = r.chance(1, 8);
    let mut eids: Vec<(u64, u64)> = Vec::new();
    for _ in 0..n {
        match r.below(20) {
            0 | 1 => ops.push("c".into()),
            2 => ops.push("n".into()),
            3 => ops.push("f".into()),
            4 | 5 => {
                if let Some((s, e)) = eids.get(r.below(eids.len().max(1) as u64) as usize).copied() {
                    ops.push(format!("d{}:{}", s, e));
                } else {
                    ops.push(format!("d{}:{}", r.below(3), r.below(5)));
                }
            }
            _ => {
                let src = *r.pick(&[0u64, 0, 0, 1, 5]);
                let dst = if big_dst && r.chance(1, 3) {
                    *r.pick(&[u64::MAX, u64::MAX - 1, 1 << 63, 1 << 40])
                } else {
                    r.below(7)
                };
                let e = if big_eid && r.chance(1, 3) { r.next() } else { eid };
                eid += 1;
                ops.push(format!("a{}:{}:{}", src, dst, e));
                eids.push((src, e));
            }
        }
    }
    if r.chance(1, 2) {
        ops.push("c".into());
    }
    if r.chance(1, 3) {
        ops.push("f".into());
    }
    (cap, ops.join(","))
}

fn g_increasing(r: &mut Rng) -> String {
    match r.below(10) {
        0 => "-".into(),
        1 => format!("{}", *r.pick(&[0u64, 1, 7, 1 << 20, (1 << 63) - 1, 1 << 63, u64::MAX - 1, u64::MAX])),
        2 => {
            let a = r.below(5);
            format!("{}..{}", a, a + r.range(1, 700))
        }
        3 => {
            // a dense cluster, then far away values: the dense part lands in one superblock of `upper`
            let a = r.below(100);
            let n = r.range(200, 700);
            let far = a + n + r.range(1000, 1 << 30);
            format!("{}..{},{}", a, a + n, far)
        }
        4 => {
            let mut v = Vec::new();
            let mut cur = r.below(10);
            for _ in 0..r.range(2, 6) {
                let n = r.range(1, 120);
                v.push(format!("{}..{}", cur, cur + n));
                let hi = 1u64 << r.below(40);
                cur += n + r.range(2, hi.max(2));
            }
            v.join(",")
        }
        5 => {
            let v = [0u64, 1, (1 << 63) - 1, 1 << 63, u64::MAX - 1, u64::MAX];
            let take: Vec<String> = v.iter().filter(|_| r.chance(1, 2)).map(|x| x.to_string()).collect();
            if take.is_empty() { "0".into() } else { take.join(",") }
        }
        9 if r.chance(1, 2) => {
            // not strictly increasing (outside the contract: must panic)
            let a = r.below(10);
            format!("{},{},{}", a, a + 3, a + r.below(4))
        }
        _ => {
            let n = r.range(1, 60);
            let sh = r.below(50);
            let hi = 1u64 << r.below(20);
            let mut cur = r.below(hi);
            let mut v = Vec::new();
            for _ in 0..n {
                v.push(cur);
                cur = cur.saturating_add(r.range(1, 1 << sh));
                if cur == u64::MAX {
                    break;
                }
            }
            u64s_arg(&v)
        }
    }
}

fn g_symbols(r: &mut Rng) -> Vec<u64> {
    let sigma = *r.pick(&[1u64, 2, 2, 3, 4, 5, 8, 9, 17]);
    let alphabet: Vec<u64> = (0..sigma)
        .map(|i| match r.below(4) {
            0 => i,
            1 => i * 1000 + 7,
            2 => u64::MAX - i,
            _ => r.below(50),
        })
        .collect();
    let len = match r.below(8) {
        0 => 0,
        1 => 1,
        2 => r.range(60, 70),
        3 => r.range(300, 900),
        _ => r.range(2, 40),
    } as usize;
    let runs = r.chance(1, 3) || len > 100;
    let mut v = Vec::with_capacity(len);
    let mut cur = *r.pick(&alphabet);
    for _ in 0..len {
        if !runs || r.chance(1, if len > 100 { 150 } else { 5 }) {
            cur = *r.pick(&alphabet);
        }
        v.push(cur);
    }
    v
}

pub fn generate(seed: u64, cases: usize, out: &mut Vec<String>) {
    let mut r = Rng::new(seed ^ 0x6331_3562);
    let mut n = 0usize;
    let mut case = |out: &mut Vec<String>| {
        out.push(format!("# case {} seed {}", n, seed));
        n += 1;
    };
    // ── fixed lines: the boundary inputs and the inputs of the witnesses ──
    case(out);
    for l in [
        "dict.dec -",
        "dict.build -",
        "dict.dec ~",
        "dict.dec S",
        "dict.dec S61,S61,~,S62",
        "dict.get S61,~ 1",
        "dict.get S61,~ 64",
        "bv.prog e",
        "bv.prog o1,p0",
        "bv.prog f1,n,p0",
        "bv.prog o64,p0",
        "bv.prog o65,p0,p0",
        "bv.eq o1 f1",
        "bv.eq o64 f1*64",
        "bv.rt o3,p0",
        "bv.rt f1*64.0",
        "bv.get f1,n,p0 1",
        "sel.rt -",
        "sel.rt 0",
        "sel.rt 0*8",
        "sel.rt 0*9",
        "sel.rt 18446744073709551615*8",
        "sel.rt 0..7",
        "sel.rt 0,0,0,0,0,0,0,18446744073709551615",
        "sel.rt 18446744073709551615,0,0,0,0,0,0,0",
        "sel.srt -9223372036854775808,9223372036854775807,0,-1,1,5,5,5",
        "sel.bool -",
        "sel.bool 1*64",
        "sel.bool 1*65",
        "pc b0:8:0:q,F g0:0,g7:0",
        "pc b0:8:0:c,F g0:0",
        "pc b0:8:0:t,F g0:0",
        "pc b0:7:0:q,F g0:0",
        "pc b0:8:0:q,F,D0 g0:0,g7:0",
        "pc b0:8:0:q,F,s3:0:I7,D0 g3:0",
        "pc b0:8:0:q,F,r3:0,D0 g3:0",
        "pc b0:8:0:q,F,R3,D0 g3:0,a3",
        "pc b0:8:0:c,F,s3:0:S78,D0 g3:0",
        "pc b0:8:0:w,F g0:0",
        "pc.stat b0:8:0:q,F 0",
        "pc.stat b0:8:0:q,F,s3:0:I7 0",
        "adj.set 64 a5:0:7,c,f 5",
        "adj.set 1 a5:0:1,a5:0:2,a5:0:3,a5:0:4,a5:0:5,c 5",
        "adj.set 64 a5:0:7,a5:0:8,c,f 5",
        "adj.set 64 a5:1:7,c,f 5",
        "adj.seq 2 a0:3:1,a0:1:2,a0:2:3,a0:1:4,c,f 0",
        "sbv.rank1 f1*321 300",
        "sbv.rank1 f1*320 300",
        "sbv.rank1 f1*256.0*64.1 321",
        "sbv.sel1 f1*512 300",
        "sbv.sel1 f1*320 256",
        "sbv.sel0 f1*320.0 0",
        "sbv.rank0 f1*320.0 321",
        "sbv.rank1 o130 129",
        "sbv.info o130",
        "sbv.sel1 e 0",
        "sbv.sel0 e 0",
        "sbv.rank1 e 5",
        "sbv.sel1 f10^5000 4500",
        "sbv.sel0 f10^5000 4500",
        "sbv.sel1 f0*600.1^4200 4100",
        "sbv.info f10^5000",
        "ef.dec -",
        "ef.dec 0",
        "ef.dec 0..599,1000000",
        "ef.get 0..599,1000000 300",
        "ef.get 0..254,1000000 254",
        "ef.get 0..255,1000000 255",
        "ef.get 0..300,1000000 300",
        "ef.get 9223372036854775807 0",
        "ef.get 9223372036854775808 0",
        "ef.get 18446744073709551615 0",
        "ef.dec 0,18446744073709551614",
        "ef.dec 5,5",
        "wt.dec -",
        "wt.dec 7",
        "wt.dec 7*70",
        "wt.rank 9*600,3 9 300",
        "wt.select 9*600,3 9 300",
        "wt.access 9*600,3 600",
        "wt.rank 3,9*600 9 300",
        "wt.dec 0,1,0,2,1,0,2,2",
    ] {
        out.push(format!("c15b {}", l));
    }
    for _ in 0..cases {
        case(out);
        match r.below(20) {
            // ── dictionary ──
            0 | 1 | 2 => {
                let vs = g_strs(&mut r);
                let l = strs_arg(&vs);
                for op in ["dict.build", "dict.dec", "dict.ratio"] {
                    out.push(format!("c15b {} {}", op, l));
                }
                let mut idx = vec![0u64, vs.len() as u64, vs.len() as u64 + 1, 63, 64];
                for _ in 0..3 {
                    idx.push(r.below(vs.len() as u64 + 2));
                }
                idx.sort_unstable();
                idx.dedup();
                for i in idx {
                    out.push(format!("c15b dict.get {} {}", l, i));
                    out.push(format!("c15b dict.code {} {}", l, i));
                }
                for t in ["a", "b", "Person", "", "zzz", "s1"] {
                    if r.chance(1, 2) {
                        out.push(format!("c15b dict.enc {} {}", l, s_tok(t)));
                    }
                }
                for c in 0..3 {
                    out.push(format!("c15b dict.filter {} {}", l, c));
                }
                if r.chance(1, 3) && vs.iter().all(|v| v.is_some()) {
                    out.push(format!("c15b sel.str {}", l));
                }
                if r.chance(1, 4) {
                    let dict = ["S61", "S62", "S"];
                    let nd = r.range(1, 3) as usize;
                    let codes: Vec<u64> = (0..r.range(1, 70)).map(|_| r.below(5)).collect();
                    let bm = if r.chance(1, 2) { "x".to_string() } else { format!("{}", r.next() >> r.below(64)) };
                    out.push(format!("c15b dict.raw {} {} {} {}", dict[..nd].join(","), join(&codes), bm, r.below(codes.len() as u64 + 2)));
                }
            }
            // ── bit vector ──
            3 | 4 | 5 => {
                let p = g_bv_prog(&mut r, true);
                for op in ["bv.prog", "bv.words", "bv.bytes", "bv.rt", "bv.iter"] {
                    out.push(format!("c15b {} {}", op, p));
                }
                for _ in 0..3 {
                    out.push(format!("c15b bv.get {} {}", p, r.below(140)));
                }
                if r.chance(1, 3) {
                    let q = g_bv_prog(&mut r, false);
                    out.push(format!("c15b bv.eq {} {}", p, q));
                    out.push(format!("c15b bv.eq {} {}", p, p));
                }
                let b = g_bits(&mut r);
                out.push(format!("c15b bv.from {}", b));
                out.push(format!("c15b bv.collect {}", b));
                if r.chance(1, 3) {
                    let len = r.below(30) as usize;
                    let mut bs: Vec<u8> = (0..len).map(|_| r.next() as u8).collect();
                    if len >= 4 {
                        bs[0] = r.below(200) as u8;
                        bs[1] = 0;
                        bs[2] = 0;
                        bs[3] = 0;
                    }
                    out.push(format!("c15b bv.fb {}", if bs.is_empty() { "-".into() } else { hex(&bs) }));
                }
            }
            // ── codec selector ──
            6 | 7 | 8 | 9 => {
                let xs = g_u64s(&mut r);
                let l = u64s_arg(&xs);
                for op in ["sel.int", "sel.cint", "sel.rt"] {
                    out.push(format!("c15b {} {}", op, l));
                }
                let ys: Vec<i64> = xs
                    .iter()
                    .map(|x| if r.chance(1, 2) { *x as i64 } else { (*x >> 1) as i64 - ((*x & 1) as i64) * 1000 })
                    .collect();
                out.push(format!("c15b sel.srt {}", i64s_arg(&ys)));
                out.push(format!("c15b sel.bool {}", g_bits(&mut r)));
                if r.chance(1, 4) {
                    let codec = *r.pick(&["None", "Delta", "BitPacked:3", "DeltaBitPacked:3", "Dictionary", "BitVector", "RunLength"]);
                    let len = r.below(40) as usize;
                    let mut bs: Vec<u8> = (0..len).map(|_| r.next() as u8).collect();
                    if (8..=12).contains(&len) {
                        // the first 8 bytes are a count for RunLength: tiny or beyond isize::MAX / 16
                        // (values in between make Vec::with_capacity abort the process)
                        let huge = r.chance(1, 2);
                        for b in &mut bs[2..8] {
                            *b = if huge { 0xff } else { 0 };
                        }
                    }
                    if len > 12 {
                        bs[0] = r.below(66) as u8;
                        bs[1] = r.below(4) as u8;
                        for b in &mut bs[2..8] {
                            *b = 0;
                        }
                        bs[8] = r.below(66) as u8;
                        bs[9] = r.below(4) as u8;
                        bs[10] = 0;
                        bs[11] = 0;
                        bs[12] = 0;
                    }
                    out.push(format!("c15b sel.dec {} {}", codec, if bs.is_empty() { "-".into() } else { hex(&bs) }));
                }
            }
            // ── property columns ──
            10 | 11 | 12 | 13 => {
                let (p, ids) = g_pc_prog(&mut r);
                let mut qs: Vec<String> = Vec::new();
                for _ in 0..r.range(2, 6) {
                    qs.push(format!("g{}:{}", *r.pick(&ids), r.below(3)));
                }
                qs.push(format!("a{}", *r.pick(&ids)));
                if r.chance(1, 2) {
                    let b: Vec<String> = (0..r.range(1, 4)).map(|_| r.pick(&ids).to_string()).collect();
                    qs.push(format!("B{}:{}", r.below(3), b.join(".")));
                }
                out.push(format!("c15b pc {} {}", p, qs.join(",")));
                for k in 0..3 {
                    out.push(format!("c15b pc.stat {} {}", p, k));
                }
            }
            // ── adjacency ──
            14 | 15 | 16 => {
                let (cap, p) = g_adj_prog(&mut r);
                for src in [0u64, 1, 5] {
                    out.push(format!("c15b adj.set {} {} {}", cap, p, src));
                }
                out.push(format!("c15b adj.seq {} {} 0", cap, p));
                out.push(format!("c15b adj.stat {} {}", cap, p));
            }
            // ── succinct bit vector ──
            17 => {
                let p = if r.chance(1, 4) { g_bv_prog(&mut r, false) } else { format!("f{}", g_bits(&mut r)) };
                out.push(format!("c15b sbv.info {}", p));
                let len = 1400u64;
                for _ in 0..4 {
                    let i = if r.chance(1, 2) { r.below(len) } else { r.below(70) };
                    for op in ["sbv.rank1", "sbv.rank0", "sbv.sel1", "sbv.sel0"] {
                        out.push(format!("c15b {} {} {}", op, p, i));
                    }
                }
            }
            // ── Elias-Fano ──
            18 => {
                let l = g_increasing(&mut r);
                let xs = p_u64s(&l);
                out.push(format!("c15b ef.info {}", l));
                out.push(format!("c15b ef.dec {}", l));
                for _ in 0..3 {
                    out.push(format!("c15b ef.get {} {}", l, r.below(xs.len() as u64 + 1)));
                }
                for _ in 0..3 {
                    let v = if !xs.is_empty() && r.chance(1, 2) {
                        *r.pick(&xs)
                    } else if !xs.is_empty() {
                        r.pick(&xs).wrapping_add(r.below(3)).wrapping_sub(1)
                    } else {
                        r.below(10)
                    };
                    for op in ["ef.contains", "ef.pred", "ef.succ"] {
                        out.push(format!("c15b {} {} {}", op, l, v));
                    }
                }
            }
            // ── wavelet tree ──
            _ => {
                let xs = g_symbols(&mut r);
                let l = u64s_arg(&xs);
                out.push(format!("c15b wt.info {}", l));
                out.push(format!("c15b wt.dec {}", l));
                for _ in 0..3 {
                    let sym = if !xs.is_empty() && r.chance(4, 5) { *r.pick(&xs) } else { r.below(5) };
                    let i = r.below(xs.len() as u64 + 2);
                    if (i as usize) < xs.len() {
                        out.push(format!("c15b wt.access {} {}", l, i));
                    }
                    out.push(format!("c15b wt.rank {} {} {}", l, sym, i));
                    out.push(format!("c15b wt.select {} {} {}", l, sym, r.below(xs.len() as u64 / 2 + 2)));
                    out.push(format!("c15b wt.count {} {}", l, sym));
                }
            }
        }
    }
    // one auto-mode column that crosses HOT_BUFFER_SIZE (4096 sets trigger compress())
    case(out);
    out.push("c15b pc M1,b0:4200:0:m g0:0,g4095:0,g4096:0,g4199:0".into());
    out.push("c15b pc.stat M1,b0:4200:0:m 0".into());
    out.push("c15b pc M1,b0:4095:0:m g0:0,g4094:0".into());
    out.push("c15b pc M2,b0:100:0:m,C g0:0,g99:0".into());
    out.push("c15b pc M0,b0:100:0:m,C g0:0,g99:0".into());
}
