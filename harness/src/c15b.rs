//! Stream `c15b` — the C15 encodings beyond the integer codecs of stream `c15`:
//! dictionary, bit vector, automatic codec selector, compressed property columns,
//! compressed adjacency chunks, succinct structures (rank/select, Elias-Fano, wavelet tree).
//!
//! Every op line is self-contained (stateless stream). Argument formats:
//!   u64 list   `-` | elem{,elem}   elem = `v` | `a..b` (inclusive, ascending) | `v*k` (k copies)
//!   i64 list   `-` | elem{,elem}   elem = `v` | `v*k`
//!   bits       `-` | seg{.seg}     seg  = `[01]+` | `<bit>*<n>`
//!   strings    `-` | tok{,tok}     tok  = `~` (null) | `S<hex utf8>`
//!   bv program op{,op}: first `e` new | `f<bits>` from_bools | `o<n>` ones | `z<n>` zeros | `c<n>` with_capacity,
//!              then `p<b>` push | `P<bits>` pushes | `s<i>:<b>` set | `n` not | `A<x>` and | `O<x>` or | `X<x>` xor
//!              (operand x = bits, or `o<n>` for BitVector::ones(n))
//!   pc program op{,op}: `M<0|1|2>` storage default mode (first op only) | `s<id>:<k>:<valtok>` set |
//!              `b<start>:<n>:<k>:<pat>` bulk set | `r<id>:<k>` remove | `R<id>` remove_all |
//!              `F` force_compress_all | `C` compress_all | `D<k>` enable_compression(k, None) |
//!              `E<k>:<m>` enable_compression(k, mode m)
//!   adj program op{,op}: `a<src>:<dst>:<eid>` | `d<src>:<eid>` | `c` compact | `n` compact_if_needed | `f` freeze_all
#![allow(unused)]
use crate::util::*;
use crate::vals::{tok, untok};
use grafeo_common::types::{EdgeId, NodeId, PropertyKey, Value};
use grafeo_core::graph::lpg::PropertyStorage;
use grafeo_core::index::adjacency::ChunkedAdjacency;
use grafeo_core::storage::succinct::{EliasFano, SuccinctBitVector, WaveletTree};
use grafeo_core::storage::{
    BitVector, CodecSelector, CompressedData, CompressionCodec, CompressionMetadata, DictionaryBuilder,
    DictionaryEncoding, TypeSpecificCompressor, zigzag_decode,
};
use std::sync::Arc;

// ───────────────────────── argument parsing ─────────────────────────

fn p_u64s(s: &str) -> Vec<u64> {
    if s == "-" || s.is_empty() {
        return vec![];
    }
    let mut v = Vec::new();
    for e in s.split(',') {
        if let Some((a, b)) = e.split_once("..") {
            let (a, b): (u64, u64) = (a.parse().unwrap(), b.parse().unwrap());
            let mut x = a;
            loop {
                if x > b {
                    break;
                }
                v.push(x);
                if x == u64::MAX {
                    break;
                }
                x += 1;
            }
        } else if let Some((a, k)) = e.split_once('*') {
            let (a, k): (u64, usize) = (a.parse().unwrap(), k.parse().unwrap());
            for _ in 0..k {
                v.push(a);
            }
        } else {
            v.push(e.parse().unwrap());
        }
    }
    v
}

fn p_i64s(s: &str) -> Vec<i64> {
    if s == "-" || s.is_empty() {
        return vec![];
    }
    let mut v = Vec::new();
    for e in s.split(',') {
        if let Some((a, k)) = e.split_once('*') {
            let (a, k): (i64, usize) = (a.parse().unwrap(), k.parse().unwrap());
            for _ in 0..k {
                v.push(a);
            }
        } else {
            v.push(e.parse().unwrap());
        }
    }
    v
}

fn p_bits(s: &str) -> Vec<bool> {
    if s == "-" || s.is_empty() {
        return vec![];
    }
    let mut v = Vec::new();
    for seg in s.split('.') {
        if let Some((b, n)) = seg.split_once('*') {
            let n: usize = n.parse().unwrap();
            let b = b == "1";
            for _ in 0..n {
                v.push(b);
            }
        } else {
            for c in seg.chars() {
                v.push(c == '1');
            }
        }
    }
    v
}

fn bits_str(bs: &[bool]) -> String {
    if bs.is_empty() {
        return "-".into();
    }
    bs.iter().map(|b| if *b { '1' } else { '0' }).collect()
}

fn p_strs(s: &str) -> Vec<Option<String>> {
    if s == "-" || s.is_empty() {
        return vec![];
    }
    s.split(',')
        .map(|t| {
            if t == "~" {
                None
            } else {
                Some(String::from_utf8(unhex(if t.len() == 1 { "-" } else { &t[1..] }).unwrap()).unwrap())
            }
        })
        .collect()
}

fn s_tok(s: &str) -> String {
    format!("S{}", hex(s.as_bytes()))
}

fn opt_s(o: Option<&str>) -> String {
    match o {
        Some(s) => s_tok(s),
        None => "~".into(),
    }
}

fn lst<T: ToString>(xs: &[T]) -> String {
    list_arg(xs)
}

// ───────────────────────── dictionary ─────────────────────────

fn dict_of(vs: &[Option<String>]) -> DictionaryEncoding {
    let mut b = DictionaryBuilder::new();
    for v in vs {
        b.add_optional(v.as_deref());
    }
    b.build()
}

// ───────────────────────── bit vector programs ─────────────────────────

fn bv_operand(x: &str) -> BitVector {
    if let Some(n) = x.strip_prefix('o') {
        BitVector::ones(n.parse().unwrap())
    } else {
        BitVector::from_bools(&p_bits(x))
    }
}

fn bv_prog(p: &str) -> BitVector {
    let mut it = p.split(',');
    let first = it.next().unwrap();
    let (k, rest) = first.split_at(1);
    let mut v = match k {
        "e" => BitVector::new(),
        "f" => BitVector::from_bools(&p_bits(rest)),
        "o" => BitVector::ones(rest.parse().unwrap()),
        "z" => BitVector::zeros(rest.parse().unwrap()),
        "c" => BitVector::with_capacity(rest.parse().unwrap()),
        _ => panic!("bad bv start"),
    };
    for op in it {
        let (k, rest) = op.split_at(1);
        match k {
            "p" => v.push(rest == "1"),
            "P" => {
                for b in p_bits(rest) {
                    v.push(b);
                }
            }
            "s" => {
                let (i, b) = rest.split_once(':').unwrap();
                v.set(i.parse().unwrap(), b == "1");
            }
            "n" => v = v.not(),
            "A" => v = v.and(&bv_operand(rest)),
            "O" => v = v.or(&bv_operand(rest)),
            "X" => v = v.xor(&bv_operand(rest)),
            _ => panic!("bad bv op"),
        }
    }
    v
}

fn opt_b(o: Option<bool>) -> String {
    match o {
        Some(true) => "ok:1".into(),
        Some(false) => "ok:0".into(),
        None => "none".into(),
    }
}

fn opt_us(o: Option<usize>) -> String {
    match o {
        Some(x) => format!("ok:{}", x),
        None => "none".into(),
    }
}

// ───────────────────────── codec selector ─────────────────────────

fn codec_str(c: &CompressionCodec) -> String {
    match c {
        CompressionCodec::None => "None".into(),
        CompressionCodec::Delta => "Delta".into(),
        CompressionCodec::BitPacked { bits } => format!("BitPacked:{}", bits),
        CompressionCodec::DeltaBitPacked { bits } => format!("DeltaBitPacked:{}", bits),
        CompressionCodec::Dictionary => "Dictionary".into(),
        CompressionCodec::BitVector => "BitVector".into(),
        CompressionCodec::RunLength => "RunLength".into(),
    }
}

fn p_codec(s: &str) -> CompressionCodec {
    if s == "None" {
        CompressionCodec::None
    } else if s == "Delta" {
        CompressionCodec::Delta
    } else if let Some(b) = s.strip_prefix("BitPacked:") {
        CompressionCodec::BitPacked { bits: b.parse().unwrap() }
    } else if let Some(b) = s.strip_prefix("DeltaBitPacked:") {
        CompressionCodec::DeltaBitPacked { bits: b.parse().unwrap() }
    } else if s == "Dictionary" {
        CompressionCodec::Dictionary
    } else if s == "BitVector" {
        CompressionCodec::BitVector
    } else if s == "RunLength" {
        CompressionCodec::RunLength
    } else {
        panic!("bad codec")
    }
}

fn meta_str(m: &CompressionMetadata) -> String {
    match m {
        CompressionMetadata::None => "None".into(),
        CompressionMetadata::Delta { base } => format!("Delta:{}", base),
        CompressionMetadata::BitPacked { count } => format!("BitPacked:{}", count),
        CompressionMetadata::DeltaBitPacked { base, count } => format!("DeltaBitPacked:{}:{}", base, count),
        CompressionMetadata::Dictionary { dict_id } => format!("Dictionary:{}", dict_id),
        CompressionMetadata::RunLength { run_count } => format!("RunLength:{}", run_count),
    }
}

fn cd_str(c: &CompressedData) -> String {
    format!(
        "{};{};{};{};{}",
        codec_str(&c.codec),
        c.uncompressed_size,
        if c.data.is_empty() { "-".to_string() } else { hex(&c.data) },
        meta_str(&c.metadata),
        if c.compression_ratio() > 1.2 { 1 } else { 0 }
    )
}

// ───────────────────────── property columns ─────────────────────────

/// `CompressionMode` lives in the private module `graph::lpg::property` and is not
/// re-exported, so it cannot be named from here. Its three field-less variants
/// (None, Auto, Eager) have discriminants 0, 1, 2; the argument type is inferred.
macro_rules! mode {
    ($m:expr) => {
        unsafe { std::mem::transmute::<u8, _>($m as u8) }
    };
}

fn pkey(k: &str) -> PropertyKey {
    PropertyKey::new(format!("k{}", k))
}

fn bulk_val(pat: &str, id: u64) -> Value {
    match pat {
        "q" => Value::Int64(1000 + id as i64),
        "m" => Value::Int64(20 + (id % 50) as i64),
        "w" => Value::Int64((id as i64).wrapping_mul(0x9E37_79B9_7F4A_7C15u64 as i64)),
        "g" => Value::Int64(-((id % 7) as i64)),
        "c" => Value::String(["Person", "Company", "Product", "Location"][(id % 4) as usize].into()),
        "u" => Value::String(format!("u{}", id).into()),
        "t" => Value::Bool(id % 2 == 0),
        "T" => Value::Bool(true),
        _ => panic!("bad pattern"),
    }
}

fn pc_run(prog: &str) -> PropertyStorage<NodeId> {
    let mut ops: Vec<&str> = if prog == "-" { vec![] } else { prog.split(',').collect() };
    let st: PropertyStorage<NodeId> = if let Some(m) = ops.first().and_then(|o| o.strip_prefix('M')) {
        let m: u8 = m.parse().unwrap();
        assert!(m < 3);
        ops.remove(0);
        if m == 0 { PropertyStorage::new() } else { PropertyStorage::with_compression(mode!(m)) }
    } else {
        PropertyStorage::new()
    };
    for op in ops {
        let (k, rest) = op.split_at(1);
        let f: Vec<&str> = rest.split(':').collect();
        match k {
            "s" => st.set(NodeId::new(f[0].parse().unwrap()), pkey(f[1]), untok(f[2])),
            "b" => {
                let (start, n): (u64, u64) = (f[0].parse().unwrap(), f[1].parse().unwrap());
                for id in start..start + n {
                    st.set(NodeId::new(id), pkey(f[2]), bulk_val(f[3], id));
                }
            }
            "r" => {
                st.remove(NodeId::new(f[0].parse().unwrap()), &pkey(f[1]));
            }
            "R" => st.remove_all(NodeId::new(f[0].parse().unwrap())),
            "F" => st.force_compress_all(),
            "C" => st.compress_all(),
            "D" => st.enable_compression(&pkey(f[0]), Default::default()),
            "E" => {
                let m: u8 = f[1].parse().unwrap();
                assert!(m < 3);
                st.enable_compression(&pkey(f[0]), mode!(m))
            }
            _ => panic!("bad pc op"),
        }
    }
    st
}

fn opt_v(o: Option<Value>) -> String {
    match o {
        Some(v) => tok(&v),
        None => "~".into(),
    }
}

fn pc_query(st: &PropertyStorage<NodeId>, q: &str) -> String {
    let (k, rest) = q.split_at(1);
    match k {
        "g" => {
            let (id, key) = rest.split_once(':').unwrap();
            opt_v(st.get(NodeId::new(id.parse().unwrap()), &pkey(key)))
        }
        "a" => {
            let m = st.get_all(NodeId::new(rest.parse().unwrap()));
            let mut kv: Vec<(String, String)> = m.iter().map(|(k, v)| (k.as_str().to_string(), tok(v))).collect();
            kv.sort();
            let parts: Vec<String> = kv.into_iter().map(|(k, v)| format!("{}={}", k, v)).collect();
            format!("{{{}}}", parts.join("&"))
        }
        "B" => {
            let (key, ids) = rest.split_once(':').unwrap();
            let ids: Vec<NodeId> = ids.split('.').map(|i| NodeId::new(i.parse().unwrap())).collect();
            let r = st.get_batch(&ids, &pkey(key));
            let parts: Vec<String> = r.into_iter().map(opt_v).collect();
            format!("[{}]", parts.join("."))
        }
        _ => panic!("bad pc query"),
    }
}

// ───────────────────────── adjacency ─────────────────────────

fn adj_run(cap: usize, prog: &str) -> ChunkedAdjacency {
    let adj = ChunkedAdjacency::with_chunk_capacity(cap);
    if prog == "-" {
        return adj;
    }
    for op in prog.split(',') {
        let (k, rest) = op.split_at(1);
        let f: Vec<u64> = if rest.is_empty() { vec![] } else { rest.split(':').map(|x| x.parse().unwrap()).collect() };
        match k {
            "a" => adj.add_edge(NodeId::new(f[0]), NodeId::new(f[1]), EdgeId::new(f[2])),
            "d" => adj.mark_deleted(NodeId::new(f[0]), EdgeId::new(f[1])),
            "c" => adj.compact(),
            "n" => adj.compact_if_needed(),
            "f" => adj.freeze_all(),
            _ => panic!("bad adj op"),
        }
    }
    adj
}

fn edges_str(es: &[(u64, u64)]) -> String {
    if es.is_empty() {
        return "-".into();
    }
    es.iter().map(|(d, e)| format!("{}:{}", d, e)).collect::<Vec<_>>().join(",")
}

// ───────────────────────── run ─────────────────────────

pub fn run(args: &[&str]) -> String {
    let a = args.to_vec();
    guarded(move || match a.as_slice() {
        // ── dictionary ──
        ["dict.build", l] => {
            let d = dict_of(&p_strs(l));
            let dict: Vec<String> = d.dictionary().iter().map(|s| s_tok(s)).collect();
            // the null bitmap is private: observe it through is_null on a padded range
            let nulls: Vec<usize> = (0..d.len() + 70).filter(|i| d.is_null(*i)).collect();
            format!("{}|{}|{}|{}", lst(d.codes()), lst(&dict), lst(&nulls), d.dictionary_size())
        }
        ["dict.get", l, i] => opt_s(dict_of(&p_strs(l)).get(i.parse().unwrap())),
        ["dict.code", l, i] => match dict_of(&p_strs(l)).get_code(i.parse().unwrap()) {
            Some(c) => format!("{}", c),
            None => "~".into(),
        },
        ["dict.dec", l] => {
            let d = dict_of(&p_strs(l));
            let v: Vec<String> = d.iter().map(opt_s).collect();
            format!("{};{}", d.len(), lst(&v))
        }
        ["dict.enc", l, s] => {
            let d = dict_of(&p_strs(l));
            let s = String::from_utf8(unhex(if s.len() == 1 { "-" } else { &s[1..] }).unwrap()).unwrap();
            match d.encode(&s) {
                Some(c) => format!("ok:{}", c),
                None => "none".into(),
            }
        }
        ["dict.filter", l, c] => {
            let d = dict_of(&p_strs(l));
            let c: u32 = c.parse().unwrap();
            lst(&d.filter_by_code(|x| x == c))
        }
        ["dict.ratio", l] => {
            let d = dict_of(&p_strs(l));
            format!("{}", if d.compression_ratio() > 1.2 { 1 } else { 0 })
        }
        ["dict.raw", dict, codes, bitmap, i] => {
            let dict: Vec<Arc<str>> = p_strs(dict).into_iter().map(|s| Arc::from(s.unwrap().as_str())).collect();
            let codes: Vec<u32> = p_u64s(codes).into_iter().map(|c| c as u32).collect();
            let mut d = DictionaryEncoding::new(dict.into(), codes);
            if *bitmap != "x" {
                d = d.with_nulls(p_u64s(bitmap));
            }
            let i: usize = i.parse().unwrap();
            format!("{};{}", opt_s(d.get(i)), match d.get_code(i) { Some(c) => format!("{}", c), None => "~".into() })
        }
        // ── bit vector ──
        ["bv.from", b] => {
            let v = BitVector::from_bools(&p_bits(b));
            format!("{};{}", v.len(), lst(v.data()))
        }
        ["bv.get", p, i] => opt_b(bv_prog(p).get(i.parse().unwrap())),
        ["bv.prog", p] => {
            let v = bv_prog(p);
            format!("{};{};{};{}", v.len(), bits_str(&v.to_bools()), v.count_ones(), v.count_zeros())
        }
        ["bv.words", p] => {
            let v = bv_prog(p);
            format!("{};{}", v.len(), lst(v.data()))
        }
        ["bv.iter", p] => {
            let v = bv_prog(p);
            let o: Vec<usize> = v.ones_iter().collect();
            let z: Vec<usize> = v.zeros_iter().collect();
            let it: Vec<bool> = v.iter().collect();
            format!("{}|{}|{}", lst(&o), lst(&z), bits_str(&it))
        }
        ["bv.eq", p, q] => format!("{}", if bv_prog(p) == bv_prog(q) { 1 } else { 0 }),
        ["bv.bytes", p] => hex(&bv_prog(p).to_bytes()),
        ["bv.rt", p] => {
            let v = bv_prog(p);
            match BitVector::from_bytes(&v.to_bytes()) {
                Ok(w) => format!("ok:{};{};{}", w.len(), bits_str(&w.to_bools()), if w == v { 1 } else { 0 }),
                Err(_) => "err".into(),
            }
        }
        ["bv.fb", h] => match BitVector::from_bytes(&unhex(h).unwrap()) {
            Ok(w) => format!("ok:{};{}", w.len(), lst(w.data())),
            Err(_) => "err".into(),
        },
        ["bv.collect", b] => {
            let v: BitVector = p_bits(b).into_iter().collect();
            format!("{};{}", v.len(), lst(v.data()))
        }
        // ── codec selector ──
        ["sel.int", l] => codec_str(&CodecSelector::select_for_integers(&p_u64s(l))),
        ["sel.str", l] => {
            let v = p_strs(l);
            let r: Vec<&str> = v.iter().map(|s| s.as_deref().unwrap()).collect();
            codec_str(&CodecSelector::select_for_strings(&r))
        }
        ["sel.cint", l] => cd_str(&TypeSpecificCompressor::compress_integers(&p_u64s(l))),
        ["sel.rt", l] => {
            let c = TypeSpecificCompressor::compress_integers(&p_u64s(l));
            match TypeSpecificCompressor::decompress_integers(&c) {
                Ok(v) => format!("ok:{}", join(&v)),
                Err(_) => "err".into(),
            }
        }
        ["sel.srt", l] => {
            let c = TypeSpecificCompressor::compress_signed_integers(&p_i64s(l));
            match TypeSpecificCompressor::decompress_integers(&c) {
                Ok(v) => format!("ok:{}", join(&v.iter().map(|x| zigzag_decode(*x)).collect::<Vec<_>>())),
                Err(_) => "err".into(),
            }
        }
        ["sel.bool", b] => {
            let c = TypeSpecificCompressor::compress_booleans(&p_bits(b));
            let d = match TypeSpecificCompressor::decompress_booleans(&c) {
                Ok(v) => format!("ok:{}", bits_str(&v)),
                Err(_) => "err".into(),
            };
            format!("{}|{}", cd_str(&c), d)
        }
        ["sel.dec", codec, h] => {
            let c = CompressedData {
                codec: p_codec(codec),
                uncompressed_size: 0,
                data: unhex(h).unwrap(),
                metadata: CompressionMetadata::None,
            };
            match TypeSpecificCompressor::decompress_integers(&c) {
                Ok(v) => format!("ok:{}", join(&v)),
                Err(_) => "err".into(),
            }
        }
        // ── property columns ──
        ["pc", prog, qs] => {
            let st = pc_run(prog);
            let parts: Vec<String> = qs.split(',').map(|q| pc_query(&st, q)).collect();
            parts.join(";")
        }
        ["pc.stat", prog, k] => {
            let st = pc_run(prog);
            let stats = st.compression_stats();
            match stats.get(&pkey(k)) {
                Some(s) => format!(
                    "{}:{}",
                    match &s.codec { Some(c) => codec_str(c), None => "-".into() },
                    s.value_count
                ),
                None => "nocol".into(),
            }
        }
        // ── adjacency ──
        ["adj.seq", cap, prog, src] => {
            let adj = adj_run(cap.parse().unwrap(), prog);
            let s = NodeId::new(src.parse().unwrap());
            let es: Vec<(u64, u64)> = adj.edges_from(s).into_iter().map(|(d, e)| (d.as_u64(), e.as_u64())).collect();
            let ns: Vec<u64> = adj.neighbors(s).into_iter().map(|d| d.as_u64()).collect();
            format!("{}|{}|{}", edges_str(&es), lst(&ns), adj.out_degree(s))
        }
        ["adj.set", cap, prog, src] => {
            let adj = adj_run(cap.parse().unwrap(), prog);
            let s = NodeId::new(src.parse().unwrap());
            let mut es: Vec<(u64, u64)> =
                adj.edges_from(s).into_iter().map(|(d, e)| (d.as_u64(), e.as_u64())).collect();
            es.sort();
            edges_str(&es)
        }
        ["adj.stat", cap, prog] => {
            let adj = adj_run(cap.parse().unwrap(), prog);
            let m = adj.memory_stats();
            format!(
                "{};{};{};{};{};{}",
                m.hot_entries,
                m.cold_entries,
                m.cold_bytes,
                adj.total_edge_count(),
                adj.active_edge_count(),
                adj.node_count()
            )
        }
        // ── succinct bit vector ──
        ["sbv.info", p] => {
            let s = SuccinctBitVector::from_bitvec(bv_prog(p));
            format!("{};{};{};{}", s.len(), s.count_ones(), s.count_zeros(), s.auxiliary_size_bytes())
        }
        ["sbv.rank1", p, i] => format!("{}", SuccinctBitVector::from_bitvec(bv_prog(p)).rank1(i.parse().unwrap())),
        ["sbv.rank0", p, i] => format!("{}", SuccinctBitVector::from_bitvec(bv_prog(p)).rank0(i.parse().unwrap())),
        ["sbv.sel1", p, k] => opt_us(SuccinctBitVector::from_bitvec(bv_prog(p)).select1(k.parse().unwrap())),
        ["sbv.sel0", p, k] => opt_us(SuccinctBitVector::from_bitvec(bv_prog(p)).select0(k.parse().unwrap())),
        // ── Elias-Fano ──
        ["ef.info", l] => {
            let e = EliasFano::new(&p_u64s(l));
            format!("{};{};{}", e.len(), e.universe(), e.size_bytes() - std::mem::size_of::<EliasFano>())
        }
        ["ef.get", l, i] => format!("{}", EliasFano::new(&p_u64s(l)).get(i.parse().unwrap())),
        ["ef.dec", l] => {
            let e = EliasFano::new(&p_u64s(l));
            let v: Vec<u64> = e.iter().collect();
            format!("ok:{}", join(&v))
        }
        ["ef.contains", l, v] => format!("{}", if EliasFano::new(&p_u64s(l)).contains(v.parse().unwrap()) { 1 } else { 0 }),
        ["ef.pred", l, v] => opt_us(EliasFano::new(&p_u64s(l)).predecessor(v.parse().unwrap())),
        ["ef.succ", l, v] => opt_us(EliasFano::new(&p_u64s(l)).successor(v.parse().unwrap())),
        // ── wavelet tree ──
        ["wt.info", l] => {
            let w = WaveletTree::new(&p_u64s(l));
            let al: Vec<u64> = w.alphabet().collect();
            format!(
                "{};{};{};{}",
                w.len(),
                w.sigma(),
                lst(&al),
                w.size_bytes() - std::mem::size_of::<WaveletTree>()
            )
        }
        ["wt.access", l, i] => format!("{}", WaveletTree::new(&p_u64s(l)).access(i.parse().unwrap())),
        ["wt.dec", l] => {
            let w = WaveletTree::new(&p_u64s(l));
            let v: Vec<u64> = w.iter().map(|(_, s)| s).collect();
            format!("ok:{}", join(&v))
        }
        ["wt.rank", l, s, i] => format!("{}", WaveletTree::new(&p_u64s(l)).rank(s.parse().unwrap(), i.parse().unwrap())),
        ["wt.select", l, s, k] => opt_us(WaveletTree::new(&p_u64s(l)).select(s.parse().unwrap(), k.parse().unwrap())),
        ["wt.count", l, s] => format!("{}", WaveletTree::new(&p_u64s(l)).count(s.parse().unwrap())),
        _ => "bad-op".into(),
    })
}

pub fn generate(_seed: u64, _cases: usize, _out: &mut Vec<String>) {}
