//! Stream `join` — C08, the join operators of grafeo-core
//! (`HashJoinOperator`, `NestedLoopJoinOperator` + `EqualityCondition`, `HashKey`) over mock
//! children with arbitrary chunking, and the same joins through query text.
//!
//! Op lines (one output line each):
//!
//!   join hash   <jt> <lcols> <rcols> <pkeys> <bkeys> <lsizes> <rsizes> <ltable> <rtable>
//!                 the rows of the hash join as a sorted bag (compared with the relational spec)
//!   join hash.c …same…      the output chunk by chunk, rows in emission order
//!   join nl     <jt> <lcols> <rcols> <cond> <lsizes> <rsizes> <ltable> <rtable>   (sorted bag)
//!   join nl.c   …same…
//!   join key    <tok> <tok>   HashKey equal? ; derived `==` ; the filter's `=` (1 / 0 / n)
//!   join q      <lang> <form> <ltable> <rtable>   the equi-join through query text (sorted bag)
//!
//!   <jt>     = inner | left | right | full | cross | semi | anti
//!   <keys>   = column indices joined by `,` | -
//!   <cond>   = x (no condition) | e<lc>.<rc> (EqualityCondition)
//!   <sizes>  = c:<n1>,<n2>,…  child chunk sizes (the rest of the rows forms one more chunk)
//!   <table>  = seg;seg;… | -      seg = row | row*<n> ; row = cells joined by `,` ;
//!              cell = value token | `#` (the row's position in the table as an Int64)
use crate::util::*;
use crate::vals::{tok, untok};
use grafeo_common::types::{LogicalType, Value};
use grafeo_core::execution::DataChunk;
use grafeo_core::execution::ValueVector;
use grafeo_core::execution::operators as ops;
use grafeo_core::execution::operators::{Operator, OperatorResult};

type Row = Vec<Value>;

struct Mock {
    chunks: Vec<Option<DataChunk>>,
    pos: usize,
}

impl Operator for Mock {
    fn next(&mut self) -> OperatorResult {
        if self.pos < self.chunks.len() {
            let c = self.chunks[self.pos].take();
            self.pos += 1;
            Ok(c)
        } else {
            Ok(None)
        }
    }
    fn reset(&mut self) {
        self.pos = 0;
    }
    fn name(&self) -> &'static str {
        "Mock"
    }
}

fn valid_tok(t: &str) -> bool {
    if t.is_empty() || !t.is_char_boundary(1) {
        return false;
    }
    let (k, rest) = t.split_at(1);
    match k {
        "N" => rest.is_empty(),
        "B" => rest == "0" || rest == "1",
        "I" => rest.parse::<i64>().is_ok(),
        "F" => rest.len() == 16 && u64::from_str_radix(rest, 16).is_ok(),
        "S" => unhex(if rest.is_empty() { "-" } else { rest }).map_or(false, |b| String::from_utf8(b).is_ok()),
        _ => false,
    }
}

fn parse_table(s: &str, ncols: usize) -> Option<Vec<Row>> {
    let mut out: Vec<Row> = Vec::new();
    if s == "-" {
        return Some(out);
    }
    for seg in s.split(';') {
        let (row_s, n) = match seg.split_once('*') {
            Some((r, n)) => (r, n.parse::<usize>().ok()?),
            None => (seg, 1),
        };
        let cells: Vec<&str> = row_s.split(',').collect();
        if cells.len() != ncols || n > 100_000 {
            return None;
        }
        for _ in 0..n {
            let mut row = Vec::new();
            for c in &cells {
                if *c == "#" {
                    row.push(Value::Int64(out.len() as i64));
                } else if valid_tok(c) {
                    row.push(untok(c));
                } else {
                    return None;
                }
            }
            out.push(row);
        }
    }
    Some(out)
}

fn parse_sizes(s: &str) -> Option<Vec<usize>> {
    let s = s.strip_prefix("c:")?;
    if s.is_empty() {
        return Some(vec![]);
    }
    s.split(',').map(|x| x.parse().ok()).collect()
}

fn parse_keys(s: &str) -> Option<Vec<usize>> {
    if s == "-" {
        return Some(vec![]);
    }
    s.split(',').map(|x| x.parse().ok()).collect()
}

fn parse_jt(s: &str) -> Option<ops::JoinType> {
    use ops::JoinType::*;
    Some(match s {
        "inner" => Inner,
        "left" => Left,
        "right" => Right,
        "full" => Full,
        "cross" => Cross,
        "semi" => Semi,
        "anti" => Anti,
        _ => return None,
    })
}

fn build_chunk(rows: &[Row], ncols: usize) -> DataChunk {
    let cols: Vec<ValueVector> = (0..ncols)
        .map(|c| {
            let vals: Vec<Value> = rows.iter().map(|r| r[c].clone()).collect();
            ValueVector::from_values(&vals)
        })
        .collect();
    DataChunk::new(cols)
}

fn mock(rows: &[Row], sizes: &[usize], ncols: usize) -> Box<dyn Operator> {
    let mut out = Vec::new();
    let mut pos = 0;
    for &n in sizes {
        let end = (pos + n).min(rows.len());
        out.push(Some(build_chunk(&rows[pos..end], ncols)));
        pos = end;
    }
    if pos < rows.len() {
        out.push(Some(build_chunk(&rows[pos..], ncols)));
    }
    Box::new(Mock { chunks: out, pos: 0 })
}

/// the cells a consumer can read (`get_value` is `None` past the end of a short column)
fn chunk_rows(c: &DataChunk) -> Vec<Row> {
    c.selected_indices().map(|i| (0..c.column_count()).filter_map(|k| c.column(k).and_then(|col| col.get_value(i))).collect()).collect()
}

fn drain(mut op: Box<dyn Operator>) -> Result<Vec<Vec<Row>>, String> {
    let mut out = Vec::new();
    let mut guard = 0;
    loop {
        match op.next() {
            Ok(Some(c)) => out.push(chunk_rows(&c)),
            Ok(None) => break,
            Err(_) => return Err("err".into()),
        }
        guard += 1;
        if guard > 100_000 {
            return Err("hang".into());
        }
    }
    Ok(out)
}

fn show_row(r: &Row) -> String {
    if r.is_empty() { "()".to_string() } else { r.iter().map(tok).collect::<Vec<_>>().join(",") }
}

fn show_chunks(cs: &[Vec<Row>]) -> String {
    if cs.is_empty() {
        return "-".into();
    }
    cs.iter()
        .map(|c| if c.is_empty() { "_".to_string() } else { c.iter().map(show_row).collect::<Vec<_>>().join(";") })
        .collect::<Vec<_>>()
        .join("|")
}

fn show_bag(cs: &[Vec<Row>]) -> String {
    let mut v: Vec<String> = cs.iter().flatten().map(show_row).collect();
    if v.is_empty() {
        return "-".into();
    }
    v.sort();
    v.join(";")
}

fn run_hash(chunked: bool, a: &[&str]) -> Option<String> {
    let jt = parse_jt(a[0])?;
    let lcols: usize = a[1].parse().ok()?;
    let rcols: usize = a[2].parse().ok()?;
    if lcols == 0 || rcols == 0 || lcols > 8 || rcols > 8 {
        return None;
    }
    let pk = parse_keys(a[3])?;
    let bk = parse_keys(a[4])?;
    if pk.len() != bk.len() {
        return None;
    }
    let ls = parse_sizes(a[5])?;
    let rs = parse_sizes(a[6])?;
    let lt = parse_table(a[7], lcols)?;
    let rt = parse_table(a[8], rcols)?;
    let width = if matches!(jt, ops::JoinType::Semi | ops::JoinType::Anti) { lcols } else { lcols + rcols };
    let op = ops::HashJoinOperator::new(mock(&lt, &ls, lcols), mock(&rt, &rs, rcols), pk, bk, jt, vec![LogicalType::Any; width]);
    Some(match drain(Box::new(op)) {
        Ok(cs) => if chunked { show_chunks(&cs) } else { show_bag(&cs) },
        Err(e) => e,
    })
}

fn run_nl(chunked: bool, a: &[&str]) -> Option<String> {
    let jt = parse_jt(a[0])?;
    let lcols: usize = a[1].parse().ok()?;
    let rcols: usize = a[2].parse().ok()?;
    if lcols == 0 || rcols == 0 || lcols > 8 || rcols > 8 {
        return None;
    }
    let cond: Option<Box<dyn ops::JoinCondition>> = if a[3] == "x" {
        None
    } else {
        let (l, r) = a[3].strip_prefix('e')?.split_once('.')?;
        Some(Box::new(ops::EqualityCondition::new(l.parse().ok()?, r.parse().ok()?)))
    };
    let ls = parse_sizes(a[4])?;
    let rs = parse_sizes(a[5])?;
    let lt = parse_table(a[6], lcols)?;
    let rt = parse_table(a[7], rcols)?;
    let op = ops::NestedLoopJoinOperator::new(mock(&lt, &ls, lcols), mock(&rt, &rs, rcols), cond, jt, vec![LogicalType::Any; lcols + rcols]);
    Some(match drain(Box::new(op)) {
        Ok(cs) => if chunked { show_chunks(&cs) } else { show_bag(&cs) },
        Err(e) => e,
    })
}

fn int_chunk(rows: &[Row], ncols: usize) -> DataChunk {
    let cols: Vec<ValueVector> = (0..ncols)
        .map(|c| {
            let mut v = ValueVector::with_capacity(LogicalType::Int64, rows.len());
            for r in rows {
                v.push_value(r[c].clone());
            }
            v
        })
        .collect();
    DataChunk::new(cols)
}

fn int_mock(rows: &[Row], sizes: &[usize], ncols: usize) -> Box<dyn Operator> {
    let mut out = Vec::new();
    let mut pos = 0;
    for &n in sizes {
        let end = (pos + n).min(rows.len());
        out.push(Some(int_chunk(&rows[pos..end], ncols)));
        pos = end;
    }
    if pos < rows.len() {
        out.push(Some(int_chunk(&rows[pos..], ncols)));
    }
    Box::new(Mock { chunks: out, pos: 0 })
}

/// join lf <ncols> <keys> <sizes/sizes/…> <table> <table> …   (Int64 / NULL cells only)
fn run_lf(chunked: bool, a: &[&str]) -> Option<String> {
    if a.len() < 4 || a.len() > 7 {
        return None;
    }
    let ncols: usize = a[0].parse().ok()?;
    if ncols == 0 || ncols > 8 {
        return None;
    }
    let keys = parse_keys(a[1])?;
    if keys.iter().any(|k| *k >= ncols) {
        return None;
    }
    let sizes: Vec<Vec<usize>> = a[2].split('/').map(parse_sizes).collect::<Option<_>>()?;
    let tables: Vec<Vec<Row>> = a[3..].iter().map(|t| parse_table(t, ncols)).collect::<Option<_>>()?;
    if sizes.len() != tables.len() {
        return None;
    }
    if tables.iter().flatten().flatten().any(|v| !matches!(v, Value::Int64(_) | Value::Null)) {
        return None;
    }
    let k = tables.len();
    let inputs: Vec<Box<dyn Operator>> = (0..k).map(|i| int_mock(&tables[i], &sizes[i], ncols)).collect();
    let mapping: Vec<(usize, usize)> = (0..k).flat_map(|i| (0..ncols).map(move |c| (i, c))).collect();
    let op = ops::LeapfrogJoinOperator::new(inputs, vec![keys; k], vec![LogicalType::Int64; k * ncols], mapping);
    Some(match drain(Box::new(op)) {
        Ok(cs) => if chunked { show_chunks(&cs) } else { show_bag(&cs) },
        Err(e) => e,
    })
}

fn run_key(a: &str, b: &str) -> Option<String> {
    if !valid_tok(a) || !valid_tok(b) {
        return None;
    }
    let (x, y) = (untok(a), untok(b));
    let hk = ops::HashKey::from_value(&x) == ops::HashKey::from_value(&y);
    let de = x == y;
    // the filter's `=` on two literals
    use ops::FilterExpression as E;
    let e = E::Binary { left: Box::new(E::Literal(x)), op: ops::BinaryFilterOp::Eq, right: Box::new(E::Literal(y)) };
    let store = std::sync::Arc::new(grafeo_core::graph::lpg::LpgStore::new());
    let pred = ops::ExpressionPredicate::new(e, std::collections::HashMap::new(), store);
    let chunk = build_chunk(&[vec![Value::Int64(0)]], 1);
    let fe = pred.eval_at(&chunk, 0);
    let f = match fe {
        Some(Value::Bool(true)) => "1".to_string(),
        Some(Value::Bool(false)) => "0".to_string(),
        Some(Value::Null) | None => "n".to_string(),
        Some(o) => tok(&o),
    };
    Some(format!("{};{};{}", hk as u8, de as u8, f))
}

pub fn run(toks: &[&str]) -> String {
    let a: Vec<String> = toks.iter().map(|s| s.to_string()).collect();
    guarded(move || {
        let t: Vec<&str> = a.iter().map(|s| s.as_str()).collect();
        let r = match t.as_slice() {
            ["hash", rest @ ..] if rest.len() == 9 => run_hash(false, rest),
            ["hash.c", rest @ ..] if rest.len() == 9 => run_hash(true, rest),
            ["nl", rest @ ..] if rest.len() == 8 => run_nl(false, rest),
            ["nl.c", rest @ ..] if rest.len() == 8 => run_nl(true, rest),
            ["key", x, y] => run_key(x, y),
            ["lf", rest @ ..] => run_lf(false, rest),
            ["lf.c", rest @ ..] => run_lf(true, rest),
            _ => None,
        };
        r.unwrap_or_else(|| "bad-op".to_string())
    })
}

// ---------------------------------------------------------------------------------------------
// generator
// ---------------------------------------------------------------------------------------------

const JTS: [&str; 7] = ["inner", "left", "right", "full", "cross", "semi", "anti"];

fn fbits(f: f64) -> String {
    format!("F{:016x}", f.to_bits())
}

fn key_pool() -> Vec<String> {
    vec![
        "N".into(),
        "I0".into(),
        "I1".into(),
        "I2".into(),
        "I-1".into(),
        fbits(1.0),
        fbits(0.0),
        fbits(-0.0),
        fbits(f64::NAN),
        "F0000000000000001".into(), // the double whose bit pattern is 1
        "I4607182418800017408".into(), // the integer whose value is the bit pattern of 1.0
        "B1".into(),
        "B0".into(),
        "S61".into(),
        "S".into(),
        "S31".into(),
    ]
}

fn gen_table(rng: &mut Rng, nkeys: usize, profile: u64) -> (String, usize) {
    let pool = key_pool();
    let nrows = match profile {
        0 => 0,
        1 => rng.range(1, 3),
        2 => rng.range(2, 9),
        _ => rng.range(0, 6),
    } as usize;
    // a small key domain per table so that duplicates and matches are frequent
    let dom: Vec<String> = (0..rng.range(1, 4)).map(|_| if rng.chance(1, 2) { pool[rng.range(0, 4) as usize].clone() } else { rng.pick(&pool).clone() }).collect();
    let mut segs = Vec::new();
    let mut total = 0usize;
    for _ in 0..nrows {
        let mut cells: Vec<String> = (0..nkeys).map(|_| rng.pick(&dom).clone()).collect();
        cells.push("#".into());
        let n = if rng.chance(1, 6) { rng.range(2, 4) as usize } else { 1 };
        total += n;
        segs.push(if n > 1 { format!("{}*{}", cells.join(","), n) } else { cells.join(",") });
    }
    (if segs.is_empty() { "-".into() } else { segs.join(";") }, total)
}

fn gen_sizes(rng: &mut Rng, total: usize) -> String {
    let mut v = Vec::new();
    match rng.below(5) {
        0 => {}
        1 => {
            for _ in 0..total {
                v.push(1);
            }
        }
        _ => {
            let mut left = total as u64 + 1;
            while left > 0 && v.len() < 6 {
                let n = rng.range(0, 3.min(left));
                v.push(n);
                left = left.saturating_sub(n.max(1));
            }
        }
    }
    format!("c:{}", join(&v))
}

fn big_sizes(rng: &mut Rng) -> String {
    (*rng.pick(&["c:", "c:2048", "c:2047", "c:2049", "c:1,2047", "c:0,2048,0", "c:1000,1000", "c:2047,2"])).to_string()
}

pub fn generate(seed: u64, cases: usize, out: &mut Vec<String>) {
    let mut rng = Rng::new(seed ^ 0x6a6f_696e_5f63_3038);
    let stats = std::env::var("VH_STATS").is_ok();
    let mut dist: std::collections::BTreeMap<String, usize> = Default::default();
    out.push(format!("# case 0 seed {}", seed));
    for l in BOUNDARY {
        out.push(l.to_string());
    }
    for a in key_pool() {
        for b in key_pool() {
            out.push(format!("join key {} {}", a, b));
        }
    }
    for case in 1..=cases {
        out.push(format!("# case {} seed {}", case, seed));
        let kind = rng.below(24);
        if kind < 12 {
            // hash join, small tables
            let nkeys = if rng.chance(1, 4) { 2 } else if rng.chance(1, 12) { 0 } else { 1 } as usize;
            let jt = if nkeys == 0 && rng.chance(1, 2) { "cross" } else { *rng.pick(&JTS) };
            let p1 = rng.below(5);
            let (lt, ln) = gen_table(&mut rng, nkeys, p1);
            let p2 = rng.below(5);
            let (rt, rn) = gen_table(&mut rng, nkeys, p2);
            let keys: Vec<usize> = (0..nkeys).collect();
            let (pk, bk) = if nkeys == 1 && rng.chance(1, 25) {
                // malformed: a key column that does not exist
                (if rng.chance(1, 2) { "7".to_string() } else { "0".to_string() }, "7".to_string())
            } else {
                (list_arg(&keys), list_arg(&keys))
            };
            let args = format!("{} {} {} {} {} {} {} {} {}", jt, nkeys + 1, nkeys + 1, pk, bk, gen_sizes(&mut rng, ln), gen_sizes(&mut rng, rn), lt, rt);
            out.push(format!("join hash {}", args));
            out.push(format!("join hash.c {}", args));
            *dist.entry(format!("hash {} k{}", jt, nkeys)).or_default() += 1;
        } else if kind < 17 {
            let jt = if rng.chance(1, 5) { *rng.pick(&JTS) } else { *rng.pick(&["inner", "left", "cross"]) };
            let p1 = rng.below(5);
            let (lt, ln) = gen_table(&mut rng, 1, p1);
            let p2 = rng.below(5);
            let (rt, rn) = gen_table(&mut rng, 1, p2);
            let cond = match rng.below(6) {
                0 => "x".to_string(),
                1 => "e0.5".to_string(),
                2 => "e1.1".to_string(),
                _ => "e0.0".to_string(),
            };
            let args = format!("{} 2 2 {} {} {} {} {}", jt, cond, gen_sizes(&mut rng, ln), gen_sizes(&mut rng, rn), lt, rt);
            out.push(format!("join nl {}", args));
            out.push(format!("join nl.c {}", args));
            *dist.entry(format!("nl {} {}", jt, if cond == "x" { "x" } else { "e" })).or_default() += 1;
        } else if kind < 19 {
            // output larger than one chunk: duplicate keys on both sides, boundary chunk sizes
            let jt = *rng.pick(&JTS);
            let (l, r) = *rng.pick(&[(2049usize, 2usize), (2, 2049), (50, 50), (2048, 1), (1, 2048), (2047, 3), (64, 32), (1025, 2)]);
            let lt = format!("I1,#*{};N,#;I2,#*3", l);
            let rt = format!("I3,#;I1,#*{};N,#", r);
            let args = format!("{} 2 2 0 0 {} {} {} {}", jt, big_sizes(&mut rng), big_sizes(&mut rng), lt, rt);
            out.push(format!("join hash {}", args));
            out.push(format!("join hash.c {}", args));
            *dist.entry(format!("hash-big {}", jt)).or_default() += 1;
        } else if kind >= 20 {
            // leapfrog: 2 or 3 inputs, 1..3 key columns, Int64 / NULL cells
            let k = rng.range(2, 3) as usize;
            let nkeys = *rng.pick(&[1usize, 1, 1, 2, 2, 3]);
            let mut tabs = Vec::new();
            let mut szs = Vec::new();
            for _ in 0..k {
                let nrows = rng.range(0, 6) as usize;
                let mut segs = Vec::new();
                let mut total = 0;
                for _ in 0..nrows {
                    let mut cells: Vec<String> = (0..nkeys).map(|_| (*rng.pick(&["I0", "I1", "I1", "I2", "I2", "I3", "I-1", "N"])).to_string()).collect();
                    cells.push("#".into());
                    let n = if rng.chance(1, 6) { rng.range(2, 3) as usize } else { 1 };
                    total += n;
                    segs.push(if n > 1 { format!("{}*{}", cells.join(","), n) } else { cells.join(",") });
                }
                tabs.push(if segs.is_empty() { "-".to_string() } else { segs.join(";") });
                szs.push(gen_sizes(&mut rng, total));
            }
            let keys: Vec<usize> = (0..nkeys).collect();
            let args = format!("{} {} {} {}", nkeys + 1, list_arg(&keys), szs.join("/"), tabs.join(" "));
            out.push(format!("join lf {}", args));
            out.push(format!("join lf.c {}", args));
            *dist.entry(format!("lf in{} k{}", k, nkeys)).or_default() += 1;
        } else {
            let jt = *rng.pick(&["inner", "left", "cross"]);
            let (l, r) = *rng.pick(&[(2049usize, 2usize), (2, 2049), (50, 50), (2048, 1), (1, 2048), (2047, 3), (3, 1000), (2049, 1)]);
            let lt = format!("I1,#*{};N,#;I2,#*3", l);
            let rt = format!("I3,#;I1,#*{};N,#", r);
            let cond = if jt == "cross" { "x" } else { "e0.0" };
            let args = format!("{} 2 2 {} {} {} {} {}", jt, cond, big_sizes(&mut rng), big_sizes(&mut rng), lt, rt);
            out.push(format!("join nl {}", args));
            out.push(format!("join nl.c {}", args));
            *dist.entry(format!("nl-big {}", jt)).or_default() += 1;
        }
    }
    if stats {
        for (k, v) in &dist {
            eprintln!("join-gen {:<24} {}", k, v);
        }
    }
}

const BOUNDARY: &[&str] = &[
    "join hash inner 2 2 0 0 c: c: - -",
    "join hash.c inner 2 2 0 0 c: c: - -",
    "join hash inner 2 2 0 0 c: c: I1,# -",
    "join hash inner 2 2 0 0 c: c: - I1,#",
    "join hash.c inner 2 2 0 0 c:0,1,0 c:0,0 I1,#;I2,#;I1,# I1,#;I1,#;I3,#",
    "join hash inner 2 2 0 0 c: c: N,#;I1,# N,#;I1,#",
    "join hash left 2 2 0 0 c: c: N,#;I1,# N,#;I1,#",
    "join hash left 2 2 0 0 c: c: N,#;I1,# -",
    "join hash.c left 2 2 0 0 c: c:0 N,#;I1,# -",
    "join hash full 2 2 0 0 c:1 c:1 N,#;I1,#;I5,# N,#;I1,#;I7,#",
    "join hash right 2 2 0 0 c:1 c:1 N,#;I1,#;I5,# N,#;I1,#;I7,#",
    "join hash semi 2 2 0 0 c:1 c:1 N,#;I1,#;I5,# N,#;I1,#*2;I7,#",
    "join hash anti 2 2 0 0 c:1 c:1 N,#;I1,#;I5,# N,#;I1,#*2;I7,#",
    "join hash cross 2 2 - - c:1 c:1 N,#;I1,#;I5,# N,#;I1,#",
    "join hash inner 3 3 0,1 0,1 c: c: N,I1,#;I1,I1,# N,I1,#;I1,I1,#",
    "join hash inner 2 2 0 0 c: c: I1,# F3ff0000000000000,#",
    "join hash inner 2 2 0 0 c: c: I1,# F0000000000000001,#",
    "join hash inner 2 2 0 0 c: c: F7ff8000000000000,# F7ff8000000000000,#",
    "join hash inner 2 2 0 0 c: c: F0000000000000000,# F8000000000000000,#",
    "join hash inner 2 2 7 7 c: c: I1,# I1,#",
    "join hash inner 2 2 7 7 c: c: - -",
    "join hash.c inner 2 2 0 0 c:2048 c: I1,#*2049 I1,#*2",
    "join hash.c inner 2 2 0 0 c: c: I1,#*2 I1,#*1024",
    "join hash.c semi 2 2 0 0 c: c: I1,#*2049 I1,#*2",
    "join hash.c left 2 2 0 0 c: c: I9,#*2049 I1,#*2",
    "join hash.c full 2 2 0 0 c: c:2047 I9,#*3 I1,#*2049",
    "join nl inner 2 2 e0.0 c: c: N,#;I1,# N,#;I1,#",
    "join nl left 2 2 e0.0 c: c: I1,#;I2,# -",
    "join nl.c left 2 2 e0.0 c: c:0 I1,#;I2,# -",
    "join nl cross 2 2 x c:1 c:1 I1,#;I2,# I5,#;I6,#",
    "join nl inner 2 2 e0.0 c: c: F7ff8000000000000,#;F0000000000000000,# F7ff8000000000000,#;F8000000000000000,#",
    "join nl.c inner 2 2 e0.0 c: c: I1,#*2 I1,#*1024",
    "join nl.c left 2 2 e0.0 c: c: I9,#*2049;I1,# I1,#*2",
    "join nl anti 2 2 e0.0 c: c: I1,#;I2,# -",
    // output larger than 2048 rows, the operator resumes in the middle of a left row
    "join nl cross 2 2 x c: c: I1,#*50 I1,#*50",
    "join nl.c cross 2 2 x c: c: I1,#*50 I1,#*50",
    "join nl.c cross 2 2 x c:7,7 c:20,20 I1,#*50 I1,#*50",
    "join nl inner 2 2 e0.0 c: c: I1,#*3 I1,#*1000",
    "join nl.c inner 2 2 e0.0 c: c:999 I1,#*3 I1,#*1000",
    "join nl.c left 2 2 e0.0 c:1 c: I1,#*3;I4,# I1,#*1000;I5,#",
    "join nl inner 2 2 e0.0 c: c: I1,#*2049 I1,#",
    "join nl.c inner 2 2 e0.0 c:2048 c: I1,#*2049 I1,#",
    "join nl.c cross 2 2 x c: c: I1,#*2049 I1,#*2",
    "join nl.c inner 2 2 e0.0 c: c: I1,#*2 I1,#*2049",
    "join lf 2 0 c:/c: I1,#;I2,#;I3,# I2,#;I3,#;I4,#",
    "join lf.c 2 0 c:1/c:0,1 I2,#*2;I1,#;N,# I2,#*3;I9,#;N,#",
    "join lf 2 0 c:/c:/c: I1,#;I2,# I2,#;I1,# I2,#;I5,#",
    "join lf 3 0,1 c:/c: I1,I1,#;I1,I2,# I1,I1,#;I1,I3,#",
    "join lf.c 3 0,1 c:/c: I1,I7,#;I1,I2,#;I1,I7,# I1,I1,#",
    "join lf 4 0,1,2 c:/c: I1,I1,I1,# I1,I1,I1,#",
    "join lf 2 0 c:/c: I-1,#;I1,# I1,#;I-1,#",
    "join lf.c 2 0 c:/c: I1,#*50 I1,#*50",
    "join lf 2 - c:/c: I1,# I1,#",
    "join lf 2 0 c:/c: - I1,#",
    "join nl semi 2 2 e0.0 c: c: I1,#;I2,# I1,#*2",
];
