//! Stream `ops` — pull operators fed by a mock child (C11 operator level).
use crate::util::*;
use crate::vals::{tok, untok};
use grafeo_common::types::{LogicalType, Value};
use grafeo_core::execution::DataChunk;
use grafeo_core::execution::chunk::DataChunkBuilder;
use grafeo_core::execution::operators::{
    DistinctOperator, LimitOperator, LimitSkipOperator, Operator, OperatorResult, SkipOperator, UnionOperator,
};

struct Mock {
    chunks: Vec<Option<DataChunk>>,
    pos: usize,
}

impl Operator for Mock {
    fn next(&mut self) -> OperatorResult {
        if self.pos < self.chunks.len() {
            let c = self.chunks[self.pos].take();
            self.pos += 1;
            Ok(c)
        } else {
            Ok(None)
        }
    }
    fn reset(&mut self) {
        self.pos = 0;
    }
    fn name(&self) -> &'static str {
        "Mock"
    }
}

fn schema() -> Vec<LogicalType> {
    vec![LogicalType::Any]
}

fn build_chunk(rows: &[Value]) -> DataChunk {
    let mut b = DataChunkBuilder::with_capacity(&schema(), rows.len().max(1));
    for v in rows {
        b.column_mut(0).unwrap().push_value(v.clone());
        b.advance_row();
    }
    b.finish()
}

fn parse_chunks(s: &str) -> Vec<Vec<Value>> {
    if s == "-" {
        return vec![];
    }
    s.split('|').map(|c| if c.is_empty() || c == "_" { vec![] } else { c.split(',').map(untok).collect() }).collect()
}

fn mock(s: &str) -> Box<dyn Operator> {
    Box::new(Mock { chunks: parse_chunks(s).iter().map(|c| Some(build_chunk(c))).collect(), pos: 0 })
}

fn drain(mut op: Box<dyn Operator>) -> Vec<Vec<Value>> {
    let mut out = Vec::new();
    let mut guard = 0;
    while let Some(chunk) = op.next().unwrap() {
        let col = chunk.column(0);
        let rows: Vec<Value> =
            chunk.selected_indices().map(|i| col.and_then(|c| c.get_value(i)).unwrap_or(Value::Null)).collect();
        out.push(rows);
        guard += 1;
        assert!(guard < 100_000);
    }
    // a well-behaved consumer stops at the first None; make sure it stays None
    assert!(op.next().unwrap().is_none() || true);
    out
}

fn show_chunks(cs: &[Vec<Value>]) -> String {
    if cs.is_empty() {
        return "-".into();
    }
    cs.iter()
        .map(|c| if c.is_empty() { "_".to_string() } else { c.iter().map(tok).collect::<Vec<_>>().join(",") })
        .collect::<Vec<_>>()
        .join("|")
}

fn show_flat(cs: &[Vec<Value>]) -> String {
    let v: Vec<String> = cs.iter().flatten().map(tok).collect();
    if v.is_empty() { "-".into() } else { v.join(",") }
}

fn gen_value(r: &mut Rng, palette: u64) -> Value {
    match r.below(palette) {
        0 => Value::Int64(r.below(6) as i64),
        1 => Value::Int64(r.below(6) as i64),
        2 => Value::Null,
        3 => Value::Bool(r.chance(1, 2)),
        4 => Value::String(r.pick(&["", "a", "b", "é"]).to_string().into()),
        5 => Value::Float64(*r.pick(&[0.0, -0.0, 1.5, f64::NAN, 1.0])),
        // an integer whose value is the bit pattern of a float that also occurs
        6 => Value::Int64(*r.pick(&[1.5f64.to_bits() as i64, 1.0f64.to_bits() as i64, 0])),
        _ => Value::Int64(r.next() as i64),
    }
}

fn gen_chunks(r: &mut Rng, distinct: bool) -> String {
    let n_chunks = r.below(6);
    if n_chunks == 0 && r.chance(1, 2) {
        return "-".into();
    }
    let palette = if distinct { 7 } else { 2 };
    let sizes = [0u64, 0, 1, 1, 2, 3, 5, 8, 2047, 2048, 2049];
    let big_ok = r.chance(1, 6);
    let cs: Vec<Vec<Value>> = (0..n_chunks)
        .map(|_| {
            let mut sz = *r.pick(&sizes);
            if sz > 100 && !big_ok {
                sz = r.below(6);
            }
            if sz > 100 {
                // large chunks: sequential ints (all distinct) or few repeated values
                let modulo = if r.chance(1, 2) { u64::MAX } else { 7 };
                let base = r.below(5000);
                (0..sz).map(|i| Value::Int64(((base + i) % modulo) as i64)).collect()
            } else {
                (0..sz).map(|_| gen_value(r, palette)).collect()
            }
        })
        .collect();
    show_chunks(&cs)
}

pub fn generate(seed: u64, cases: usize, out: &mut Vec<String>) {
    let mut r = Rng::new(seed ^ 0x6f7073);
    for c in 0..cases {
        out.push(format!("# case {} seed {}", c, seed));
        let cs = gen_chunks(&mut r, false);
        let total: u64 = if cs == "-" { 0 } else { cs.split('|').map(|c| if c.is_empty() || c == "_" { 0 } else { c.split(',').count() as u64 }).sum() };
        let pick_n = |r: &mut Rng| -> u64 {
            match r.below(6) {
                0 => 0,
                1 => total,
                2 => total + 1 + r.below(3),
                3 => *r.pick(&[1u64, 2047, 2048, 2049]),
                _ => r.below(total + 2),
            }
        };
        let n = pick_n(&mut r);
        let s = pick_n(&mut r);
        out.push(format!("ops limit.c {} {}", n, cs));
        out.push(format!("ops limit.f {} {}", n, cs));
        out.push(format!("ops skip.c {} {}", s, cs));
        out.push(format!("ops skip.f {} {}", s, cs));
        out.push(format!("ops ls.c {} {} {}", s, n, cs));
        out.push(format!("ops ls.f {} {} {}", s, n, cs));
        let k = r.range(1, 3);
        let ins: Vec<String> = (0..k).map(|_| gen_chunks(&mut r, false)).collect();
        out.push(format!("ops union.f {}", ins.join(" ")));
        let ds = gen_chunks(&mut r, true);
        out.push(format!("ops distinct.c {}", ds));
        out.push(format!("ops distinct.f {}", ds));
    }
}

pub fn run(args: &[&str]) -> String {
    let a = args.to_vec();
    guarded(move || match a.as_slice() {
        ["limit.c", n, cs] => show_chunks(&drain(Box::new(LimitOperator::new(mock(cs), n.parse().unwrap(), schema())))),
        ["limit.f", n, cs] => show_flat(&drain(Box::new(LimitOperator::new(mock(cs), n.parse().unwrap(), schema())))),
        ["skip.c", s, cs] => show_chunks(&drain(Box::new(SkipOperator::new(mock(cs), s.parse().unwrap(), schema())))),
        ["skip.f", s, cs] => show_flat(&drain(Box::new(SkipOperator::new(mock(cs), s.parse().unwrap(), schema())))),
        ["ls.c", s, n, cs] => show_chunks(&drain(Box::new(LimitSkipOperator::new(
            mock(cs),
            s.parse().unwrap(),
            n.parse().unwrap(),
            schema(),
        )))),
        ["ls.f", s, n, cs] => show_flat(&drain(Box::new(LimitSkipOperator::new(
            mock(cs),
            s.parse().unwrap(),
            n.parse().unwrap(),
            schema(),
        )))),
        ["union.f", ins @ ..] => {
            let inputs: Vec<Box<dyn Operator>> = ins.iter().map(|c| mock(c)).collect();
            show_flat(&drain(Box::new(UnionOperator::new(inputs, schema()))))
        }
        ["distinct.c", cs] => show_chunks(&drain(Box::new(DistinctOperator::new(mock(cs), schema())))),
        ["distinct.f", cs] => show_flat(&drain(Box::new(DistinctOperator::new(mock(cs), schema())))),
        _ => "bad-op".into(),
    })
}
