//! `vh` — correspondence harness for the GrafeoDB/grafeo verification machinery.
//!
//!   vh gen <stream> --seed S --cases N      → op lines on stdout
//!   vh run                                   → reads op lines on stdin, executes each against
//!                                              the real implementation, one output line per op
mod algo;
mod c15;
mod exec;
mod hnsw;
mod lex;
mod plan;
mod conc;
mod mem;
mod zm;
mod sparql;
mod push;
mod ser;
mod qa;
mod c15b;
mod lpg;
mod ops;
mod ops2;
mod opt;
mod pers;
mod q;
mod rdf;
mod sched;
mod sess;
mod tx;
mod util;
mod val;
mod vals;
mod wal;
mod sptx;
mod join;
mod epo;
use epo::graph; // shim: `crate::graph::lpg` for the #[path]-included epoch_store.rs (stream epo)
mod par;
mod jo;
mod conc2;
mod hcon;
mod alg2;
mod lex2;
mod fact;
mod idx;

use std::io::{BufRead, Write};

fn arg_val(args: &[String], name: &str, default: u64) -> u64 {
    args.iter()
        .position(|a| a == name)
        .and_then(|i| args.get(i + 1))
        .and_then(|v| v.parse().ok())
        .unwrap_or(default)
}

fn main() {
    let args: Vec<String> = std::env::args().collect();
    if args.len() < 2 {
        eprintln!("usage: vh gen <stream> --seed S --cases N | vh run");
        std::process::exit(2);
    }
    util::quiet_panics();
    match args[1].as_str() {
        "gen" => {
            let stream = args.get(2).map(|s| s.as_str()).unwrap_or("");
            let seed = arg_val(&args, "--seed", 1);
            let cases = arg_val(&args, "--cases", 100) as usize;
            let mut out = Vec::new();
            match stream {
                "c15" => c15::generate(seed, cases, &mut out),
                "tx" => tx::generate(seed, cases, &mut out),
                "rdf" => rdf::generate(seed, cases, &mut out),
                "ops" => ops::generate(seed, cases, &mut out),
                "ops2" => ops2::generate(seed, cases, &mut out),
                "val" => val::generate(seed, cases, &mut out),
                "exec" => exec::generate(seed, cases, &mut out),
                "lpg" => lpg::generate(seed, cases, &mut out),
                "sess" => sess::generate(seed, cases, &mut out),
                "algo" => algo::generate(seed, cases, &mut out),
                "pers" => pers::generate(seed, cases, &mut out),
                "lex" => lex::generate(seed, cases, &mut out),
                "plan" => plan::generate(seed, cases, &mut out),
                "conc" => conc::generate(seed, cases, &mut out),
                "mem" => mem::generate(seed, cases, &mut out),
                "zm" => zm::generate(seed, cases, &mut out),
                "sparql" => sparql::generate(seed, cases, &mut out),
                "push" => push::generate(seed, cases, &mut out),
                "ser" => ser::generate(seed, cases, &mut out),
                "qa" => qa::generate(seed, cases, &mut out),
                "c15b" => c15b::generate(seed, cases, &mut out),
                "q" => q::generate(seed, cases, &mut out),
                "opt" => opt::generate(seed, cases, &mut out),
                "hnsw" => hnsw::generate(seed, cases, &mut out),
                "sptx" => sptx::generate(seed, cases, &mut out),
                "join" => join::generate(seed, cases, &mut out),
                "epo" => epo::generate(seed, cases, &mut out),
                "par" => par::generate(seed, cases, &mut out),
                "jo" => jo::generate(seed, cases, &mut out),
                "conc2" => conc2::generate(seed, cases, &mut out),
                "hcon" => hcon::generate(seed, cases, &mut out),
                "alg2" => alg2::generate(seed, cases, &mut out),
                "lex2" => lex2::generate(seed, cases, &mut out),
                "fact" => fact::generate(seed, cases, &mut out),
                "idx" => idx::generate(seed, cases, &mut out),
                "wal" => wal::generate(seed, cases, args.iter().any(|a| a == "--thorough"), &mut out),
                _ => {
                    eprintln!("unknown stream {stream}");
                    std::process::exit(2);
                }
            }
            let stdout = std::io::stdout();
            let mut w = std::io::BufWriter::new(stdout.lock());
            for l in out {
                writeln!(w, "{}", l).unwrap();
            }
        }
        "try" => {
            // debugging aid: vh try <gql|cypher> <query text...>
            let db = if std::env::var("VH_FLAT").is_ok() {
                grafeo_engine::database::GrafeoDB::with_config(grafeo_engine::config::Config::in_memory().without_factorized_execution()).unwrap()
            } else {
                grafeo_engine::database::GrafeoDB::new_in_memory()
            };
            let a = db.create_node(&["L0"]);
            let b = db.create_node(&["L1"]);
            db.set_node_property(a, "k0", grafeo_common::types::Value::Int64(1));
            db.set_node_property(b, "k0", grafeo_common::types::Value::Int64(2));
            db.create_edge(a, b, "T0");
            let text = args[3..].join(" ");
            let s = db.session();
            let r = if args[2] == "gql" { s.execute(&text) } else { s.execute_cypher(&text) };
            match r {
                Ok(r) => {
                    println!("OK {:?} {:?}", r.columns, r.rows);
                    if std::env::var("VH_AFTER").is_ok() {
                        println!("AFTER nodes={} edges={}", db.node_count(), db.edge_count());
                    }
                }
                Err(e) => println!("ERR {}", e.to_string().lines().next().unwrap_or("")),
            }
        }
        "run" => {
            let stdin = std::io::stdin();
            let stdout = std::io::stdout();
            let mut w = std::io::BufWriter::new(stdout.lock());
            let mut txst = tx::TxState_::new();
            let mut rdfst = rdf::RdfSt::new();
            let mut lpgst = lpg::LpgSt::new();
            let mut sessst = sess::SessSt::new();
            let mut persst = pers::PersSt::new();
            let mut zmst = zm::ZmSt::new();
            for line in stdin.lock().lines() {
                let line = line.unwrap();
                if line.starts_with('#') {
                    writeln!(w, "{}", line).unwrap();
                    if line.starts_with("# case") {
                        txst = tx::TxState_::new();
                        rdfst = rdf::RdfSt::new();
                        lpgst = lpg::LpgSt::new();
                        sessst = sess::SessSt::new();
                        persst = pers::PersSt::new();
                        zmst = zm::ZmSt::new();
                    }
                    continue;
                }
                let toks: Vec<&str> = line.split_whitespace().collect();
                let res = match toks.first().copied() {
                    Some("c15") => c15::run(&toks[1..]),
                    Some("tx") => tx::run(&mut txst, &toks[1..]),
                    Some("rdf") => rdf::run(&mut rdfst, &toks[1..]),
                    Some("wal") => wal::run(&toks[1..]),
                    Some("ops") => ops::run(&toks[1..]),
                    Some("ops2") => ops2::run(&toks[1..]),
                    Some("val") => val::run(&toks[1..]),
                    Some("exec") => exec::run(&toks[1..]),
                    Some("lpg") => lpg::run(&mut lpgst, &toks[1..]),
                    Some("sess") => sess::run(&mut sessst, &toks[1..]),
                    Some("algo") => algo::run(&toks[1..]),
                    Some("lex") => lex::run(&toks[1..]),
                    Some("plan") => plan::run(&toks[1..]),
                    Some("conc") => conc::run(&toks[1..]),
                    Some("mem") => mem::run(&toks[1..]),
                    Some("q") => q::run(&toks[1..]),
                    Some("opt") => opt::run(&toks[1..]),
                    Some("pers") => pers::run(&mut persst, &toks[1..]),
                    Some("zm") => zm::run(&mut zmst, &toks[1..]),
                    Some("sparql") => sparql::run(&toks[1..]),
                    Some("push") => push::run(&toks[1..]),
                    Some("ser") => ser::run(&toks[1..]),
                    Some("qa") => qa::run(&toks[1..]),
                    Some("c15b") => c15b::run(&toks[1..]),
                    Some("hnsw") => hnsw::run(&toks[1..]),
                    Some("sptx") => sptx::run(&toks[1..]),
                    Some("join") => join::run(&toks[1..]),
                    Some("epo") => epo::run(&toks[1..]),
                    Some("par") => par::run(&toks[1..]),
                    Some("jo") => jo::run(&toks[1..]),
                    Some("conc2") => conc2::run(&toks[1..]),
                    Some("hcon") => hcon::run(&toks[1..]),
                    Some("alg2") => alg2::run(&toks[1..]),
                    Some("lex2") => lex2::run(&toks[1..]),
                    Some("fact") => fact::run(&toks[1..]),
                    Some("idx") => idx::run(&toks[1..]),
                    _ => "bad-op".to_string(),
                };
                writeln!(w, "{}", res).unwrap();
            }
        }
        _ => {
            eprintln!("unknown command");
            std::process::exit(2);
        }
    }
}
