//! Stream `jo` — the join-order search of the optimizer (C09): `optimizer/join_order.rs` (JoinGraph,
//! BitSet, DPccp::optimize / enumerate_ccp / is_connected / get_conditions / build_join_plan, the
//! 16-relation cap) and the way `optimizer/mod.rs` extracts a join graph from a plan and puts the
//! chosen tree back (`reorder_joins`, `extract_join_tree`, `collect_join_tree`, `optimize_join_order`).
//!
//! Every op line is self-contained:
//!
//!   jo order <n> <edges> <cards>          DPccp called directly on a JoinGraphBuilder input: relation i is
//!                                         `NodeScan r<i>:R<i>` with TableStats row count cards[i]; edge k =
//!                                         `f:t` is the condition `r<f>.c<k> = r<t>.c<k>` (left expression on
//!                                         f). Answer: the chosen tree, `none` when DPccp declines.
//!   jo valid <n> <edges> <cards>          same call; answer: the validity verdict of the chosen tree
//!                                         (`ok` | `kept` | problems joined by `+`)
//!   jo opt <n> <edges> <cards>            the left-deep plan ((r0 ⋈ r1) ⋈ r2) … with every condition at the
//!                                         first join that has both its relations, through
//!                                         `Optimizer::optimize` (join reordering only); answer: the tree after
//!   jo check <n> <edges> <cards> <tree…>  any statistics, any size: the real tree is in the line (computed at
//!                                         generation time); answer: `changed:…` if DPccp answers differently
//!                                         now, else the verdict of that tree
//!   jo rows <n> <edges> <cards> <members> the left-deep plan under `Return r0..r<n-1>` executed by the real
//!                                         planner + executor without and with join reordering over a store
//!                                         in which node j carries label R<i> iff j ∈ members[i]; conditions
//!                                         are `r<f> = r<t>` (the only kind the planner's hash join keys on);
//!                                         answer `<rows without>/<rows with>/<eq|ne>` (row multisets)
//!
//! tree     = `<i>` | `( <tree> <tree> <conds> )`       conds = `-` | `k:l>r{,k:l>r}` (condition k, relation
//!            of its left expression, relation of its right expression)
//! edges    = `-` | `f:t{,f:t}`      cards = `c{,c}`      members = `ids{,ids}`, ids = `-` | `j{.j}`
#![allow(unused)]
use crate::util::*;
use grafeo_engine::query::optimizer::{CardinalityEstimator, CostModel, DPccp, JoinGraphBuilder, TableStats};
use grafeo_engine::query::plan::*;
use grafeo_engine::query::{Executor, Optimizer, Planner};
use grafeo_engine::transaction::TransactionManager;
use std::sync::Arc;

// ------------------------------------------------------------------ arguments

struct Args {
    n: usize,
    edges: Vec<(usize, usize)>,
    cards: Vec<u64>,
}

fn parse_edges(s: &str) -> Option<Vec<(usize, usize)>> {
    if s == "-" {
        return Some(vec![]);
    }
    s.split(',')
        .map(|e| {
            let (a, b) = e.split_once(':')?;
            Some((a.parse().ok()?, b.parse().ok()?))
        })
        .collect()
}

fn parse_args(n: &str, edges: &str, cards: &str) -> Option<Args> {
    let n: usize = n.parse().ok()?;
    let edges = parse_edges(edges)?;
    let cards = parse_u64s(cards)?;
    if n > 64 || cards.len() != n || edges.iter().any(|&(f, t)| f >= n || t >= n) {
        return None;
    }
    Some(Args { n, edges, cards })
}

fn edges_arg(es: &[(usize, usize)]) -> String {
    if es.is_empty() { "-".into() } else { es.iter().map(|(f, t)| format!("{}:{}", f, t)).collect::<Vec<_>>().join(",") }
}

// ------------------------------------------------------------------ plans

fn scan(i: usize) -> LogicalOperator {
    LogicalOperator::NodeScan(NodeScanOp { variable: format!("r{}", i), label: Some(format!("R{}", i)), input: None })
}

fn side(i: usize, k: usize, by_var: bool) -> LogicalExpression {
    if by_var { LogicalExpression::Variable(format!("r{}", i)) } else { LogicalExpression::Property { variable: format!("r{}", i), property: format!("c{}", k) } }
}

fn estimator(cards: &[u64]) -> CardinalityEstimator {
    let mut e = CardinalityEstimator::new();
    for (i, c) in cards.iter().enumerate() {
        e.add_table_stats(&format!("R{}", i), TableStats::new(*c));
    }
    e
}

/// ((r0 ⋈ r1) ⋈ r2) …: condition k = (f, t) sits at the join that adds relation max(f, t, 1)
fn left_deep(a: &Args, by_var: bool) -> LogicalOperator {
    let mut op = scan(0);
    for lvl in 1..a.n {
        let conditions: Vec<JoinCondition> = a
            .edges
            .iter()
            .enumerate()
            .filter(|(_, (f, t))| (*f).max(*t).max(1) == lvl)
            .map(|(k, (f, t))| JoinCondition { left: side(*f, k, by_var), right: side(*t, k, by_var) })
            .collect();
        let join_type = if conditions.is_empty() { JoinType::Cross } else { JoinType::Inner };
        op = LogicalOperator::Join(JoinOp { left: Box::new(op), right: Box::new(scan(lvl)), join_type, conditions });
    }
    op
}

fn rel_of(v: &str) -> String {
    v.strip_prefix('r').unwrap_or("?").to_string()
}

fn ser_side(e: &LogicalExpression) -> (String, String) {
    match e {
        LogicalExpression::Property { variable, property } => (rel_of(variable), property.strip_prefix('c').unwrap_or("?").to_string()),
        LogicalExpression::Variable(v) => (rel_of(v), "v".into()),
        _ => ("?".into(), "?".into()),
    }
}

fn ser_tree(op: &LogicalOperator) -> String {
    match op {
        LogicalOperator::NodeScan(s) => rel_of(&s.variable),
        LogicalOperator::Join(j) => {
            let cs: Vec<String> = j
                .conditions
                .iter()
                .map(|c| {
                    let ((l, k), (r, k2)) = (ser_side(&c.left), ser_side(&c.right));
                    format!("{}:{}>{}", if k == k2 { k } else { "?".into() }, l, r)
                })
                .collect();
            format!("( {} {} {} )", ser_tree(&j.left), ser_tree(&j.right), if cs.is_empty() { "-".into() } else { cs.join(",") })
        }
        LogicalOperator::Return(r) => ser_tree(&r.input),
        _ => "?".into(),
    }
}

// ------------------------------------------------------------------ an independent validity verdict

#[derive(Default)]
struct Verdict {
    leaves: Vec<usize>,
    seen: Vec<usize>,
    uncovered: Vec<usize>,
    flipped: Vec<usize>,
    bad: bool,
}

fn walk(op: &LogicalOperator, v: &mut Verdict) -> Vec<usize> {
    match op {
        LogicalOperator::NodeScan(s) => match rel_of(&s.variable).parse::<usize>() {
            Ok(i) => {
                v.leaves.push(i);
                vec![i]
            }
            Err(_) => {
                v.bad = true;
                vec![]
            }
        },
        LogicalOperator::Join(j) => {
            let l = walk(&j.left, v);
            let r = walk(&j.right, v);
            for c in &j.conditions {
                let ((lv, k), (rv, _)) = (ser_side(&c.left), ser_side(&c.right));
                let (Ok(lv), Ok(rv), Ok(k)) = (lv.parse::<usize>(), rv.parse::<usize>(), k.parse::<usize>()) else {
                    v.bad = true;
                    continue;
                };
                v.seen.push(k);
                if l.contains(&lv) && r.contains(&rv) {
                } else if l.contains(&rv) && r.contains(&lv) {
                    v.flipped.push(k);
                } else {
                    v.uncovered.push(k);
                }
            }
            let mut all = l;
            all.extend(r);
            all
        }
        _ => {
            v.bad = true;
            vec![]
        }
    }
}

fn verdict(a: &Args, op: &LogicalOperator) -> String {
    let mut v = Verdict::default();
    walk(op, &mut v);
    let mut out: Vec<String> = vec![];
    if v.bad {
        out.push("shape".into());
    }
    let mut ls = v.leaves.clone();
    ls.sort();
    if ls != (0..a.n).collect::<Vec<_>>() {
        out.push("leaves".into());
    }
    // a condition over one relation connects nothing: DPccp never hands it to a join, and the optimizer
    // never gives it one (`collect_join_tree` refuses such a tree)
    let missing: Vec<usize> = (0..a.edges.len()).filter(|k| !v.seen.contains(k) && a.edges[*k].0 != a.edges[*k].1).collect();
    let dup: Vec<usize> = (0..a.edges.len()).filter(|k| v.seen.iter().filter(|x| *x == k).count() > 1).collect();
    // (a condition whose left expression is over the right input is fine: `plan_join` resolves either way)
    for (name, xs) in [("missing", &missing), ("dup", &dup), ("uncovered", &v.uncovered)] {
        if !xs.is_empty() {
            let mut s = (*xs).clone();
            s.sort();
            out.push(format!("{}:{}", name, join(&s)));
        }
    }
    if out.is_empty() { "ok".into() } else { out.join("+") }
}

// ------------------------------------------------------------------ the real calls

fn dpccp(a: &Args) -> Option<LogicalOperator> {
    let mut b = JoinGraphBuilder::new();
    for i in 0..a.n {
        b.add_relation(&format!("r{}", i), scan(i));
    }
    for (k, (f, t)) in a.edges.iter().enumerate() {
        b.add_join_condition(&format!("r{}", f), &format!("r{}", t), side(*f, k, false), side(*t, k, false));
    }
    let graph = b.build();
    let cm = CostModel::new();
    let ce = estimator(&a.cards);
    let mut dp = DPccp::new(&graph, &cm, &ce);
    dp.optimize().map(|p| p.operator)
}

fn optimizer(a: &Args, reorder: bool) -> Optimizer {
    Optimizer::new().with_cardinality_estimator(estimator(&a.cards)).with_filter_pushdown(false).with_join_reorder(reorder).with_projection_pushdown(false)
}

fn parse_members(s: &str, n: usize) -> Option<Vec<Vec<u64>>> {
    let ms: Option<Vec<Vec<u64>>> = s.split(',').map(|m| if m == "-" { Some(vec![]) } else { m.split('.').map(|x| x.parse().ok()).collect() }).collect();
    let ms = ms?;
    if ms.len() != n || ms.iter().flatten().any(|&j| j > 63) {
        return None;
    }
    Some(ms)
}

fn execute(a: &Args, members: &[Vec<u64>], reorder: bool) -> Result<Vec<String>, String> {
    let store = Arc::new(grafeo_core::graph::lpg::LpgStore::new());
    let m = members.iter().flatten().max().map_or(0, |x| x + 1);
    for j in 0..m {
        let labels: Vec<String> = (0..a.n).filter(|&i| members[i].contains(&j)).map(|i| format!("R{}", i)).collect();
        let refs: Vec<&str> = labels.iter().map(|s| s.as_str()).collect();
        let id = store.create_node(&refs);
        assert_eq!(id.as_u64(), j);
    }
    let items = (0..a.n).map(|i| ReturnItem { expression: LogicalExpression::Variable(format!("r{}", i)), alias: None }).collect();
    let root = LogicalOperator::Return(ReturnOp { items, distinct: false, input: Box::new(left_deep(a, true)) });
    let plan = optimizer(a, reorder).optimize(LogicalPlan::new(root)).map_err(|_| "error:optimize".to_string())?;
    let txm = Arc::new(TransactionManager::new());
    let epoch = txm.current_epoch();
    let planner = Planner::with_context(Arc::clone(&store), txm, None, epoch).with_factorized_execution(false);
    let mut phys = planner.plan(&plan).map_err(|_| "error:plan".to_string())?;
    let executor = Executor::with_columns(phys.columns.clone());
    let r = executor.execute(phys.operator.as_mut()).map_err(|_| "error:execute".to_string())?;
    let mut rs: Vec<String> = r.rows.iter().map(|row| row.iter().map(crate::vals::tok).collect::<Vec<_>>().join("|")).collect();
    rs.sort();
    Ok(rs)
}

pub fn run(toks: &[&str]) -> String {
    let a: Vec<String> = toks.iter().map(|s| s.to_string()).collect();
    guarded(move || {
        let t: Vec<&str> = a.iter().map(|s| s.as_str()).collect();
        match t.as_slice() {
            ["order", n, e, c] => match parse_args(n, e, c) {
                Some(a) => dpccp(&a).map_or("none".into(), |op| ser_tree(&op)),
                None => "bad-op".into(),
            },
            ["valid", n, e, c] => match parse_args(n, e, c) {
                Some(a) => dpccp(&a).map_or("kept".into(), |op| verdict(&a, &op)),
                None => "bad-op".into(),
            },
            ["check", n, e, c, rest @ ..] => match parse_args(n, e, c) {
                Some(a) => {
                    let now = dpccp(&a);
                    let s = now.as_ref().map_or("none".into(), ser_tree);
                    if s != rest.join(" ") {
                        format!("changed:{}", s)
                    } else {
                        now.map_or("kept".into(), |op| verdict(&a, &op))
                    }
                }
                None => "bad-op".into(),
            },
            ["opt", n, e, c] => match parse_args(n, e, c) {
                Some(a) if a.n >= 1 => match optimizer(&a, true).optimize(LogicalPlan::new(left_deep(&a, false))) {
                    Ok(p) => ser_tree(&p.root),
                    Err(_) => "error:optimize".into(),
                },
                _ => "bad-op".into(),
            },
            ["rows", n, e, c, m] => match parse_args(n, e, c) {
                Some(a) if a.n >= 1 && a.n <= 6 => {
                    let Some(ms) = parse_members(m, a.n) else { return "bad-op".into() };
                    match (execute(&a, &ms, false), execute(&a, &ms, true)) {
                        (Ok(x), Ok(y)) => format!("{}/{}/{}", x.len(), y.len(), if x == y { "eq" } else { "ne" }),
                        (Err(e), _) | (_, Err(e)) => e,
                    }
                }
                _ => "bad-op".into(),
            },
            _ => "bad-op".into(),
        }
    })
}

// ------------------------------------------------------------------ generate

/// a random join graph: `shape` 0 chain, 1 star, 2 random tree, 3 tree + one more edge, 4 two components,
/// 5 dense (any pairs, parallel edges), then optional self-edge / reversed endpoints
fn gen_edges(r: &mut Rng, n: usize, shape: u64, tame: bool) -> Vec<(usize, usize)> {
    let mut es: Vec<(usize, usize)> = vec![];
    if n < 2 {
        if !tame && n == 1 && r.chance(1, 3) {
            es.push((0, 0));
        }
        return es;
    }
    match shape {
        0 => (1..n).for_each(|i| es.push((i - 1, i))),
        1 => {
            let hub = r.below(n as u64) as usize;
            (0..n).filter(|&i| i != hub).for_each(|i| es.push((hub, i)));
        }
        2 | 3 => {
            (1..n).for_each(|i| es.push((r.below(i as u64) as usize, i)));
            if shape == 3 {
                let f = r.below(n as u64) as usize;
                let t = (f + 1 + r.below(n as u64 - 1) as usize) % n;
                es.push((f, t));
            }
        }
        4 => {
            let cut = 1 + r.below(n as u64 - 1) as usize;
            (1..n).filter(|&i| i != cut).for_each(|i| es.push((if i < cut { r.below(i as u64) as usize } else { cut + r.below((i - cut) as u64) as usize }, i)));
        }
        _ => {
            let m = r.below(2 * n as u64 + 1);
            for _ in 0..m {
                let f = r.below(n as u64) as usize;
                let t = r.below(n as u64) as usize;
                if f != t || !tame {
                    es.push((f, t));
                }
            }
        }
    }
    // orientation of every condition: either endpoint may be the left expression
    for e in es.iter_mut() {
        if r.chance(1, 2) {
            *e = (e.1, e.0);
        }
    }
    // order of the conditions
    for i in (1..es.len()).rev() {
        let j = r.below(i as u64 + 1) as usize;
        es.swap(i, j);
    }
    if !tame && r.chance(1, 8) {
        let k = r.below(n as u64) as usize;
        let at = r.below(es.len() as u64 + 1) as usize;
        es.insert(at, (k, k));
    }
    es
}

/// distinct cardinalities ≥ 50: no estimate is clamped on a graph with at most |S| conditions inside
/// any relation set S, and no two candidate trees tie except mirror images
fn tame_cards(r: &mut Rng, n: usize) -> Vec<u64> {
    let mut cs: Vec<u64> = vec![];
    while cs.len() < n {
        let c = match r.below(3) {
            0 => r.range(50, 99),
            1 => r.range(100, 2000),
            _ => r.range(2001, 90000),
        };
        if !cs.contains(&c) {
            cs.push(c);
        }
    }
    cs
}

fn wild_cards(r: &mut Rng, n: usize) -> Vec<u64> {
    let base = *r.pick(&[0u64, 1, 7, 1000, 1 << 40]);
    (0..n)
        .map(|_| match r.below(5) {
            0 => base,
            1 => r.below(3),
            2 => r.range(1, 100),
            3 => r.range(1, 1_000_000),
            _ => 1000,
        })
        .collect()
}

pub fn generate(seed: u64, cases: usize, out: &mut Vec<String>) {
    let mut r = Rng::new(seed ^ 0x6a6f_6f72);
    let stats_on = std::env::var("VH_STATS").is_ok();
    let mut dist: std::collections::BTreeMap<String, usize> = Default::default();
    // boundary lines
    for l in [
        "jo order 0 - -",
        "jo order 1 - 5",
        "jo order 2 - 5,6",
        "jo order 2 0:1 50,60",
        "jo order 2 1:0 50,60",
        "jo order 3 0:1,1:2 100,1000,10000",
        "jo order 3 0:1,0:1,1:2 70,800,9000",
        "jo valid 2 0:1 50,60",
        "jo valid 2 1:0 50,60",
        "jo valid 3 0:1,1:2,0:0 100,1000,10000",
        "jo opt 1 - 9",
        "jo opt 2 0:1 50,60",
        "jo opt 3 0:1,1:2 100,1000,10000",
        "jo opt 3 0:1 100,1000,10000",
        "jo opt 3 0:1,1:2,0:0 100,1000,10000",
        "jo rows 3 0:1,1:2,0:0 100,1000,10000 0.1,0.1,1.2",
        "jo rows 2 0:1 50,60 0.1.2,1.2.3",
        "jo rows 2 1:0 50,60 0.1.2,1.2.3",
        "jo order 17 - 1,1,1,1,1,1,1,1,1,1,1,1,1,1,1,1,1",
    ] {
        out.push(l.to_string());
    }
    for c in 0..cases {
        out.push(format!("# case {} seed {}", c, seed));
        // (1) tame statistics: the model's exact cost arithmetic decides like the f64 one
        for _ in 0..3 {
            let n = match r.below(10) {
                0 => 1,
                1 | 2 => 2,
                3 | 4 | 5 => 3,
                6 | 7 => 4,
                8 => 5,
                _ => 6,
            };
            let shape = r.below(5);
            let mut es = gen_edges(&mut r, n, shape, true);
            if n >= 2 && r.chance(1, 8) {
                // a condition over one relation: the optimizer leaves such a plan as written
                let k = r.below(n as u64) as usize;
                let at = r.below(es.len() as u64 + 1) as usize;
                es.insert(at, (k, k));
            }
            let cs = tame_cards(&mut r, n);
            *dist.entry(format!("tame n={} shape={}", n, shape)).or_default() += 1;
            let args = format!("{} {} {}", n, edges_arg(&es), join(&cs));
            out.push(format!("jo order {}", args));
            out.push(format!("jo valid {}", args));
            out.push(format!("jo opt {}", args));
            if n <= 4 {
                let m = 2 + r.below(4);
                let members: Vec<String> = (0..n)
                    .map(|_| {
                        let ids: Vec<String> = (0..m).filter(|_| r.chance(2, 3)).map(|j| j.to_string()).collect();
                        if ids.is_empty() { "-".into() } else { ids.join(".") }
                    })
                    .collect();
                out.push(format!("jo rows {} {}", args, members.join(",")));
            }
        }
        // (2) any statistics, any shape (self-conditions, parallel conditions, more than 16 relations):
        // the tree the real search returns is validated
        for _ in 0..3 {
            let n = match r.below(12) {
                0 => 0,
                1 => 1,
                2 | 3 | 4 => 2 + r.below(3) as usize,
                5 | 6 | 7 => 5 + r.below(3) as usize,
                8 => 8 + r.below(3) as usize,
                9 => 11 + r.below(2) as usize,
                10 => 16,
                _ => 17 + r.below(4) as usize,
            };
            // the search visits 2^|S| splits for every connected S: stars and bushy trees of 16 take seconds
            let shape = if n >= 13 { 0 } else if n >= 11 { r.below(3) } else { r.below(6) };
            let es = gen_edges(&mut r, n, shape, false);
            let cs = wild_cards(&mut r, n);
            let a = Args { n, edges: es.clone(), cards: cs.clone() };
            let tree = dpccp(&a).as_ref().map_or("none".into(), ser_tree);
            *dist.entry(format!("wild n={} shape={} {}", n, shape, if tree == "none" { "none" } else { "tree" })).or_default() += 1;
            out.push(format!("jo check {} {} {} {}", n, edges_arg(&es), list_arg(&cs), tree));
        }
    }
    if stats_on {
        for (k, v) in dist {
            eprintln!("jo {:40} {}", k, v);
        }
    }
}
