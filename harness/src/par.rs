//! Stream `par` — C17: partition sources (`parallel/source.rs`), rayon fold/reduce helpers
//! (`parallel/fold.rs`) and the morsel scheduler (`parallel/scheduler.rs`).
//!
//! `par src <kind> <data> <morsels> <cs>`        rows of the whole source vs rows of its partitions
//! `par src.chunks <kind> <data> <morsels> <cs>` chunk sizes of the same runs + reset check
//! `par fold <fn> <items> <threads>`             the helper inside rayon pools of the listed sizes
//! `par sched <workers> <numa> <program>`        scripted single-threaded drive of the scheduler
use crate::util::*;
use grafeo_common::types::{NodeId, Value};
use grafeo_core::execution::parallel::fold::{
    fold_reduce, fold_reduce_with, parallel_count, parallel_max, parallel_min, parallel_partition, parallel_stats,
    parallel_sum, parallel_sum_i64, parallel_try_collect,
};
use grafeo_core::execution::parallel::{
    Morsel, MorselScheduler, NumaConfig, ParallelChunkSource, ParallelNodeScanSource, ParallelSource,
    ParallelTripleScanSource, ParallelVectorSource, RangeSource, WorkerHandle,
};
use grafeo_core::execution::{DataChunk, Source, ValueVector};
use grafeo_core::graph::lpg::LpgStore;
use rayon::prelude::*;
use std::panic::{AssertUnwindSafe, catch_unwind};
use std::sync::{Arc, OnceLock};

type Row = Vec<i64>;

// ---------------------------------------------------------------------------------------------
// sources
// ---------------------------------------------------------------------------------------------

fn ints(s: &str) -> Option<Vec<i64>> {
    if s == "-" || s == "_" {
        return Some(vec![]);
    }
    s.split(',').map(|t| t.parse().ok()).collect()
}

fn vals(xs: &[i64]) -> Vec<Value> {
    xs.iter().map(|&v| Value::Int64(v)).collect()
}

/// (source, stored chunk count for the call cap of the whole source)
fn build(kind: &str, data: &str) -> Option<(Box<dyn ParallelSource>, usize)> {
    Some(match kind {
        "vec" => {
            let cols: Vec<Vec<Value>> = if data == "none" {
                vec![]
            } else {
                data.split('/').map(|c| ints(c).map(|v| vals(&v))).collect::<Option<_>>()?
            };
            (Box::new(ParallelVectorSource::new(cols)), 0)
        }
        "range" => (Box::new(RangeSource::new(data.parse().ok()?)), 0),
        "triple" => {
            let t = ints(data)?;
            let triples = t.iter().map(|&v| (Value::Int64(v), Value::Int64(v + 1), Value::Int64(v + 2))).collect();
            (Box::new(ParallelTripleScanSource::new(triples, vec!["s".into(), "p".into(), "o".into()])), 0)
        }
        "node" => {
            let t = ints(data)?;
            let ids: Vec<NodeId> = t.iter().map(|&v| NodeId::new(v as u64)).collect();
            (Box::new(ParallelNodeScanSource::from_node_ids(Arc::new(LpgStore::new()), ids)), 0)
        }
        "chunk" => {
            let chunks: Vec<DataChunk> = if data == "-" {
                vec![]
            } else {
                data.split('|')
                    .map(|c| ints(c).map(|v| DataChunk::new(vec![ValueVector::from_values(&vals(&v))])))
                    .collect::<Option<_>>()?
            };
            let n = chunks.len();
            (Box::new(ParallelChunkSource::new(chunks)), n)
        }
        _ => return None,
    })
}

fn chunk_rows(chunk: &DataChunk) -> Vec<Row> {
    let n = chunk.column_count();
    chunk
        .selected_indices()
        .map(|i| {
            (0..n)
                .map(|c| {
                    let col = chunk.column(c).unwrap();
                    match col.get_node_id(i) {
                        Some(id) => id.as_u64() as i64,
                        None => match col.get_value(i) {
                            Some(Value::Int64(v)) => v,
                            _ => i64::MIN,
                        },
                    }
                })
                .collect()
        })
        .collect()
}

#[derive(Clone, PartialEq)]
enum Drained {
    Ok(Vec<Vec<Row>>),
    Loop,
    Panic,
}

/// at most `cap` calls of `next_chunk`
fn drain(src: &mut dyn Source, cs: usize, cap: usize) -> Drained {
    let r = catch_unwind(AssertUnwindSafe(|| {
        let mut out = Vec::new();
        for _ in 0..cap {
            match src.next_chunk(cs) {
                Ok(Some(c)) => out.push(chunk_rows(&c)),
                Ok(None) => return Drained::Ok(out),
                Err(_) => return Drained::Panic,
            }
        }
        Drained::Loop
    }));
    r.unwrap_or(Drained::Panic)
}

fn show_row(r: &Row) -> String {
    r.iter().map(|v| v.to_string()).collect::<Vec<_>>().join(".")
}

fn parse_morsels(s: &str, src: &dyn ParallelSource) -> Option<Vec<Morsel>> {
    if let Some(sz) = s.strip_prefix('g') {
        return Some(src.generate_morsels(sz.parse().ok()?, 0));
    }
    if s == "-" {
        return Some(vec![]);
    }
    s.split(',')
        .enumerate()
        .map(|(i, t)| {
            let (a, b) = t.split_once('-')?;
            Some(Morsel::new(i, 0, a.parse().ok()?, b.parse().ok()?))
        })
        .collect()
}

fn run_src(chunks_view: bool, kind: &str, data: &str, morsels: &str, cs: &str) -> String {
    let Some((mut src, nchunks)) = build(kind, data) else { return "bad-op".into() };
    let Ok(cs) = cs.parse::<usize>() else { return "bad-op".into() };
    let Some(ms) = parse_morsels(morsels, src.as_ref()) else { return "bad-op".into() };
    let n0 = src.total_rows().unwrap_or(0);
    let wcap = n0 + nchunks + 2;
    let whole = drain(src.as_mut(), cs, wcap);
    let mut reset_ok = true;
    if let Drained::Ok(_) = whole {
        src.reset();
        reset_ok &= drain(src.as_mut(), cs, wcap) == whole;
    }
    let mut parts = Vec::new();
    for m in &ms {
        let mut p = src.create_partition(m);
        let d = drain(p.as_mut(), cs, m.end_row + 2);
        if let Drained::Ok(_) = d {
            p.reset();
            reset_ok &= drain(p.as_mut(), cs, m.end_row + 2) == d;
        }
        parts.push(d);
    }
    if chunks_view {
        let sizes = |d: &Drained| match d {
            Drained::Ok(cs) if cs.is_empty() => "-".to_string(),
            Drained::Ok(cs) => cs.iter().map(|c| c.len().to_string()).collect::<Vec<_>>().join(","),
            Drained::Loop => "loop".into(),
            Drained::Panic => "panic".into(),
        };
        let p = if parts.is_empty() { "-".to_string() } else { parts.iter().map(sizes).collect::<Vec<_>>().join(";") };
        format!("W={} P={} reset={}", sizes(&whole), p, if reset_ok { "ok" } else { "differs" })
    } else {
        let rows = |ds: &[Drained]| {
            let mut all: Vec<String> = Vec::new();
            for d in ds {
                match d {
                    Drained::Ok(cs) => all.extend(cs.iter().flatten().map(show_row)),
                    Drained::Loop => return "loop".to_string(),
                    Drained::Panic => return "panic".to_string(),
                }
            }
            if all.is_empty() { "-".into() } else { all.join(",") }
        };
        format!("W={} P={}", rows(std::slice::from_ref(&whole)), rows(&parts))
    }
}

// ---------------------------------------------------------------------------------------------
// fold
// ---------------------------------------------------------------------------------------------

fn pool(threads: usize) -> &'static rayon::ThreadPool {
    static POOLS: OnceLock<Vec<rayon::ThreadPool>> = OnceLock::new();
    let pools = POOLS.get_or_init(|| (0..=8).map(|t| rayon::ThreadPoolBuilder::new().num_threads(t.max(1)).build().unwrap()).collect());
    &pools[threads.min(8)]
}

/// `Ord` looks at the key only; the tag tells equal elements apart
#[derive(Clone, Copy, Debug)]
struct KV(i64, u32);
impl PartialEq for KV {
    fn eq(&self, o: &Self) -> bool {
        self.0 == o.0
    }
}
impl Eq for KV {}
impl PartialOrd for KV {
    fn partial_cmp(&self, o: &Self) -> Option<std::cmp::Ordering> {
        Some(self.cmp(o))
    }
}
impl Ord for KV {
    fn cmp(&self, o: &Self) -> std::cmp::Ordering {
        self.0.cmp(&o.0)
    }
}

fn show_f(x: f64) -> String {
    if x.is_nan() {
        "nan".into()
    } else if x == 0.0 && x.is_sign_negative() {
        "-0".into()
    } else if x.fract() == 0.0 && x.abs() < 9.0e18 {
        (x as i64).to_string()
    } else {
        format!("{:016x}", x.to_bits())
    }
}

fn show_ints(xs: &[i64]) -> String {
    if xs.is_empty() { "-".into() } else { join(xs) }
}

fn fold_once(f: &str, items: &str) -> Option<String> {
    Some(match f {
        "min" | "max" => {
            let kvs: Vec<KV> = if items == "-" {
                vec![]
            } else {
                items.split(',').map(|t| t.split_once(':').and_then(|(k, g)| Some(KV(k.parse().ok()?, g.parse().ok()?)))).collect::<Option<_>>()?
            };
            let r = if f == "min" { parallel_min(kvs.into_par_iter(), |kv| *kv) } else { parallel_max(kvs.into_par_iter(), |kv| *kv) };
            r.map_or("N".to_string(), |kv| format!("{}:{}", kv.0, kv.1))
        }
        "stats" => {
            let xs: Vec<f64> = if items == "-" {
                vec![]
            } else {
                items.split(',').map(|t| if t == "nan" { Some(f64::NAN) } else if t == "nz" { Some(-0.0) } else { t.parse::<i64>().ok().map(|v| v as f64) }).collect::<Option<_>>()?
            };
            let (c, s, mn, mx) = parallel_stats(xs.into_par_iter(), |x| *x);
            format!("{};{};{};{}", c, show_f(s), mn.map_or("N".into(), show_f), mx.map_or("N".into(), show_f))
        }
        _ => {
            let xs = ints(items)?;
            match f {
                "count" => parallel_count(xs.into_par_iter(), |x| x % 2 == 0).to_string(),
                "sum_i64" => parallel_sum_i64(xs.into_par_iter(), |x| *x).to_string(),
                "sumf" => format!("{:016x}", parallel_sum(xs.into_par_iter(), |x| *x as f64).to_bits()),
                "try" => {
                    let (ok, err) = parallel_try_collect(xs.into_par_iter(), |x| if x.rem_euclid(3) == 0 { Err(x) } else { Ok(x) });
                    format!("{}/{}", show_ints(&ok), show_ints(&err))
                }
                "part" => {
                    let m = parallel_partition(xs.into_par_iter(), |x| x.rem_euclid(4), |x| x);
                    let mut ks: Vec<_> = m.into_iter().collect();
                    ks.sort_by_key(|(k, _)| *k);
                    if ks.is_empty() { "-".into() } else { ks.iter().map(|(k, v)| format!("{}={}", k, join(v))).collect::<Vec<_>>().join(";") }
                }
                "fr" => {
                    let v: Vec<i64> = fold_reduce(xs.into_par_iter(), |mut acc: Vec<i64>, x| { acc.push(x); acc }, |mut a, b| { a.extend(b); a });
                    show_ints(&v)
                }
                "frw" => fold_reduce_with(xs.into_par_iter(), || 100i64, |a, x| a + x, |a, b| a + b - 100).to_string(),
                "frwbad" => fold_reduce_with(xs.into_par_iter(), || 100i64, |a, x| a + x, |a, b| a + b).to_string(),
                _ => return None,
            }
        }
    })
}

fn run_fold(f: &str, items: &str, threads: &str) -> String {
    let Some(ts) = parse_u64s(threads) else { return "bad-op".into() };
    if ts.is_empty() || ts.iter().any(|&t| t == 0 || t > 8) {
        return "bad-op".into();
    }
    let mut out = Vec::new();
    for t in ts {
        let r = catch_unwind(AssertUnwindSafe(|| pool(t as usize).install(|| fold_once(f, items))));
        match r {
            Ok(Some(s)) => out.push(s),
            Ok(None) => return "bad-op".into(),
            Err(_) => out.push("panic".into()),
        }
    }
    out.join("|")
}

// ---------------------------------------------------------------------------------------------
// scheduler
// ---------------------------------------------------------------------------------------------

fn run_sched(workers: &str, numa: &str, program: &str) -> String {
    let Ok(w) = workers.parse::<usize>() else { return "bad-op".into() };
    if w > 16 {
        return "bad-op".into();
    }
    let sched = if numa == "d" {
        MorselScheduler::new(w)
    } else if let Some((a, b)) = numa.strip_prefix('n').and_then(|r| r.split_once('x')) {
        let (Ok(a), Ok(b)) = (a.parse::<usize>(), b.parse::<usize>()) else { return "bad-op".into() };
        if b == 0 {
            return "bad-op".into();
        }
        MorselScheduler::with_numa_config(w, NumaConfig::with_topology(a, b))
    } else {
        return "bad-op".into();
    };
    let sched = Arc::new(sched);
    let handles: Vec<WorkerHandle> = (0..w).map(|_| WorkerHandle::new(Arc::clone(&sched))).collect();
    let mk = |id: usize| Morsel::new(id, 0, id * 10, id * 10 + 10);
    let show = |m: Option<Morsel>| m.map_or("N".to_string(), |m| m.id.to_string());
    let mut out = Vec::new();
    if program != "-" {
        for step in program.split(';') {
            let (op, arg) = step.split_at(1.min(step.len()));
            let widx = |s: &str| s.parse::<usize>().ok().filter(|&i| i < w);
            let ret = match op {
                "s" => {
                    let Ok(id) = arg.parse::<usize>() else { return "bad-op".into() };
                    sched.submit(mk(id));
                    ".".to_string()
                }
                "b" => {
                    let ids: Option<Vec<usize>> = if arg.is_empty() { Some(vec![]) } else { arg.split('.').map(|t| t.parse().ok()).collect() };
                    let Some(ids) = ids else { return "bad-op".into() };
                    sched.submit_batch(ids.into_iter().map(mk).collect());
                    ".".to_string()
                }
                "f" if arg.is_empty() => {
                    sched.finish_submission();
                    ".".to_string()
                }
                "G" if arg.is_empty() => show(sched.get_global_work()),
                "g" => {
                    let Some(i) = widx(arg) else { return "bad-op".into() };
                    show(handles[i].get_work())
                }
                "t" => {
                    // steal_work takes any id (ids ≥ number of stealers are not rejected)
                    let Ok(i) = arg.parse::<usize>() else { return "bad-op".into() };
                    if i > 64 {
                        return "bad-op".into();
                    }
                    show(sched.steal_work(i))
                }
                "p" => {
                    let Some((a, b)) = arg.split_once('.') else { return "bad-op".into() };
                    let (Some(i), Ok(id)) = (widx(a), b.parse::<usize>()) else { return "bad-op".into() };
                    handles[i].push_local(mk(id));
                    ".".to_string()
                }
                "c" => {
                    let Some(i) = widx(arg) else { return "bad-op".into() };
                    handles[i].complete_morsel();
                    ".".to_string()
                }
                _ => return "bad-op".into(),
            };
            out.push(format!("{}/{}/{}", ret, sched.active_count(), if sched.is_done() { 1 } else { 0 }));
        }
    }
    format!("{} T={} S={}", if out.is_empty() { "-".to_string() } else { out.join(",") }, sched.total_submitted(), if sched.is_submission_done() { 1 } else { 0 })
}

pub fn run(toks: &[&str]) -> String {
    guarded(|| match toks {
        ["src", kind, data, morsels, cs] => run_src(false, kind, data, morsels, cs),
        ["src.chunks", kind, data, morsels, cs] => run_src(true, kind, data, morsels, cs),
        ["fold", f, items, threads] => run_fold(f, items, threads),
        ["sched", w, numa, program] => run_sched(w, numa, program),
        _ => "bad-op".to_string(),
    })
}

// ---------------------------------------------------------------------------------------------
// generator
// ---------------------------------------------------------------------------------------------

fn gen_ints(r: &mut Rng, n: usize, span: i64) -> Vec<i64> {
    (0..n).map(|_| r.below((2 * span + 1) as u64) as i64 - span).collect()
}

fn list_or_dash(xs: &[i64]) -> String {
    if xs.is_empty() { "-".into() } else { join(xs) }
}

fn gen_n(r: &mut Rng) -> usize {
    match r.below(6) {
        0 => r.below(4) as usize,
        1 => *r.pick(&[7usize, 8, 9, 15, 16, 17, 31, 32, 33]),
        _ => r.range(1, 40) as usize,
    }
}

/// morsel token for a table of n rows; returns (token, class)
fn gen_morsels(r: &mut Rng, n: usize) -> (String, &'static str) {
    match r.below(10) {
        0..=3 => {
            let size = match r.below(6) {
                0 => r.below(3) as usize,
                1 => n.saturating_sub(1),
                2 => n,
                3 => n + 1,
                _ => r.range(1, 12) as usize,
            };
            (format!("g{}", size), if size == 0 { "gen0" } else { "gen" })
        }
        4..=7 => {
            // contiguous cover of 0..n, empty morsels allowed
            let mut cuts: Vec<usize> = (0..r.below(6)).map(|_| r.below(n as u64 + 1) as usize).collect();
            cuts.push(0);
            cuts.push(n);
            cuts.sort_unstable();
            if r.chance(3, 4) {
                cuts.dedup();
            }
            let ms: Vec<String> = cuts.windows(2).map(|w| format!("{}-{}", w[0], w[1])).collect();
            if ms.is_empty() { ("-".into(), "none") } else { (ms.join(","), "contig") }
        }
        8 => {
            // arbitrary ranges inside the table: gaps, overlaps, reversed bounds
            let k = r.range(1, 4);
            let ms: Vec<String> = (0..k).map(|_| format!("{}-{}", r.below(n as u64 + 1), r.below(n as u64 + 1))).collect();
            (ms.join(","), "arbitrary")
        }
        _ => {
            // reaching beyond the table
            let k = r.range(1, 3);
            let ms: Vec<String> = (0..k).map(|_| format!("{}-{}", r.below(n as u64 + 3), n as u64 + r.below(4))).collect();
            (ms.join(","), "beyond")
        }
    }
}

fn gen_cs(r: &mut Rng, n: usize) -> usize {
    match r.below(12) {
        0 => 0,
        1 => n.max(1),
        2 => n + 1,
        3 => 2048,
        _ => r.range(1, 9) as usize,
    }
}

fn gen_src(r: &mut Rng, out: &mut Vec<String>, st: &mut std::collections::BTreeMap<String, usize>) {
    let n = gen_n(r);
    let kind = *r.pick(&["vec", "vec", "range", "triple", "node", "chunk", "chunk", "chunk"]);
    let data = match kind {
        "vec" => {
            if r.chance(1, 25) {
                "none".to_string()
            } else {
                let ncols = r.range(1, 3) as usize;
                let ragged = r.chance(1, 15);
                (0..ncols)
                    .map(|c| {
                        let len = if ragged && c > 0 { (n + 2).saturating_sub(r.below(4) as usize) } else { n };
                        list_or_dash(&gen_ints(r, len, 50))
                    })
                    .collect::<Vec<_>>()
                    .join("/")
            }
        }
        "range" => n.to_string(),
        "triple" => list_or_dash(&gen_ints(r, n, 50)),
        "node" => list_or_dash(&(0..n).map(|_| r.below(100) as i64).collect::<Vec<_>>()),
        _ => {
            // chunks: sizes with zeros (runs of empty chunks) summing to n
            let mut left = n;
            let mut cs = Vec::new();
            while left > 0 || cs.is_empty() || r.chance(1, 6) {
                let k = if r.chance(1, 4) { 0 } else { r.range(1, 6).min(left as u64) as usize };
                cs.push(k);
                left -= k;
                if cs.len() > 40 {
                    break;
                }
            }
            if n == 0 && r.chance(1, 3) {
                "-".to_string()
            } else {
                let mut v = 0i64;
                cs.iter()
                    .map(|&k| {
                        let c: Vec<i64> = (0..k).map(|_| { v += 1; v * 3 }).collect();
                        if c.is_empty() { "_".to_string() } else { join(&c) }
                    })
                    .collect::<Vec<_>>()
                    .join("|")
            }
        }
    };
    let total = if kind == "chunk" && data != "-" { data.split('|').map(|c| if c == "_" { 0 } else { c.split(',').count() }).sum() } else { n };
    let (ms, class) = gen_morsels(r, total);
    let cs = gen_cs(r, total);
    *st.entry(format!("src.{}.{}{}", kind, class, if cs == 0 { ".cs0" } else { "" })).or_default() += 1;
    out.push(format!("par src {} {} {} {}", kind, data, ms, cs));
    out.push(format!("par src.chunks {} {} {} {}", kind, data, ms, cs));
}

fn gen_fold(r: &mut Rng, out: &mut Vec<String>, st: &mut std::collections::BTreeMap<String, usize>) {
    let f = *r.pick(&["count", "sum_i64", "sumf", "min", "max", "try", "part", "fr", "frw", "stats", "min", "max", "stats"]);
    let n = match r.below(5) {
        0 => r.below(3) as usize,
        1 => r.range(50, 300) as usize,
        _ => r.range(1, 24) as usize,
    };
    let threads = *r.pick(&["1,2,3,8", "1,2,3,8", "1", "1", "2,8", "3"]);
    let f = if threads == "1" && r.chance(1, 8) { "frwbad" } else { f };
    let items = match f {
        "min" | "max" => {
            let span = *r.pick(&[1i64, 2, 5]);
            let ks = gen_ints(r, n, span);
            if ks.is_empty() { "-".into() } else { ks.iter().enumerate().map(|(i, k)| format!("{}:{}", k, i)).collect::<Vec<_>>().join(",") }
        }
        "stats" => {
            if n == 0 {
                "-".into()
            } else {
                let nan = r.chance(1, 2);
                let span = *r.pick(&[9i64, 1]);
                gen_ints(r, n, span).iter().map(|v| if nan && r.chance(1, 4) { "nan".to_string() } else if *v == 0 && r.chance(1, 2) { "nz".to_string() } else { v.to_string() }).collect::<Vec<_>>().join(",")
            }
        }
        // overflowing sums / inexact float sums depend on the reduction shape: one-thread pools only
        "sum_i64" if threads == "1" && r.chance(1, 2) => list_or_dash(&(0..n.min(12)).map(|_| (r.next() as i64) >> 1).collect::<Vec<_>>()),
        "sum_i64" if r.chance(1, 4) => list_or_dash(&(0..n.min(7)).map(|_| (r.next() >> 4) as i64 - (1i64 << 59)).collect::<Vec<_>>()),
        "sumf" if threads == "1" && r.chance(1, 2) => {
            list_or_dash(&(0..n.min(12)).map(|_| *r.pick(&[1i64 << 53, (1i64 << 53) + 2, 1, 1, -1, 3, 1i64 << 54, -(1i64 << 53), (1i64 << 53) + 1])).collect::<Vec<_>>())
        }
        "sumf" => list_or_dash(&gen_ints(r, n, 1 << 20)),
        _ => list_or_dash(&gen_ints(r, n, 20)),
    };
    *st.entry(format!("fold.{}", f)).or_default() += 1;
    out.push(format!("par fold {} {} {}", f, items, threads));
}

fn gen_sched(r: &mut Rng, out: &mut Vec<String>, st: &mut std::collections::BTreeMap<String, usize>) {
    let w = *r.pick(&[0usize, 1, 2, 2, 3, 4, 4, 6, 9, 10]);
    let numa = if r.chance(1, 2) { "d".to_string() } else { format!("n{}x{}", r.range(1, 3), r.range(1, 4)) };
    let disciplined = r.chance(2, 3);
    let steps = r.range(0, 28);
    let mut prog: Vec<String> = Vec::new();
    let mut next_id = 0usize;
    let mut finished = false;
    let mut held: Vec<usize> = vec![0; w.max(1)];
    for _ in 0..steps {
        let k = r.below(20);
        let wi = if w == 0 { 0 } else { r.below(w as u64) as usize };
        let s = match k {
            0..=3 if !(disciplined && finished) => {
                next_id += 1;
                format!("s{}", next_id - 1)
            }
            4 if !(disciplined && finished) => {
                let c = r.below(4) as usize;
                let ids: Vec<String> = (next_id..next_id + c).map(|i| i.to_string()).collect();
                next_id += c;
                format!("b{}", ids.join("."))
            }
            5 if !disciplined || !finished => {
                finished = true;
                "f".to_string()
            }
            6 => "G".to_string(),
            7..=11 if w > 0 => {
                held[wi] += 1;
                format!("g{}", wi)
            }
            12 => format!("t{}", if r.chance(1, 8) { w + r.below(3) as usize } else { wi }),
            13..=14 if w > 0 && (!disciplined || held[wi] > 0) => {
                next_id += 1;
                format!("p{}.{}", wi, next_id - 1)
            }
            _ if w > 0 && (!disciplined || held[wi] > 0) => {
                held[wi] = held[wi].saturating_sub(1);
                format!("c{}", wi)
            }
            _ => "G".to_string(),
        };
        prog.push(s);
    }
    if disciplined && !finished && r.chance(1, 2) {
        prog.push("f".into());
    }
    *st.entry(format!("sched.{}", if disciplined { "disciplined" } else { "free" })).or_default() += 1;
    out.push(format!("par sched {} {} {}", w, numa, if prog.is_empty() { "-".to_string() } else { prog.join(";") }));
}

pub fn generate(seed: u64, cases: usize, out: &mut Vec<String>) {
    let mut r = Rng::new(seed ^ 0x7061_7221);
    let mut st = std::collections::BTreeMap::new();
    // fixed boundary lines
    for l in [
        "par src vec - g4 3",
        "par src vec none g4 3",
        "par src vec 1,2,3,4,5 g2 1",
        "par src vec 1,2,3,4,5/6,7,8,9,10 g2 3",
        "par src.chunks vec 1,2,3,4,5/6,7,8,9,10 g2 3",
        "par src vec 1,2,3,4,5 g0 2",
        "par src vec 1,2,3,4,5 g2 0",
        "par src vec 1,2,3 0-2,2-5 2",
        "par src vec 1,2,3/4,5 g2 2",
        "par src range 0 g3 2",
        "par src range 10 g3 2",
        "par src.chunks range 10 g3 2",
        "par src range 4 0-2,2-9 3",
        "par src triple 5,6,7 0-2,2-9 2",
        "par src node 9,8,7,6 g3 2",
        "par src node 9,8,7,6 3-1,5-9 2",
        "par src chunk - g3 2",
        "par src chunk 1,2|3,4,5 g2 2",
        "par src.chunks chunk 1,2|3,4,5 g2 2",
        "par src chunk 1,2|_|_|3,4,5 g2 7",
        "par src.chunks chunk 1,2|_|_|3,4,5 2-5 7",
        "par src chunk _|_|1|_ g1 1",
        "par src chunk 1,2|3,4,5 g2 0",
        "par src chunk 1,2|3 1-9,0-1 2",
        "par fold count - 1,2,3,8",
        "par fold count 1,2,3,4 1,2,3,8",
        "par fold sum_i64 9223372036854775807,1,-1 1",
        "par fold sum_i64 1,9223372036854775807,-1 1",
        "par fold sumf 9007199254740992,1,1 1",
        "par fold sumf 1,1,9007199254740992 1",
        "par fold min 1:0,1:1,1:2,1:3 1,2,3,8",
        "par fold max 1:0,1:1,1:2,1:3 1,2,3,8",
        "par fold min - 1,2",
        "par fold try 1,2,3,4,5,6,7,8,9 1,2,3,8",
        "par fold part 1,2,3,4,5,6,7,8,9 1,2,3,8",
        "par fold fr 5,4,3,2,1 1,2,3,8",
        "par fold frw 1,2,3,4 1,2,3,8",
        "par fold frwbad 1,2,3,4 1",
        "par fold frwbad 1 1",
        "par fold stats 1,2,3 1,2,3,8",
        "par fold stats 1,nan 1",
        "par fold stats nan,1 1",
        "par fold stats 1,nan,2,3 1",
        "par fold stats - 1,8",
        "par fold stats nan,nan,nan 1,2,3,8",
        "par fold stats nan 1,2",
        "par fold stats 0,nz 1,2,3,8",
        "par fold stats nz,0 1,2,3,8",
        "par fold stats 0,nz,0,nz,nz,0,0 1,2,3,8",
        "par fold stats nz,nz 1,2",
        "par fold stats 3,nan,nz,nan,0,-2 1,2,3,8",
        "par sched 2 d -",
        "par sched 2 d f",
        "par sched 2 d s0;s1;f;g0;g1;c0;c1",
        "par sched 2 d s0;g0;c0;f",
        "par sched 2 d s0;f;g0;p0.7;t1;c1;c0",
        "par sched 2 d f;s0;g0;c0",
        "par sched 1 d s0;t0;g0;c0;c0",
        "par sched 4 n2x2 p1.1;p2.2;p3.3;t0;t0;t0",
        "par sched 10 d p5.1;p9.2;t0;t6",
        "par sched 0 d s0;G;f",
    ] {
        out.push(l.to_string());
    }
    for c in 0..cases {
        out.push(format!("# case {} seed {}", c, seed));
        gen_src(&mut r, out, &mut st);
        gen_src(&mut r, out, &mut st);
        gen_fold(&mut r, out, &mut st);
        gen_sched(&mut r, out, &mut st);
    }
    if std::env::var("VH_STATS").is_ok() {
        for (k, v) in &st {
            eprintln!("{:32} {}", k, v);
        }
    }
}
