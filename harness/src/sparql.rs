//! Stream `sparql` — SPARQL queries and updates from the core grammar, rendered as text and run
//! through the real front end over a triple set given in the op line (C13, query level).
//!
//!   sparql sel <io> <triples> <scan> <n> <d>;<proj>;<order>;<off>;<lim>;<group>
//!   sparql chk <io> <triples> <scan> <n> <same as sel>       (unordered slice: size + containment)
//!   sparql cnt <io> <triples> <scan> <n> <d>;<arg>;<alias>;<groupBy>;<order>;<off>;<lim>;<group>
//!   sparql upd <io> <triples> <scan> <n> <update>
//!   sparql raw <io> <triples> <hex of query text>            (debugging aid, not generated)
//!   sparql order <io> <triples>                              (debugging aid: the store's scan order)
//!
//! `io` = 1: `GrafeoDB` + `Session::execute_sparql` (object index on, the only configuration the
//! database offers); `io` = 0: the same pipeline (translate → optimize → `RdfPlanner` → `Executor`)
//! over an `RdfStore` without object index.
#![allow(unused)]
use crate::util::*;
use grafeo_common::types::Value;
use grafeo_core::graph::rdf::{RdfStore, RdfStoreConfig, Term, Triple, TriplePattern};
use grafeo_engine::database::{GrafeoDB, QueryResult};
use grafeo_engine::query::{Executor, Optimizer, RdfPlanner};
use std::sync::Arc;

// ------------------------------------------------------------------ the term pool

const XSD: &str = "http://www.w3.org/2001/XMLSchema#";
pub const POOL: usize = 23;

/// Structurally distinct terms with look-alikes (extends the pool of stream `rdf`).
pub fn sterm(code: usize) -> Term {
    match code {
        0 => Term::iri("http://ex.org/a"),
        1 => Term::iri("http://ex.org/b"),
        2 => Term::iri("http://ex.org/p"),
        3 => Term::iri("x"),
        4 => Term::blank("x"),
        5 => Term::blank("b1"),
        6 => Term::literal("x"),
        7 => Term::lang_literal("x", "en"),
        8 => Term::lang_literal("x", "de"),
        9 => Term::typed_literal("x", format!("{XSD}token")),
        10 => Term::typed_literal("1", format!("{XSD}integer")),
        11 => Term::literal("1"),
        12 => Term::literal(""),
        16 => Term::literal("_:x"),
        17 => Term::literal("_:b1"),
        18 => Term::literal("http://ex.org/a"),
        19 => Term::literal("10"),
        20 => Term::literal("9"),
        21 => Term::typed_literal("10", format!("{XSD}integer")),
        22 => Term::typed_literal("9", format!("{XSD}integer")),
        _ => Term::iri(format!("http://ex.org/n{}", code)),
    }
}

fn lex_str(code: usize) -> String {
    match sterm(code) {
        Term::Iri(i) => i.as_str().to_string(),
        Term::BlankNode(b) => format!("_:{}", b.id()),
        Term::Literal(l) => l.value().to_string(),
    }
}

/// identifier of a lexical form: the smallest code written that way
fn lex_of_str(s: &str) -> String {
    if let Some(c) = (0..POOL).find(|c| lex_str(*c) == s) {
        return c.to_string();
    }
    // the IRIs beyond the pool: `http://ex.org/n<code>`
    if let Some(k) = s.strip_prefix("http://ex.org/n").and_then(|k| k.parse::<usize>().ok()) {
        if k >= POOL && lex_str(k) == s {
            return k.to_string();
        }
    }
    format!("?{}", hex(s.as_bytes()))
}

fn code_of(t: &Term) -> String {
    if let Some(c) = (0..POOL).find(|c| &sterm(*c) == t) {
        return c.to_string();
    }
    if let Term::Iri(i) = t {
        if let Some(k) = i.as_str().strip_prefix("http://ex.org/n").and_then(|k| k.parse::<usize>().ok()) {
            if k >= POOL && &sterm(k) == t {
                return k.to_string();
            }
        }
    }
    format!("?{}", hex(t.to_string().as_bytes()))
}

/// a constant as SPARQL text
fn render_const(code: usize) -> String {
    match sterm(code) {
        Term::Iri(i) => format!("<{}>", i.as_str()),
        Term::BlankNode(b) => format!("_:{}", b.id()),
        Term::Literal(l) => {
            if let Some(lang) = l.language() {
                format!("\"{}\"@{}", l.value(), lang)
            } else if l.is_simple() {
                format!("\"{}\"", l.value())
            } else {
                format!("\"{}\"^^<{}>", l.value(), l.datatype())
            }
        }
    }
}

// ------------------------------------------------------------------ abstract syntax

#[derive(Clone, Debug)]
enum PT {
    Var(usize),
    Const(usize),
}
type TP = [PT; 3];
#[derive(Clone, Debug)]
enum Expr {
    Eq(PT, PT),
    Ne(PT, PT),
    Lt(PT, PT),
    Bound(usize),
    Not(Box<Expr>),
    And(Box<Expr>, Box<Expr>),
    Or(Box<Expr>, Box<Expr>),
}
#[derive(Clone, Debug)]
enum Elem {
    Triples(Vec<TP>),
    Optional(Vec<Elem>),
    Union(Vec<Elem>, Vec<Elem>),
    Group(Vec<Elem>),
    Filter(Expr),
}

fn pt_tok(p: &PT) -> String {
    match p {
        PT::Var(v) => format!("v{}", v),
        PT::Const(c) => format!("c{}", c),
    }
}
fn tp_tok(t: &TP) -> String {
    format!("{}.{}.{}", pt_tok(&t[0]), pt_tok(&t[1]), pt_tok(&t[2]))
}
fn tps_tok(ts: &[TP]) -> String {
    ts.iter().map(tp_tok).collect::<Vec<_>>().join("/")
}
fn expr_tok(e: &Expr) -> String {
    match e {
        Expr::Eq(a, b) => format!("e({},{})", pt_tok(a), pt_tok(b)),
        Expr::Ne(a, b) => format!("n({},{})", pt_tok(a), pt_tok(b)),
        Expr::Lt(a, b) => format!("l({},{})", pt_tok(a), pt_tok(b)),
        Expr::Bound(v) => format!("b(v{})", v),
        Expr::Not(e) => format!("!({})", expr_tok(e)),
        Expr::And(a, b) => format!("&({},{})", expr_tok(a), expr_tok(b)),
        Expr::Or(a, b) => format!("|({},{})", expr_tok(a), expr_tok(b)),
    }
}
fn grp_tok(g: &[Elem]) -> String {
    g.iter()
        .map(|e| match e {
            Elem::Triples(ts) => format!("T[{}]", tps_tok(ts)),
            Elem::Optional(g) => format!("O{{{}}}", grp_tok(g)),
            Elem::Union(a, b) => format!("U{{{}}}{{{}}}", grp_tok(a), grp_tok(b)),
            Elem::Group(g) => format!("G{{{}}}", grp_tok(g)),
            Elem::Filter(e) => format!("F({})", expr_tok(e)),
        })
        .collect()
}

// ---- parsing (the same grammar as the Lean driver)

struct P<'a> {
    s: &'a [u8],
    i: usize,
}
impl<'a> P<'a> {
    fn peek(&self) -> u8 {
        *self.s.get(self.i).unwrap_or(&0)
    }
    fn eat(&mut self, c: u8) {
        assert_eq!(self.peek(), c, "expected {} at {}", c as char, self.i);
        self.i += 1;
    }
    fn until(&mut self, stop: u8) -> &'a str {
        let st = self.i;
        while self.peek() != stop {
            assert!(self.i < self.s.len());
            self.i += 1;
        }
        let r = std::str::from_utf8(&self.s[st..self.i]).unwrap();
        self.i += 1;
        r
    }
    fn pt(s: &str) -> PT {
        match s.as_bytes()[0] {
            b'v' => PT::Var(s[1..].parse().unwrap()),
            b'c' => PT::Const(s[1..].parse().unwrap()),
            _ => panic!("pt {}", s),
        }
    }
    fn tps(s: &str) -> Vec<TP> {
        if s.is_empty() || s == "-" {
            return vec![];
        }
        s.split('/')
            .map(|t| {
                let p: Vec<&str> = t.split('.').collect();
                assert_eq!(p.len(), 3);
                [Self::pt(p[0]), Self::pt(p[1]), Self::pt(p[2])]
            })
            .collect()
    }
    fn expr(&mut self) -> Expr {
        let k = self.peek();
        self.i += 1;
        self.eat(b'(');
        match k {
            b'e' | b'n' | b'l' => {
                let a = Self::pt(self.until(b','));
                let b = Self::pt(self.until(b')'));
                match k {
                    b'e' => Expr::Eq(a, b),
                    b'n' => Expr::Ne(a, b),
                    _ => Expr::Lt(a, b),
                }
            }
            b'b' => match Self::pt(self.until(b')')) {
                PT::Var(v) => Expr::Bound(v),
                _ => panic!("bound"),
            },
            b'!' => {
                let e = self.expr();
                self.eat(b')');
                Expr::Not(Box::new(e))
            }
            b'&' | b'|' => {
                let a = self.expr();
                self.eat(b',');
                let b = self.expr();
                self.eat(b')');
                if k == b'&' { Expr::And(Box::new(a), Box::new(b)) } else { Expr::Or(Box::new(a), Box::new(b)) }
            }
            _ => panic!("expr"),
        }
    }
    fn grp(&mut self) -> Vec<Elem> {
        let mut out = vec![];
        loop {
            match self.peek() {
                0 | b'}' => return out,
                b'T' => {
                    self.i += 1;
                    self.eat(b'[');
                    out.push(Elem::Triples(Self::tps(self.until(b']'))));
                }
                b'O' | b'G' => {
                    let k = self.peek();
                    self.i += 1;
                    self.eat(b'{');
                    let g = self.grp();
                    self.eat(b'}');
                    out.push(if k == b'O' { Elem::Optional(g) } else { Elem::Group(g) });
                }
                b'U' => {
                    self.i += 1;
                    self.eat(b'{');
                    let a = self.grp();
                    self.eat(b'}');
                    self.eat(b'{');
                    let b = self.grp();
                    self.eat(b'}');
                    out.push(Elem::Union(a, b));
                }
                b'F' => {
                    self.i += 1;
                    self.eat(b'(');
                    let e = self.expr();
                    self.eat(b')');
                    out.push(Elem::Filter(e));
                }
                c => panic!("grp {}", c as char),
            }
        }
    }
}

fn parse_group(s: &str) -> Vec<Elem> {
    let mut p = P { s: s.as_bytes(), i: 0 };
    let g = p.grp();
    assert_eq!(p.i, s.len());
    g
}

// ---- rendering as SPARQL text

fn pt_text(p: &PT) -> String {
    match p {
        PT::Var(v) => format!("?v{}", v),
        PT::Const(c) => render_const(*c),
    }
}
fn tps_text(ts: &[TP]) -> String {
    ts.iter().map(|t| format!("{} {} {}", pt_text(&t[0]), pt_text(&t[1]), pt_text(&t[2]))).collect::<Vec<_>>().join(" . ")
}
fn expr_text(e: &Expr) -> String {
    match e {
        Expr::Eq(a, b) => format!("({} = {})", pt_text(a), pt_text(b)),
        Expr::Ne(a, b) => format!("({} != {})", pt_text(a), pt_text(b)),
        Expr::Lt(a, b) => format!("({} < {})", pt_text(a), pt_text(b)),
        Expr::Bound(v) => format!("BOUND(?v{})", v),
        Expr::Not(e) => format!("(!{})", expr_text(e)),
        Expr::And(a, b) => format!("({} && {})", expr_text(a), expr_text(b)),
        Expr::Or(a, b) => format!("({} || {})", expr_text(a), expr_text(b)),
    }
}
fn grp_text(g: &[Elem]) -> String {
    let parts: Vec<String> = g
        .iter()
        .map(|e| match e {
            Elem::Triples(ts) => format!("{} .", tps_text(ts)),
            Elem::Optional(g) => format!("OPTIONAL {}", grp_text(g)),
            Elem::Union(a, b) => format!("{} UNION {}", grp_text(a), grp_text(b)),
            Elem::Group(g) => grp_text(g),
            Elem::Filter(e) => format!("FILTER({})", expr_text(e)),
        })
        .collect();
    format!("{{ {} }}", parts.join(" "))
}

fn order_text(ord: &str) -> String {
    if ord == "-" {
        return String::new();
    }
    let ks: Vec<String> = ord
        .split(',')
        .map(|k| {
            let (v, d) = k.split_at(k.len() - 1);
            if d == "d" { format!("DESC(?v{})", v) } else { format!("?v{}", v) }
        })
        .collect();
    format!(" ORDER BY {}", ks.join(" "))
}

fn slice_text(off: &str, lim: &str) -> String {
    let mut s = String::new();
    if lim != "-" {
        s += &format!(" LIMIT {}", lim);
    }
    if off != "-" {
        s += &format!(" OFFSET {}", off);
    }
    s
}

pub fn select_text(q: &str, with_slice: bool) -> String {
    let f: Vec<&str> = q.split(';').collect();
    assert_eq!(f.len(), 6);
    let proj = if f[1] == "*" { "*".to_string() } else { f[1].split(',').map(|v| format!("?v{}", v)).collect::<Vec<_>>().join(" ") };
    format!(
        "SELECT {}{} WHERE {}{}{}",
        if f[0] == "1" { "DISTINCT " } else { "" },
        proj,
        grp_text(&parse_group(f[5])),
        order_text(f[2]),
        if with_slice { slice_text(f[3], f[4]) } else { String::new() }
    )
}

pub fn count_text(q: &str) -> String {
    let f: Vec<&str> = q.split(';').collect();
    assert_eq!(f.len(), 8);
    let arg = if f[1] == "*" { "*".to_string() } else { format!("?v{}", f[1]) };
    let gb: Vec<String> = if f[3] == "-" { vec![] } else { f[3].split(',').map(|v| format!("?v{}", v)).collect() };
    format!(
        "SELECT {}{}(COUNT({}{}) AS ?v{}) WHERE {}{}{}{}",
        gb.join(" "),
        if gb.is_empty() { "" } else { " " },
        if f[0] == "1" { "DISTINCT " } else { "" },
        arg,
        f[2],
        grp_text(&parse_group(f[7])),
        if gb.is_empty() { String::new() } else { format!(" GROUP BY {}", gb.join(" ")) },
        order_text(f[4]),
        slice_text(f[5], f[6])
    )
}

pub fn update_text(u: &str) -> String {
    let inner = |s: &str| -> String { tps_text(&P::tps(s)) };
    if let Some(r) = u.strip_prefix("ID[") {
        format!("INSERT DATA {{ {} }}", inner(r.strip_suffix(']').unwrap()))
    } else if let Some(r) = u.strip_prefix("DD[") {
        format!("DELETE DATA {{ {} }}", inner(r.strip_suffix(']').unwrap()))
    } else if let Some(r) = u.strip_prefix("DW[") {
        format!("DELETE WHERE {{ {} }}", inner(r.strip_suffix(']').unwrap()))
    } else if let Some(r) = u.strip_prefix("MO[") {
        let (d, r) = r.split_once("][").unwrap();
        let (i, r) = r.split_once("]{").unwrap();
        let g = r.strip_suffix('}').unwrap();
        let mut s = String::new();
        if !(d.is_empty() || d == "-") {
            s += &format!("DELETE {{ {} }} ", inner(d));
        }
        if !(i.is_empty() || i == "-") {
            s += &format!("INSERT {{ {} }} ", inner(i));
        }
        s + &format!("WHERE {}", grp_text(&parse_group(g)))
    } else {
        panic!("update {}", u)
    }
}

// ------------------------------------------------------------------ running

fn parse_triples(s: &str) -> Vec<(usize, usize, usize)> {
    if s == "-" {
        return vec![];
    }
    s.split(',')
        .map(|t| {
            let p: Vec<usize> = t.split('.').map(|x| x.parse().unwrap()).collect();
            (p[0], p[1], p[2])
        })
        .collect()
}

struct Db {
    db: Option<GrafeoDB>,
    store: Arc<RdfStore>,
}

fn build(io: &str, ts: &str) -> Db {
    let (db, store) = if io == "1" {
        let db = GrafeoDB::new_in_memory();
        let st = Arc::clone(db.rdf_store());
        (Some(db), st)
    } else {
        let cap = RdfStoreConfig::default().initial_capacity;
        (None, Arc::new(RdfStore::with_config(RdfStoreConfig { initial_capacity: cap, index_objects: false })))
    };
    for (s, p, o) in parse_triples(ts) {
        store.insert(Triple::new(sterm(s), sterm(p), sterm(o)));
    }
    Db { db, store }
}

impl Db {
    fn exec(&self, q: &str) -> Result<QueryResult, String> {
        let r = match &self.db {
            Some(db) => db.session().execute_sparql(q),
            None => (|| {
                let lp = grafeo_engine::query::translate_sparql(q)?;
                let before = format!("{:?}", lp.root);
                let opt = Optimizer::new().optimize(lp)?;
                // the optimizer is expected to leave these plans alone; the model relies on it
                assert_eq!(format!("{:?}", opt.root), before, "optimizer changed the plan");
                let mut pp = RdfPlanner::new(Arc::clone(&self.store)).plan(&opt)?;
                Executor::with_columns(pp.columns.clone()).execute(pp.operator.as_mut())
            })(),
        };
        r.map_err(|e| e.to_string().lines().next().unwrap_or("").to_string())
    }
    fn dump(&self) -> String {
        let mut v: Vec<String> = self.store.triples().iter().map(|t| format!("{}.{}.{}", code_of(t.subject()), code_of(t.predicate()), code_of(t.object()))).collect();
        v.sort();
        v.join(",")
    }
}

fn var_no(name: &str) -> String {
    name.strip_prefix('v').map(|s| s.to_string()).unwrap_or_else(|| format!("?{}", hex(name.as_bytes())))
}

fn show_cell(v: &Value) -> String {
    match v {
        Value::Null => "~".into(),
        Value::String(s) => lex_of_str(s),
        Value::Int64(i) => format!("#{}", i),
        other => format!("?{}", hex(format!("{:?}", other).as_bytes())),
    }
}

/// canonical text of a result: `<sorted column numbers>|<row>;<row>…`; a row is `v=cell,…` sorted,
/// nulls left out; a row whose width is not the header's is `!cell,cell`
fn show_result(r: &QueryResult, ordered: &[String]) -> String {
    let cols: Vec<String> = r.columns.iter().map(|c| var_no(c)).collect();
    let mut hdr: Vec<u64> = cols.iter().map(|c| c.parse::<u64>().unwrap_or(u64::MAX)).collect();
    hdr.sort();
    let row_text = |row: &Vec<Value>| -> String {
        if row.len() != cols.len() {
            return format!("!{}", row.iter().map(show_cell).collect::<Vec<_>>().join(","));
        }
        let mut ps: Vec<String> = cols.iter().zip(row.iter()).filter(|(_, v)| !matches!(v, Value::Null)).map(|(c, v)| format!("{}={}", c, show_cell(v))).collect();
        ps.sort();
        ps.join(",")
    };
    let body: Vec<String> = if ordered.is_empty() {
        let mut b: Vec<String> = r.rows.iter().map(row_text).collect();
        b.sort();
        b
    } else {
        // ties of the sort keys in a canonical order
        let keyed: Vec<(Vec<String>, String)> = r
            .rows
            .iter()
            .map(|row| {
                let k = ordered
                    .iter()
                    .map(|kv| match cols.iter().rposition(|c| c == kv) {
                        Some(i) if row.len() == cols.len() => show_cell(&row[i]),
                        _ => "~".to_string(),
                    })
                    .collect();
                (k, row_text(row))
            })
            .collect();
        let mut out = vec![];
        let mut i = 0;
        while i < keyed.len() {
            let mut j = i + 1;
            while j < keyed.len() && keyed[j].0 == keyed[i].0 {
                j += 1;
            }
            let mut run: Vec<String> = keyed[i..j].iter().map(|x| x.1.clone()).collect();
            run.sort();
            out.extend(run);
            i = j;
        }
        out
    };
    format!("{}|{}", hdr.iter().map(|h| h.to_string()).collect::<Vec<_>>().join(","), body.join(";"))
}

fn order_vars(ord: &str) -> Vec<String> {
    if ord == "-" { vec![] } else { ord.split(',').map(|k| k[..k.len() - 1].to_string()).collect() }
}

fn body_rows(s: &str) -> Vec<String> {
    match s.split_once('|') {
        Some((_, b)) if !b.is_empty() => b.split(';').map(|x| x.to_string()).collect(),
        _ => vec![],
    }
}

fn sub_bag(small: &[String], big: &[String]) -> bool {
    let mut rest: Vec<String> = big.to_vec();
    for x in small {
        match rest.iter().position(|y| y == x) {
            Some(i) => {
                rest.remove(i);
            }
            None => return false,
        }
    }
    true
}

fn run_text(db: &Db, text: &str, ordered: &[String]) -> String {
    match db.exec(text) {
        Ok(r) => show_result(&r, ordered),
        Err(_) => "err".into(),
    }
}

pub fn run(args: &[&str]) -> String {
    let a = args.to_vec();
    guarded(move || match a.as_slice() {
        ["sel", io, ts, _scan, _n, q] => {
            let db = build(io, ts);
            let f: Vec<&str> = q.split(';').collect();
            run_text(&db, &select_text(q, true), &order_vars(f[2]))
        }
        ["chk", io, ts, _scan, _n, q] => {
            let db = build(io, ts);
            let sliced = run_text(&db, &select_text(q, true), &[]);
            let whole = run_text(&db, &select_text(q, false), &[]);
            if sliced == "err" || whole == "err" {
                "err".into()
            } else {
                let (s, w) = (body_rows(&sliced), body_rows(&whole));
                format!("n={};sub={}", s.len(), if sub_bag(&s, &w) { 1 } else { 0 })
            }
        }
        ["cnt", io, ts, _scan, _n, q] => {
            let db = build(io, ts);
            let f: Vec<&str> = q.split(';').collect();
            run_text(&db, &count_text(q), &order_vars(f[4]))
        }
        ["upd", io, ts, _scan, _n, u] => {
            let db = build(io, ts);
            let r = db.exec(&update_text(u));
            let after = run_text(&db, "SELECT * WHERE { ?v0 ?v1 ?v2 }", &[]);
            format!("{}{}/{}", if r.is_err() { "err:" } else { "" }, db.dump(), after)
        }
        ["text", kind, q] => match *kind {
            "sel" | "chk" => select_text(q, true),
            "cnt" => count_text(q),
            _ => update_text(q),
        },
        ["order", io, ts] => {
            let db = build(io, ts);
            scan_order(&db.store)
        }
        ["raw", io, ts, hexq] => {
            let q = String::from_utf8(unhex(hexq).unwrap()).unwrap();
            let db = build(io, ts);
            let out = match db.exec(&q) {
                Ok(r) => format!(
                    "cols={} rows={}",
                    r.columns.join(","),
                    r.rows.iter().map(|row| row.iter().map(|v| format!("{:?}", v)).collect::<Vec<_>>().join(",")).collect::<Vec<_>>().join(" | ")
                ),
                Err(e) => format!("ERR {}", e),
            };
            format!("{}   STORE: {}", out, db.dump())
        }
        _ => "bad-op".into(),
    })
}

/// the distinct triples in the iteration order of the primary hash set
fn scan_order(store: &RdfStore) -> String {
    let v: Vec<String> = store
        .find(&TriplePattern { subject: None, predicate: None, object: None })
        .iter()
        .map(|t| format!("{}.{}.{}", code_of(t.subject()), code_of(t.predicate()), code_of(t.object())))
        .collect();
    if v.is_empty() { "-".into() } else { v.join(",") }
}

// ------------------------------------------------------------------ generation

struct Gen {
    r: Rng,
    nv: usize,
    /// variable ↦ the term it stands for in the witness match the patterns are generalised from
    bind: Vec<Option<usize>>,
    data: Vec<(usize, usize, usize)>,
    subj: Vec<usize>,
    pred: Vec<usize>,
    obj: Vec<usize>,
}

fn is_blank(c: usize) -> bool {
    c == 4 || c == 5
}

impl Gen {
    fn var(&mut self) -> PT {
        PT::Var(self.r.below(self.nv as u64) as usize)
    }
    fn pos(&mut self, pool: &[usize], p_var: u64) -> PT {
        if self.r.chance(p_var, 100) { self.var() } else { PT::Const(*self.r.pick(pool)) }
    }
    /// a position holding term `c` of a data triple, as a variable that stands for `c` (so that a
    /// block of patterns keeps at least one joint match) or as the constant
    fn generalise(&mut self, c: usize, p_var: u64) -> PT {
        if !(is_blank(c) || self.r.chance(p_var, 100)) {
            return PT::Const(c);
        }
        if let Some(v) = (0..self.nv).find(|v| self.bind[*v] == Some(c)) {
            if self.r.chance(9, 10) {
                return PT::Var(v);
            }
        }
        let free: Vec<usize> = (0..self.nv).filter(|v| self.bind[*v].is_none()).collect();
        if !free.is_empty() {
            let v = *self.r.pick(&free);
            self.bind[v] = Some(c);
            return PT::Var(v);
        }
        if is_blank(c) { self.var() } else { PT::Const(c) }
    }
    /// a triple pattern: mostly a data triple with some positions turned into variables (so that
    /// it matches), otherwise arbitrary constants (which mostly do not occur)
    fn tp(&mut self, linear: bool) -> TP {
        loop {
            let t: TP = if !self.data.is_empty() && self.r.chance(4, 5) {
                // prefer a triple that shares a term with what is bound already
                let bound: Vec<usize> = self.bind.iter().flatten().cloned().collect();
                let linked: Vec<(usize, usize, usize)> = self.data.iter().filter(|d| bound.contains(&d.0) || bound.contains(&d.2)).cloned().collect();
                let d = if !linked.is_empty() && self.r.chance(3, 4) { *self.r.pick(&linked) } else { *self.r.pick(&self.data.clone()) };
                let save = self.bind.clone();
                let t = [self.generalise(d.0, 70), self.generalise(d.1, 25), self.generalise(d.2, 60)];
                if linear {
                    let vs: Vec<usize> = t.iter().filter_map(|p| if let PT::Var(v) = p { Some(*v) } else { None }).collect();
                    let mut dd = vs.clone();
                    dd.sort();
                    dd.dedup();
                    if dd.len() != vs.len() {
                        self.bind = save;
                        continue;
                    }
                }
                t
            } else {
                let (sp, pp, op) = (self.subj.clone(), self.pred.clone(), self.obj.clone());
                [self.pos(&sp, 75), self.pos(&pp, 35), self.pos(&op, 65)]
            };
            let vs: Vec<usize> = t.iter().filter_map(|p| if let PT::Var(v) = p { Some(*v) } else { None }).collect();
            let mut d = vs.clone();
            d.sort();
            d.dedup();
            if !linear || d.len() == vs.len() {
                return t;
            }
        }
    }
    fn triples(&mut self) -> Elem {
        let k = match self.r.below(10) {
            0..=5 => 1,
            6..=8 => 2,
            _ => 3,
        };
        // mostly linear patterns; now and then `?s ?p ?s`
        let ts = (0..k).map(|_| { let lin = !self.r.chance(1, 14); self.tp(lin) }).collect();
        Elem::Triples(ts)
    }
    fn atom(&mut self) -> Expr {
        let consts: Vec<usize> = vec![0, 1, 3, 6, 7, 10, 11, 12, 18, 19, 20, 22];
        let a = self.var();
        let b = if self.r.chance(1, 3) {
            self.var()
        } else if !self.data.is_empty() && self.r.chance(1, 2) {
            let d = *self.r.pick(&self.data.clone());
            let c = *self.r.pick(&[d.0, d.2]);
            PT::Const(if is_blank(c) { 0 } else { c })
        } else {
            PT::Const(*self.r.pick(&consts))
        };
        match self.r.below(10) {
            0..=3 => Expr::Eq(a, b),
            4..=5 => Expr::Ne(a, b),
            6..=7 => Expr::Lt(a, b),
            _ => Expr::Bound(self.r.below(self.nv as u64 + 1) as usize),
        }
    }
    fn expr(&mut self, depth: u32) -> Expr {
        if depth == 0 || self.r.chance(3, 5) {
            return self.atom();
        }
        match self.r.below(3) {
            0 => Expr::Not(Box::new(self.expr(depth - 1))),
            1 => Expr::And(Box::new(self.expr(depth - 1)), Box::new(self.expr(depth - 1))),
            _ => Expr::Or(Box::new(self.expr(depth - 1)), Box::new(self.expr(depth - 1))),
        }
    }
    fn group(&mut self, depth: u32) -> Vec<Elem> {
        let mut g = vec![];
        if !self.r.chance(1, 30) {
            g.push(self.triples());
        }
        let extra = match self.r.below(10) {
            0..=3 => 0,
            4..=7 => 1,
            _ => 2,
        };
        for _ in 0..extra {
            match self.r.below(if depth == 0 { 3 } else { 10 }) {
                0 => g.push(self.triples()),
                1 | 2 => g.push(Elem::Filter(self.expr(2))),
                3..=5 => {
                    let inner = self.group(depth - 1);
                    g.push(Elem::Optional(inner));
                }
                6 | 7 => {
                    let a = self.group(depth - 1);
                    // often the same shape with other constants, so that the columns line up
                    let b = if self.r.chance(1, 2) { self.retarget(&a) } else { self.group(depth - 1) };
                    g.push(Elem::Union(a, b));
                }
                _ => {
                    let inner = self.group(depth - 1);
                    g.push(Elem::Group(inner));
                }
            }
        }
        if g.len() > 1 && self.r.chance(1, 8) {
            // an OPTIONAL in front of a required pattern, or a filter first
            g.rotate_right(1);
        }
        g
    }
    /// the same group with some constants replaced
    fn retarget(&mut self, g: &[Elem]) -> Vec<Elem> {
        g.iter()
            .map(|e| match e {
                Elem::Triples(ts) => Elem::Triples(
                    ts.iter()
                        .map(|t| {
                            let mut t = t.clone();
                            if let PT::Const(_) = t[1] {
                                t[1] = PT::Const(*self.r.pick(&self.pred.clone()));
                            }
                            if let PT::Const(_) = t[2] {
                                t[2] = PT::Const(*self.r.pick(&self.obj.clone()));
                            }
                            t
                        })
                        .collect(),
                ),
                other => other.clone(),
            })
            .collect()
    }
    /// Give every triple pattern a constant subject or predicate: the scans then read an index
    /// vector (insertion order). A scan of the primary hash set comes in an order that differs
    /// from store to store (`ahash::RandomState`), so lines whose outcome depends on the order of
    /// rows (null positions, slices, updates under a filter) must not contain one.
    fn index_ordered(&mut self, g: &mut Vec<Elem>) {
        for e in g.iter_mut() {
            match e {
                Elem::Triples(ts) => {
                    for t in ts.iter_mut() {
                        if matches!(t[0], PT::Var(_)) && matches!(t[1], PT::Var(_)) {
                            let p = if !self.data.is_empty() && self.r.chance(4, 5) { self.r.pick(&self.data.clone()).1 } else { *self.r.pick(&self.pred.clone()) };
                            t[1] = PT::Const(p);
                        }
                    }
                }
                Elem::Optional(g) | Elem::Group(g) => self.index_ordered(g),
                Elem::Union(a, b) => {
                    self.index_ordered(a);
                    self.index_ordered(b);
                }
                Elem::Filter(_) => {}
            }
        }
    }
}

fn has_optional(g: &[Elem]) -> bool {
    g.iter().any(|e| match e {
        Elem::Optional(_) => true,
        Elem::Group(g) => has_optional(g),
        Elem::Union(a, b) => has_optional(a) || has_optional(b),
        _ => false,
    })
}
fn has_filter(g: &[Elem]) -> bool {
    g.iter().any(|e| match e {
        Elem::Filter(_) => true,
        Elem::Group(g) | Elem::Optional(g) => has_filter(g),
        Elem::Union(a, b) => has_filter(a) || has_filter(b),
        _ => false,
    })
}
fn has_nonlinear(g: &[Elem]) -> bool {
    g.iter().any(|e| match e {
        Elem::Triples(ts) => ts.iter().any(|t| {
            let vs: Vec<usize> = t.iter().filter_map(|p| if let PT::Var(v) = p { Some(*v) } else { None }).collect();
            let mut d = vs.clone();
            d.sort();
            d.dedup();
            d.len() != vs.len()
        }),
        Elem::Group(g) | Elem::Optional(g) => has_nonlinear(g),
        Elem::Union(a, b) => has_nonlinear(a) || has_nonlinear(b),
        _ => false,
    })
}

fn grp_vars(g: &[Elem], out: &mut Vec<usize>) {
    for e in g {
        match e {
            Elem::Triples(ts) => {
                for t in ts {
                    for p in t {
                        if let PT::Var(v) = p {
                            if !out.contains(v) {
                                out.push(*v);
                            }
                        }
                    }
                }
            }
            Elem::Optional(g) | Elem::Group(g) => grp_vars(g, out),
            Elem::Union(a, b) => {
                grp_vars(a, out);
                grp_vars(b, out);
            }
            Elem::Filter(_) => {}
        }
    }
}

fn gen_data(r: &mut Rng) -> Vec<(usize, usize, usize)> {
    let small = r.chance(1, 2);
    let subj: &[usize] = if small { &[0, 1, 3, 4] } else { &[0, 1, 3, 4, 5, 13] };
    let pred: &[usize] = if small { &[2, 3] } else { &[2, 3, 0, 14] };
    let obj: &[usize] = if small { &[0, 1, 3, 6, 7, 10, 11] } else { &[0, 1, 3, 4, 5, 6, 7, 8, 9, 10, 11, 12, 13, 16, 18, 19, 20, 21, 22] };
    let n = if r.chance(1, 20) { 0 } else { r.range(2, if small { 9 } else { 16 }) };
    let mut v: Vec<(usize, usize, usize)> = vec![];
    for _ in 0..n {
        if !v.is_empty() && r.chance(1, 8) {
            let d = *r.pick(&v);
            v.push(d); // duplicate
        } else {
            v.push((*r.pick(subj), *r.pick(pred), *r.pick(obj)));
        }
    }
    v
}

fn triples_arg(v: &[(usize, usize, usize)]) -> String {
    if v.is_empty() { "-".into() } else { v.iter().map(|(a, b, c)| format!("{}.{}.{}", a, b, c)).collect::<Vec<_>>().join(",") }
}

fn order_arg(order: &[(usize, bool)]) -> String {
    if order.is_empty() { "-".into() } else { order.iter().map(|(v, d)| format!("{}{}", v, if *d { "d" } else { "a" })).collect::<Vec<_>>().join(",") }
}

pub fn generate(seed: u64, cases: usize, out: &mut Vec<String>) {
    let mut r = Rng::new(seed ^ 0x73_7061_7271);
    for c in 0..cases {
        out.push(format!("# case {} seed {}", c, seed));
        if r.chance(1, 150) {
            // more rows than one scan chunk (1024) / one join chunk (2048) holds
            let m = r.range(1030, 1100) as usize;
            let mut big: Vec<(usize, usize, usize)> = (0..m).map(|i| (100 + i, 2, 100 + (i * 7 + 3) % m)).collect();
            big.push((100, 14, 101));
            big.push((101, 14, 0));
            let ts = triples_arg(&big);
            let io = if r.chance(1, 2) { "1" } else { "0" };
            let off = r.range(1015, 1028);
            out.push(format!("sparql sel {} {} - 3 0;*;-;{};5;T[v0.c2.v1]", io, ts, off));
            out.push(format!("sparql chk {} {} - 3 0;*;-;{};5;T[v0.c2.v1]", io, ts, off));
            out.push(format!("sparql sel {} {} - 3 0;1,0;1d,0a;{};3;T[v0.c2.v1]", io, ts, off - 1000));
            out.push(format!("sparql sel {} {} - 4 0;0,2;-;{};4;T[v0.c2.v1]O{{T[v0.c14.v2]}}", io, ts, m - 3));
            out.push(format!("sparql cnt {} {} - 4 0;2;3;-;-;-;-;T[v0.c2.v1]O{{T[v0.c14.v2]}}", io, ts));
            out.push(format!("sparql cnt {} {} - 4 1;1;3;-;-;-;-;T[v0.c2.v1/v1.c2.v2]", io, ts));
            out.push(format!("sparql upd {} {} - 2 MO[v0.c2.v1][v1.c14.v0]{{T[v0.c2.v1]F(l(v0,c1))}}", io, ts));
            continue;
        }
        let data = gen_data(&mut r);
        let io = if r.chance(1, 2) { "1" } else { "0" };
        let ts = triples_arg(&data);
        let nv = r.range(2, 4) as usize;
        let mut g = Gen {
            r: Rng::new(r.next()),
            nv,
            bind: vec![None; nv],
            data: data.clone(),
            subj: vec![0, 1, 3, 13],
            pred: vec![2, 3, 0, 14],
            obj: vec![0, 1, 3, 6, 7, 9, 10, 11, 12, 18, 19, 20],
        };
        let n_lines = r.range(2, 5);
        for _ in 0..n_lines {
            // the scan-order field is `-` (insertion order): see `index_ordered`
            let head = format!("{} {} - {}", io, ts, nv + 1);
            g.bind = vec![None; nv];
            match r.below(100) {
                0..=59 => {
                    let mut grp = g.group(2);
                    let slice = r.chance(1, 3);
                    if has_optional(&grp) || slice {
                        g.index_ordered(&mut grp);
                    }
                    let mut vars = vec![];
                    grp_vars(&grp, &mut vars);
                    let distinct = r.chance(1, 5);
                    // projection: `*`, a subset of the variables in scope, rarely one out of scope
                    let proj: Option<Vec<usize>> = if vars.is_empty() || r.chance(1, 2) {
                        None
                    } else {
                        let mut p: Vec<usize> = vars.iter().filter(|_| r.chance(2, 3)).cloned().collect();
                        if p.is_empty() {
                            p.push(vars[0]);
                        }
                        if r.chance(1, 25) {
                            p.push(nv);
                        }
                        Some(p)
                    };
                    let visible: Vec<usize> = proj.clone().unwrap_or(vars.clone());
                    // ORDER BY over visible variables; with a slice: over all of them (total keys)
                    let order: Vec<(usize, bool)> = if visible.is_empty() || !(r.chance(1, 3) || (slice && r.chance(2, 3))) {
                        vec![]
                    } else if slice {
                        let mut ks = visible.clone();
                        let rot = r.below(ks.len() as u64) as usize;
                        ks.rotate_left(rot);
                        ks.iter().map(|v| (*v, r.chance(1, 3))).collect()
                    } else {
                        let k = r.range(1, 2.min(visible.len() as u64)) as usize;
                        (0..k).map(|_| (*r.pick(&visible), r.chance(1, 3))).collect()
                    };
                    let (off, lim) = if slice {
                        (if r.chance(1, 2) { Some(r.below(4)) } else { None }, if r.chance(3, 4) { Some(r.below(5)) } else { None })
                    } else {
                        (None, None)
                    };
                    let sliced = off.is_some() || lim.is_some();
                    let q = format!(
                        "{};{};{};{};{};{}",
                        if distinct { 1 } else { 0 },
                        proj.map(|p| join(&p)).unwrap_or("*".into()),
                        order_arg(&order),
                        off.map(|x| x.to_string()).unwrap_or("-".into()),
                        lim.map(|x| x.to_string()).unwrap_or("-".into()),
                        grp_tok(&grp)
                    );
                    out.push(format!("sparql sel {} {}", head, q));
                    if sliced && order.is_empty() {
                        out.push(format!("sparql chk {} {}", head, q));
                    }
                }
                60..=74 => {
                    let mut grp = g.group(1);
                    let want_lim = r.chance(1, 2);
                    if has_optional(&grp) || want_lim {
                        g.index_ordered(&mut grp);
                    }
                    let mut vars = vec![];
                    grp_vars(&grp, &mut vars);
                    let alias = nv; // a variable that is not used in the pattern
                    let arg = if vars.is_empty() || r.chance(1, 3) { None } else { Some(*r.pick(&vars)) };
                    let distinct = arg.is_some() && r.chance(1, 3);
                    let gb: Vec<usize> = if vars.is_empty() || r.chance(1, 2) { vec![] } else { vec![*r.pick(&vars)] };
                    let mut keys = gb.clone();
                    keys.push(alias);
                    let order: Vec<(usize, bool)> = if r.chance(1, 4) { keys.iter().map(|v| (*v, r.chance(1, 3))).collect() } else { vec![] };
                    let lim = if !order.is_empty() && want_lim { Some(r.below(4)) } else { None };
                    let q = format!(
                        "{};{};{};{};{};-;{};{}",
                        if distinct { 1 } else { 0 },
                        arg.map(|v| v.to_string()).unwrap_or("*".into()),
                        alias,
                        if gb.is_empty() { "-".into() } else { join(&gb) },
                        order_arg(&order),
                        lim.map(|x| x.to_string()).unwrap_or("-".into()),
                        grp_tok(&grp)
                    );
                    out.push(format!("sparql cnt {} {}", head, q));
                }
                _ => {
                    // an update, observed by a dump of the store and by `SELECT *`
                    let ground = |r: &mut Rng, data: &[(usize, usize, usize)]| -> TP {
                        let t = if !data.is_empty() && r.chance(2, 3) {
                            *r.pick(data)
                        } else {
                            (*r.pick(&[0usize, 1, 3, 13, 6]), *r.pick(&[2usize, 3, 14, 6]), *r.pick(&[0usize, 1, 3, 6, 7, 9, 10, 11, 12, 19, 22]))
                        };
                        // blank nodes cannot be written as constants
                        let fix = |c: usize| if is_blank(c) { 0 } else { c };
                        [PT::Const(fix(t.0)), PT::Const(fix(t.1)), PT::Const(fix(t.2))]
                    };
                    let u = match r.below(10) {
                        0 | 1 => format!("ID[{}]", tps_tok(&(0..r.range(1, 3)).map(|_| ground(&mut r, &data)).collect::<Vec<_>>())),
                        2 | 3 => format!("DD[{}]", tps_tok(&(0..r.range(1, 3)).map(|_| ground(&mut r, &data)).collect::<Vec<_>>())),
                        4 | 5 => {
                            let k = r.range(1, 2);
                            let ts: Vec<TP> = (0..k).map(|_| if r.chance(1, 8) { ground(&mut r, &data) } else { g.tp(true) }).collect();
                            format!("DW[{}]", tps_tok(&ts))
                        }
                        _ => {
                            let mut grp = g.group(1);
                            if has_optional(&grp) || has_filter(&grp) {
                                g.index_ordered(&mut grp);
                            }
                                    let mut vars = vec![];
                            grp_vars(&grp, &mut vars);
                            let mut tmpl = |gg: &mut Gen, r: &mut Rng| -> Vec<TP> {
                                (0..r.range(1, 2))
                                    .map(|_| {
                                        let mut t = gg.tp(false);
                                        // template variables mostly from the pattern
                                        for p in t.iter_mut() {
                                            if let PT::Var(_) = p {
                                                if !vars.is_empty() && r.chance(9, 10) {
                                                    *p = PT::Var(*r.pick(&vars));
                                                }
                                            }
                                        }
                                        t
                                    })
                                    .collect()
                            };
                            let (d, i) = match r.below(3) {
                                0 => (tmpl(&mut g, &mut r), vec![]),
                                1 => (vec![], tmpl(&mut g, &mut r)),
                                _ => (tmpl(&mut g, &mut r), tmpl(&mut g, &mut r)),
                            };
                            format!("MO[{}][{}]{{{}}}", tps_tok(&d), tps_tok(&i), grp_tok(&grp))
                        }
                    };
                    out.push(format!("sparql upd {} {}", head, u));
                }
            }
        }
    }
}
