//! Stream `sparql` — probe version.
#![allow(unused)]
use crate::rdf::term;
use crate::util::*;
use grafeo_common::types::Value;
use grafeo_core::graph::rdf::{RdfStore, RdfStoreConfig, Term, Triple};
use grafeo_engine::database::GrafeoDB;
use grafeo_engine::query::{Executor, Optimizer, RdfPlanner};
use std::sync::Arc;

pub fn generate(_seed: u64, _cases: usize, _out: &mut Vec<String>) {}

fn parse_triples(s: &str) -> Vec<(usize, usize, usize)> {
    if s == "-" {
        return vec![];
    }
    s.split(',')
        .map(|t| {
            let p: Vec<usize> = t.split('.').map(|x| x.parse().unwrap()).collect();
            (p[0], p[1], p[2])
        })
        .collect()
}

fn cell(v: &Value) -> String {
    match v {
        Value::Null => "~".into(),
        Value::String(s) => format!("[{}]", s),
        other => format!("{:?}", other),
    }
}

pub fn run(args: &[&str]) -> String {
    let a = args.to_vec();
    guarded(move || match a.as_slice() {
        ["raw", io, ts, hexq] => {
            let q = String::from_utf8(unhex(hexq).unwrap()).unwrap();
            let db = GrafeoDB::new_in_memory();
            let store: Arc<RdfStore> = if *io == "1" {
                Arc::clone(db.rdf_store())
            } else {
                Arc::new(RdfStore::with_config(RdfStoreConfig { initial_capacity: 16, index_objects: false }))
            };
            for (s, p, o) in parse_triples(ts) {
                store.insert(Triple::new(term(s), term(p), term(o)));
            }
            let res = if *io == "1" {
                db.session().execute_sparql(&q)
            } else {
                (|| {
                    let lp = grafeo_engine::query::translate_sparql(&q)?;
                    let before = format!("{:?}", lp.root);
                    let opt = Optimizer::new().optimize(lp)?;
                    if format!("{:?}", opt.root) != before {
                        println!("# OPTIMIZER CHANGED PLAN");
                    }
                    let mut pp = RdfPlanner::new(Arc::clone(&store)).plan(&opt)?;
                    Executor::with_columns(pp.columns.clone()).execute(pp.operator.as_mut())
                })()
            };
            let mut out = match res {
                Ok(r) => format!(
                    "cols={} rows={}",
                    r.columns.join(","),
                    r.rows.iter().map(|row| row.iter().map(cell).collect::<Vec<_>>().join(",")).collect::<Vec<_>>().join(" | ")
                ),
                Err(e) => format!("ERR {}", e.to_string().lines().next().unwrap_or("")),
            };
            let mut ts: Vec<String> = store.triples().iter().map(|t| format!("{} {} {}", t.subject(), t.predicate(), t.object())).collect();
            ts.sort();
            out += &format!("   STORE: {}", ts.join(" . "));
            out
        }
        _ => "bad-op".into(),
    })
}
