//! Stream `conc` — multi-step store operations under a forced thread interleaving (C20).
//!
//!   conc rdf <index_objects 0|1> <progs> <sched>
//!       → res=<per thread 1/0 string>;… triples=<sorted s.p.o list> idx=<ok|torn>
//!   conc rdf.inv <same>   → ok | torn      (the property's verdict on the same run)
//!
//!   progs = thread programs separated by `;`, ops by `,`:  i<s>.<p>.<o> insert, r<s>.<p>.<o> remove; `-` = empty
//!   sched = comma separated worker indices (`-` = empty); afterwards every worker runs to completion
use crate::rdf::{N_TERMS, code_of, term};
use crate::sched::run_schedule;
use crate::util::*;
use grafeo_core::graph::rdf::{RdfStore, RdfStoreConfig, Triple, TriplePattern};
use std::sync::{Arc, Mutex};

#[derive(Clone, Debug)]
enum ROp {
    Ins(usize, usize, usize),
    Rem(usize, usize, usize),
}

fn parse_rprogs(s: &str) -> Option<Vec<Vec<ROp>>> {
    s.split(';')
        .map(|p| {
            if p == "-" || p.is_empty() {
                return Some(vec![]);
            }
            p.split(',')
                .map(|o| {
                    let (k, rest) = o.split_at(1);
                    let v: Vec<usize> = rest.split('.').map(|x| x.parse().ok()).collect::<Option<_>>()?;
                    if v.len() != 3 {
                        return None;
                    }
                    match k {
                        "i" => Some(ROp::Ins(v[0], v[1], v[2])),
                        "r" => Some(ROp::Rem(v[0], v[1], v[2])),
                        _ => None,
                    }
                })
                .collect()
        })
        .collect()
}

fn triple(s: usize, p: usize, o: usize) -> Triple {
    Triple::new(term(s), term(p), term(o))
}

fn codes(t: &Triple) -> (usize, usize, usize) {
    (code_of(t.subject()), code_of(t.predicate()), code_of(t.object()))
}

/// do the three indexes agree with the primary set (as multisets)?
fn rdf_consistent(store: &RdfStore, index_objects: bool) -> bool {
    let mut all: Vec<(usize, usize, usize)> = store.triples().iter().map(|t| codes(t)).collect();
    all.sort_unstable();
    for c in 0..(N_TERMS as usize + 4) {
        let k = term(c);
        let mut ws: Vec<_> = store.triples_with_subject(&k).iter().map(|t| codes(t)).collect();
        ws.sort_unstable();
        let want: Vec<_> = all.iter().filter(|t| t.0 == c).cloned().collect();
        if ws != want {
            return false;
        }
        let mut wp: Vec<_> = store.triples_with_predicate(&k).iter().map(|t| codes(t)).collect();
        wp.sort_unstable();
        let want: Vec<_> = all.iter().filter(|t| t.1 == c).cloned().collect();
        if wp != want {
            return false;
        }
        if index_objects {
            let mut wo: Vec<_> = store.triples_with_object(&k).iter().map(|t| codes(t)).collect();
            wo.sort_unstable();
            let want: Vec<_> = all.iter().filter(|t| t.2 == c).cloned().collect();
            if wo != want {
                return false;
            }
        }
    }
    let st = store.stats();
    st.triple_count == all.len()
}

fn run_rdf(index_objects: bool, progs: Vec<Vec<ROp>>, sched: &[usize]) -> Result<(Vec<String>, String, bool), String> {
    let store = Arc::new(RdfStore::with_config(RdfStoreConfig { index_objects, ..Default::default() }));
    let n = progs.len();
    let results: Arc<Mutex<Vec<String>>> = Arc::new(Mutex::new(vec![String::new(); n]));
    let (st2, res2) = (Arc::clone(&store), Arc::clone(&results));
    let progs = Arc::new(progs);
    let body = move |tid: usize| {
        for (i, op) in progs[tid].iter().enumerate() {
            if i > 0 {
                grafeo_common::verif::yield_point("conc.op");
            }
            let b = match op {
                ROp::Ins(s, p, o) => st2.insert(triple(*s, *p, *o)),
                ROp::Rem(s, p, o) => st2.remove(&triple(*s, *p, *o)),
            };
            res2.lock().unwrap()[tid].push(if b { '1' } else { '0' });
        }
    };
    run_schedule(n, sched, body, || {})?;
    let mut all: Vec<(usize, usize, usize)> = store.triples().iter().map(|t| codes(t)).collect();
    all.sort_unstable();
    let ts = if all.is_empty() { "-".to_string() } else { all.iter().map(|(a, b, c)| format!("{}.{}.{}", a, b, c)).collect::<Vec<_>>().join(",") };
    let res = results.lock().unwrap().iter().map(|s| if s.is_empty() { "-".to_string() } else { s.clone() }).collect();
    Ok((res, ts, rdf_consistent(&store, index_objects)))
}

pub fn generate(seed: u64, cases: usize, out: &mut Vec<String>) {
    let mut r = Rng::new(seed ^ 0x636f6e63);
    for c in 0..cases {
        out.push(format!("# case {} seed {}", c, seed));
        let io = if r.chance(2, 3) { 1 } else { 0 };
        let nthreads = r.range(2, 4) as usize;
        // few distinct triples so that threads collide on the same triple and the same index keys
        let pool: Vec<(u64, u64, u64)> = vec![(0, 2, 3), (0, 2, 6), (1, 2, 3), (0, 3, 3)];
        let np = r.range(1, 4) as usize;
        let mut progs = Vec::new();
        let mut steps = 0u64;
        for _ in 0..nthreads {
            let nops = r.range(1, 5);
            let ops: Vec<String> = (0..nops)
                .map(|_| {
                    let (s, p, o) = pool[r.below(np as u64) as usize];
                    steps += 3;
                    format!("{}{}.{}.{}", if r.chance(3, 5) { "i" } else { "r" }, s, p, o)
                })
                .collect();
            progs.push(ops.join(","));
        }
        let sched: Vec<usize> = (0..r.below(steps + 1)).map(|_| r.below(nthreads as u64) as usize).collect();
        let (p, s) = (progs.join(";"), list_arg(&sched));
        out.push(format!("conc rdf {} {} {}", io, p, s));
        out.push(format!("conc rdf.inv {} {} {}", io, p, s));
    }
}

pub fn run(args: &[&str]) -> String {
    let a: Vec<String> = args.iter().map(|s| s.to_string()).collect();
    guarded(move || {
        let a: Vec<&str> = a.iter().map(|s| s.as_str()).collect();
        match a.as_slice() {
            [kind @ ("rdf" | "rdf.inv"), io, progs, sched] => {
                let (Some(progs), Some(sched)) = (parse_rprogs(progs), parse_u64s(sched)) else {
                    return "bad-op".to_string();
                };
                let sched: Vec<usize> = sched.iter().map(|x| *x as usize).collect();
                match run_rdf(*io == "1", progs, &sched) {
                    Err(e) => format!("stuck:{}", e.replace(' ', "_")),
                    Ok((res, ts, ok)) => {
                        if *kind == "rdf" {
                            format!("res={} triples={} idx={}", res.join(";"), ts, if ok { "ok" } else { "torn" })
                        } else if ok {
                            "ok".to_string()
                        } else {
                            "torn".to_string()
                        }
                    }
                }
            }
            _ => "bad-op".into(),
        }
    })
}
