//! Stream `conc` — multi-step store operations under a forced thread interleaving (C20).
//!
//!   conc rdf <index_objects 0|1> <progs> <sched>
//!       → res=<per thread 1/0 string>;… triples=<sorted s.p.o list> idx=<ok|torn>
//!   conc rdf.inv <same>   → ok | torn      (the property's verdict on the same run)
//!
//!   conc lpg <n0> <progs> <sched>
//!       → res=<per thread results>;… nodes=<id><L|D>:<labels>:<k=v&…>;… lidx=<label>:<ids>;… pidx=<value>:<ids>;…
//!   conc lpg.inv <same>   → ok | torn
//!       the store starts with n0 unlabelled nodes, every label L0..L2 in the catalog, an index on k0
//!       ops: c<l.l…> create_node, d<id> delete_node, a<id>.<l> add_label, r<id>.<l> remove_label,
//!            p<id>.<key>=<valtok> set_node_property, q<id>.<key> remove_node_property
//!
//!   progs = thread programs separated by `;`, ops by `,`:  i<s>.<p>.<o> insert, r<s>.<p>.<o> remove; `-` = empty
//!   sched = comma separated worker indices (`-` = empty); afterwards every worker runs to completion
use crate::rdf::{N_TERMS, code_of, term};
use crate::sched::run_schedule;
use crate::util::*;
use grafeo_common::types::{NodeId, Value};
use grafeo_core::graph::lpg::LpgStore;
use grafeo_core::graph::rdf::{RdfStore, RdfStoreConfig, Triple, TriplePattern};
use std::sync::{Arc, Mutex};

#[derive(Clone, Debug)]
enum ROp {
    Ins(usize, usize, usize),
    Rem(usize, usize, usize),
}

fn parse_rprogs(s: &str) -> Option<Vec<Vec<ROp>>> {
    s.split(';')
        .map(|p| {
            if p == "-" || p.is_empty() {
                return Some(vec![]);
            }
            p.split(',')
                .map(|o| {
                    let (k, rest) = o.split_at(1);
                    let v: Vec<usize> = rest.split('.').map(|x| x.parse().ok()).collect::<Option<_>>()?;
                    if v.len() != 3 {
                        return None;
                    }
                    match k {
                        "i" => Some(ROp::Ins(v[0], v[1], v[2])),
                        "r" => Some(ROp::Rem(v[0], v[1], v[2])),
                        _ => None,
                    }
                })
                .collect()
        })
        .collect()
}

fn triple(s: usize, p: usize, o: usize) -> Triple {
    Triple::new(term(s), term(p), term(o))
}

fn codes(t: &Triple) -> (usize, usize, usize) {
    (code_of(t.subject()), code_of(t.predicate()), code_of(t.object()))
}

/// do the three indexes agree with the primary set (as multisets)?
fn rdf_consistent(store: &RdfStore, index_objects: bool) -> bool {
    let mut all: Vec<(usize, usize, usize)> = store.triples().iter().map(|t| codes(t)).collect();
    all.sort_unstable();
    for c in 0..(N_TERMS as usize + 4) {
        let k = term(c);
        let mut ws: Vec<_> = store.triples_with_subject(&k).iter().map(|t| codes(t)).collect();
        ws.sort_unstable();
        let want: Vec<_> = all.iter().filter(|t| t.0 == c).cloned().collect();
        if ws != want {
            return false;
        }
        let mut wp: Vec<_> = store.triples_with_predicate(&k).iter().map(|t| codes(t)).collect();
        wp.sort_unstable();
        let want: Vec<_> = all.iter().filter(|t| t.1 == c).cloned().collect();
        if wp != want {
            return false;
        }
        if index_objects {
            let mut wo: Vec<_> = store.triples_with_object(&k).iter().map(|t| codes(t)).collect();
            wo.sort_unstable();
            let want: Vec<_> = all.iter().filter(|t| t.2 == c).cloned().collect();
            if wo != want {
                return false;
            }
        }
    }
    let st = store.stats();
    st.triple_count == all.len()
}

fn run_rdf(index_objects: bool, progs: Vec<Vec<ROp>>, sched: &[usize]) -> Result<(Vec<String>, String, bool), String> {
    let store = Arc::new(RdfStore::with_config(RdfStoreConfig { index_objects, ..Default::default() }));
    let n = progs.len();
    let results: Arc<Mutex<Vec<String>>> = Arc::new(Mutex::new(vec![String::new(); n]));
    let (st2, res2) = (Arc::clone(&store), Arc::clone(&results));
    let progs = Arc::new(progs);
    let body = move |tid: usize| {
        for (i, op) in progs[tid].iter().enumerate() {
            if i > 0 {
                grafeo_common::verif::yield_point("conc.op");
            }
            let b = match op {
                ROp::Ins(s, p, o) => st2.insert(triple(*s, *p, *o)),
                ROp::Rem(s, p, o) => st2.remove(&triple(*s, *p, *o)),
            };
            res2.lock().unwrap()[tid].push(if b { '1' } else { '0' });
        }
    };
    run_schedule(n, sched, body, || {})?;
    let mut all: Vec<(usize, usize, usize)> = store.triples().iter().map(|t| codes(t)).collect();
    all.sort_unstable();
    let ts = if all.is_empty() { "-".to_string() } else { all.iter().map(|(a, b, c)| format!("{}.{}.{}", a, b, c)).collect::<Vec<_>>().join(",") };
    let res = results.lock().unwrap().iter().map(|s| if s.is_empty() { "-".to_string() } else { s.clone() }).collect();
    Ok((res, ts, rdf_consistent(&store, index_objects)))
}

// ------------------------------------------------------------------------------------ conc lpg

#[derive(Clone, Debug)]
enum LOp {
    Create(Vec<usize>),
    Delete(u64),
    AddLabel(u64, usize),
    RemLabel(u64, usize),
    SetProp(u64, usize, String),
    RemProp(u64, usize),
}

fn parse_lprogs(s: &str) -> Option<Vec<Vec<LOp>>> {
    s.split(';')
        .map(|p| {
            if p == "-" || p.is_empty() {
                return Some(vec![]);
            }
            p.split(',')
                .map(|o| {
                    let (k, rest) = o.split_at(1);
                    let nums = |t: &str| -> Option<Vec<u64>> { t.split('.').map(|x| x.parse().ok()).collect() };
                    match k {
                        "c" => {
                            if rest.is_empty() {
                                Some(LOp::Create(vec![]))
                            } else {
                                Some(LOp::Create(nums(rest)?.into_iter().map(|x| x as usize).collect()))
                            }
                        }
                        "d" => Some(LOp::Delete(rest.parse().ok()?)),
                        "a" => {
                            let v = nums(rest)?;
                            if v.len() == 2 { Some(LOp::AddLabel(v[0], v[1] as usize)) } else { None }
                        }
                        "r" => {
                            let v = nums(rest)?;
                            if v.len() == 2 { Some(LOp::RemLabel(v[0], v[1] as usize)) } else { None }
                        }
                        "p" => {
                            let (ik, val) = rest.split_once('=')?;
                            let v = nums(ik)?;
                            if v.len() == 2 { Some(LOp::SetProp(v[0], v[1] as usize, val.to_string())) } else { None }
                        }
                        "q" => {
                            let v = nums(rest)?;
                            if v.len() == 2 { Some(LOp::RemProp(v[0], v[1] as usize)) } else { None }
                        }
                        _ => None,
                    }
                })
                .collect()
        })
        .collect()
}

const N_LABELS: usize = 3;
const PVALS: [&str; 3] = ["I1", "I2", "S61"];

fn lpg_dump(store: &LpgStore, max_id: u64) -> (String, bool) {
    use grafeo_common::types::PropertyKey;
    let live: Vec<u64> = store.node_ids().iter().map(|n| n.as_u64()).collect();
    let mut nodes = Vec::new();
    let mut ok = true;
    let mut labels_of: Vec<Vec<usize>> = Vec::new();
    for id in 0..max_id {
        let nid = NodeId::new(id);
        let is_live = live.contains(&id);
        // labels through the node (live) — a dead node shows what the side table still holds via the label index only
        let mut ls: Vec<usize> = Vec::new();
        if let Some(n) = store.get_node(nid) {
            for l in n.labels.iter() {
                if let Some(c) = l.as_str().strip_prefix('L').and_then(|x| x.parse().ok()) {
                    ls.push(c);
                }
            }
        }
        ls.sort_unstable();
        let mut ps: Vec<(usize, String)> = Vec::new();
        for k in 0..3usize {
            if let Some(v) = store.get_node_property(nid, &PropertyKey::new(format!("k{}", k))) {
                ps.push((k, crate::vals::tok(&v)));
            }
        }
        nodes.push(format!(
            "{}{}:{}:{}",
            id,
            if is_live { "L" } else { "D" },
            ls.iter().map(|x| x.to_string()).collect::<Vec<_>>().join(","),
            ps.iter().map(|(k, v)| format!("{}={}", k, v)).collect::<Vec<_>>().join("&")
        ));
        labels_of.push(ls);
    }
    let mut lidx = Vec::new();
    for l in 0..N_LABELS {
        let mut ids: Vec<u64> = store.nodes_by_label(&format!("L{}", l)).iter().map(|n| n.as_u64()).collect();
        ids.sort_unstable();
        let scan: Vec<u64> = (0..max_id).filter(|id| live.contains(id) && labels_of[*id as usize].contains(&l)).collect();
        let mut dedup = ids.clone();
        dedup.dedup();
        if ids != scan || dedup.len() != ids.len() {
            ok = false;
        }
        lidx.push(format!("{}:{}", l, ids.iter().map(|x| x.to_string()).collect::<Vec<_>>().join(",")));
    }
    let mut pidx = Vec::new();
    for v in PVALS.iter() {
        let mut ids: Vec<u64> = store.find_nodes_by_property("k0", &crate::vals::untok(v)).iter().map(|n| n.as_u64()).collect();
        ids.sort_unstable();
        pidx.push(format!("{}:{}", v, ids.iter().map(|x| x.to_string()).collect::<Vec<_>>().join(",")));
    }
    (format!("nodes={} lidx={} pidx={}", nodes.join(";"), lidx.join(";"), pidx.join(";")), ok)
}

fn run_lpg(n0: usize, progs: Vec<Vec<LOp>>, sched: &[usize]) -> Result<(Vec<String>, String, bool), String> {
    let store = Arc::new(LpgStore::new());
    // every label into the catalog (a node that is deleted again would keep its id: use node 0.. then strip)
    for _ in 0..n0 {
        store.create_node(&[]);
    }
    // register the labels without leaving a labelled node behind
    if n0 > 0 {
        for l in 0..N_LABELS {
            store.add_label(NodeId::new(0), &format!("L{}", l));
            store.remove_label(NodeId::new(0), &format!("L{}", l));
        }
    }
    store.create_property_index("k0");
    let n = progs.len();
    // ids handed out at the end: the initial nodes plus one per create (every operation runs)
    let max_id = n0 as u64 + progs.iter().flatten().filter(|o| matches!(o, LOp::Create(_))).count() as u64;
    let results: Arc<Mutex<Vec<Vec<String>>>> = Arc::new(Mutex::new(vec![Vec::new(); n]));
    let (st2, res2) = (Arc::clone(&store), Arc::clone(&results));
    let progs = Arc::new(progs);
    let body = move |tid: usize| {
        for (i, op) in progs[tid].iter().enumerate() {
            if i > 0 {
                grafeo_common::verif::yield_point("conc.op");
            }
            let r = match op {
                LOp::Create(ls) => {
                    let names: Vec<String> = ls.iter().map(|l| format!("L{}", l)).collect();
                    let refs: Vec<&str> = names.iter().map(|x| x.as_str()).collect();
                    st2.create_node(&refs).as_u64().to_string()
                }
                LOp::Delete(id) => (if st2.delete_node(NodeId::new(*id)) { "1" } else { "0" }).to_string(),
                LOp::AddLabel(id, l) => (if st2.add_label(NodeId::new(*id), &format!("L{}", l)) { "1" } else { "0" }).to_string(),
                LOp::RemLabel(id, l) => (if st2.remove_label(NodeId::new(*id), &format!("L{}", l)) { "1" } else { "0" }).to_string(),
                LOp::SetProp(id, k, v) => {
                    st2.set_node_property(NodeId::new(*id), &format!("k{}", k), crate::vals::untok(v));
                    "-".to_string()
                }
                LOp::RemProp(id, k) => (if st2.remove_node_property(NodeId::new(*id), &format!("k{}", k)).is_some() { "1" } else { "0" }).to_string(),
            };
            res2.lock().unwrap()[tid].push(r);
        }
    };
    run_schedule(n, sched, body, || {})?;
    let (dump, ok) = lpg_dump(&store, max_id);
    let res = results.lock().unwrap().iter().map(|v| if v.is_empty() { "-".to_string() } else { v.join(",") }).collect();
    Ok((res, dump, ok))
}

fn gen_lpg(r: &mut Rng, out: &mut Vec<String>) {
    let n0 = r.range(1, 4) as usize;
    let nthreads = r.range(2, 4) as usize;
    let mut progs = Vec::new();
    let mut steps = 0u64;
    for _ in 0..nthreads {
        let nops = r.range(1, 5);
        let ops: Vec<String> = (0..nops)
            .map(|_| {
                // ids: mostly the initial nodes (contention), sometimes one that a create may hand out
                let id = if r.chance(4, 5) { r.below(n0 as u64) } else { n0 as u64 + r.below(2) };
                let l = r.below(N_LABELS as u64);
                steps += 5;
                match r.below(10) {
                    0 => format!("c{}", l),
                    1 => "c".to_string(),
                    2 => format!("c{}.{}", l, (l + 1) % N_LABELS as u64),
                    3 | 4 => format!("d{}", id),
                    5 | 6 => format!("a{}.{}", id, l),
                    7 => format!("r{}.{}", id, l),
                    8 => format!("p{}.{}={}", id, r.below(2), r.pick(&PVALS)),
                    _ => format!("q{}.{}", id, r.below(2)),
                }
            })
            .collect();
        progs.push(ops.join(","));
    }
    let sched: Vec<usize> = (0..r.below(steps + 1)).map(|_| r.below(nthreads as u64) as usize).collect();
    let (p, s) = (progs.join(";"), list_arg(&sched));
    out.push(format!("conc lpg {} {} {}", n0, p, s));
    out.push(format!("conc lpg.inv {} {} {}", n0, p, s));
}

pub fn generate(seed: u64, cases: usize, out: &mut Vec<String>) {
    let mut r = Rng::new(seed ^ 0x636f6e63);
    for c in 0..cases {
        out.push(format!("# case {} seed {}", c, seed));
        gen_lpg(&mut r, out);
        let io = if r.chance(2, 3) { 1 } else { 0 };
        let nthreads = r.range(2, 4) as usize;
        // few distinct triples so that threads collide on the same triple and the same index keys
        let pool: Vec<(u64, u64, u64)> = vec![(0, 2, 3), (0, 2, 6), (1, 2, 3), (0, 3, 3)];
        let np = r.range(1, 4) as usize;
        let mut progs = Vec::new();
        let mut steps = 0u64;
        for _ in 0..nthreads {
            let nops = r.range(1, 5);
            let ops: Vec<String> = (0..nops)
                .map(|_| {
                    let (s, p, o) = pool[r.below(np as u64) as usize];
                    steps += 3;
                    format!("{}{}.{}.{}", if r.chance(3, 5) { "i" } else { "r" }, s, p, o)
                })
                .collect();
            progs.push(ops.join(","));
        }
        let sched: Vec<usize> = (0..r.below(steps + 1)).map(|_| r.below(nthreads as u64) as usize).collect();
        let (p, s) = (progs.join(";"), list_arg(&sched));
        out.push(format!("conc rdf {} {} {}", io, p, s));
        out.push(format!("conc rdf.inv {} {} {}", io, p, s));
    }
}

pub fn run(args: &[&str]) -> String {
    let a: Vec<String> = args.iter().map(|s| s.to_string()).collect();
    guarded(move || {
        let a: Vec<&str> = a.iter().map(|s| s.as_str()).collect();
        match a.as_slice() {
            [kind @ ("rdf" | "rdf.inv"), io, progs, sched] => {
                let (Some(progs), Some(sched)) = (parse_rprogs(progs), parse_u64s(sched)) else {
                    return "bad-op".to_string();
                };
                let sched: Vec<usize> = sched.iter().map(|x| *x as usize).collect();
                match run_rdf(*io == "1", progs, &sched) {
                    Err(e) => format!("stuck:{}", e.replace(' ', "_")),
                    Ok((res, ts, ok)) => {
                        if *kind == "rdf" {
                            format!("res={} triples={} idx={}", res.join(";"), ts, if ok { "ok" } else { "torn" })
                        } else if ok {
                            "ok".to_string()
                        } else {
                            "torn".to_string()
                        }
                    }
                }
            }
            [kind @ ("lpg" | "lpg.inv"), n0, progs, sched] => {
                let (Ok(n0), Some(progs), Some(sched)) = (n0.parse::<usize>(), parse_lprogs(progs), parse_u64s(sched)) else {
                    return "bad-op".to_string();
                };
                let sched: Vec<usize> = sched.iter().map(|x| *x as usize).collect();
                match run_lpg(n0, progs, &sched) {
                    Err(e) => format!("stuck:{}", e.replace(' ', "_")),
                    Ok((res, dump, ok)) => {
                        if *kind == "lpg" {
                            format!("res={} {}", res.join(";"), dump)
                        } else if ok {
                            "ok".to_string()
                        } else {
                            "torn".to_string()
                        }
                    }
                }
            }
            _ => "bad-op".into(),
        }
    })
}
