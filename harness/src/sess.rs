//! Stream `sess` — sessions over one in-memory GrafeoDB (C01, C02).
use crate::util::*;
use grafeo_common::types::{EdgeId, NodeId, Value};
use grafeo_common::utils::error::{Error, TransactionError};
use grafeo_engine::database::GrafeoDB;
use grafeo_engine::session::Session;
use grafeo_engine::transaction::IsolationLevel;
use std::collections::BTreeMap;

pub struct SessSt {
    db: GrafeoDB,
    sessions: BTreeMap<u64, Session>,
}

impl SessSt {
    pub fn new() -> Self {
        SessSt { db: GrafeoDB::new_in_memory(), sessions: BTreeMap::new() }
    }
}

pub fn generate(seed: u64, cases: usize, out: &mut Vec<String>) {
    let mut r = Rng::new(seed ^ 0x73657373);
    for c in 0..cases {
        out.push(format!("# case {} seed {}", c, seed));
        out.push("sess new".into());
        let nsess = r.range(2, 4);
        let len = r.range(6, 45);
        let mut nn = 0u64;
        let mut ne = 0u64;
        // 0-3 pre-committed nodes
        for _ in 0..r.below(4) {
            if r.chance(1, 2) {
                out.push(format!("sess dbcn {}", r.below(3)));
            } else {
                out.push(format!("sess cn 0 {}", r.below(3)));
            }
            nn += 1;
        }
        let reads = |r: &mut Rng, out: &mut Vec<String>, k: u64, nn: u64, ne: u64| {
            match r.below(7) {
                0 => out.push(format!("sess scan {}", k)),
                1 | 2 => out.push(format!("sess scanl {} {}", k, r.below(3))),
                3 => out.push(format!("sess gn {} {}", k, if nn == 0 { 0 } else { r.below(nn + 1) })),
                4 => {
                    let n = if nn == 0 { 0 } else { r.below(nn) };
                    match r.below(4) {
                        0 => out.push(format!("sess out {} {}", k, n)),
                        1 => out.push(format!("sess in {} {}", k, n)),
                        2 => {
                            if r.chance(1, 3) {
                                out.push(format!("sess qsp {} {} {}", k, r.below(3), r.below(3)));
                            } else {
                                out.push(format!("sess qexp {} {} {} -", k, n, r.pick(&["o", "i"])));
                            }
                        }
                        _ => out.push(format!("sess qexp {} {} {} {}", k, n, r.pick(&["o", "i"]), r.below(2))),
                    }
                }
                5 => out.push(format!("sess ge {} {}", k, if ne == 0 { 0 } else { r.below(ne + 1) })),
                _ => out.push("sess count".into()),
            }
        };
        for _ in 0..len {
            let k = r.below(nsess);
            match r.below(100) {
                0..=14 => out.push(format!("sess begin {} {}", k, r.pick(&["si", "si", "ser", "rc"]))),
                15..=26 => out.push(format!("sess commit {}", k)),
                27..=33 => out.push(format!("sess rollback {}", k)),
                34..=52 => {
                    out.push(format!("sess cn {} {}", k, list_arg(&(0..r.below(3)).map(|_| r.below(3)).collect::<Vec<_>>())));
                    nn += 1;
                }
                53..=60 => {
                    if nn > 0 {
                        out.push(format!("sess ce {} {} {} {}", k, r.below(nn), r.below(nn), r.below(2)));
                        ne += 1;
                    }
                }
                61..=64 => {
                    out.push(format!("sess dbcn {}", r.below(3)));
                    nn += 1;
                }
                65..=70 => {
                    out.push(format!("sess qcn {} {}", k, list_arg(&(0..r.below(3)).map(|_| r.below(3)).collect::<Vec<_>>())));
                    nn += 1;
                }
                71..=74 => {
                    if nn > 0 {
                        out.push(format!("sess qce {} {} {} {}", k, r.below(nn), r.below(2), r.below(3)));
                        // ids stay dense only if the match succeeds; later ops draw from the lower bound
                    }
                }
                75..=79 => {
                    if nn > 0 {
                        out.push(format!("sess qset {} {} {} I{}", k, r.below(nn), r.below(2), r.below(4)));
                    }
                }
                80..=81 => {
                    if nn > 0 {
                        let op = if r.chance(1, 2) { "qlab" } else { "qunlab" };
                        out.push(format!("sess {} {} {} {}", op, k, r.below(nn), r.below(3)));
                    }
                }
                82..=83 => {
                    if nn > 0 {
                        out.push(format!("sess qdel {} {}", k, r.below(nn)));
                    }
                }
                84 => {
                    if ne > 0 {
                        out.push(format!("sess qdele {} {}", k, r.below(ne)));
                    }
                }
                85..=87 => {
                    out.push(format!("sess qmerge {} {}", k, r.below(3)));
                    nn += 1;
                }
                _ => reads(&mut r, out, k, nn, ne),
            }
            // a read by some session after (almost) every step
            if r.chance(2, 3) {
                let k2 = r.below(nsess);
                reads(&mut r, out, k2, nn, ne);
            }
        }
        // quiesce: end every transaction, then everybody reads everything
        for k in 0..nsess {
            if r.chance(1, 2) {
                out.push(format!("sess commit {}", k));
            } else {
                out.push(format!("sess rollback {}", k));
            }
        }
        for k in 0..nsess {
            out.push(format!("sess scan {}", k));
            for l in 0..3 {
                out.push(format!("sess scanl {} {}", k, l));
            }
        }
        for n in 0..nn.min(10) {
            out.push(format!("sess gn 0 {}", n));
            out.push(format!("sess out 0 {}", n));
            out.push(format!("sess in 0 {}", n));
        }
        out.push(format!("sess adj {}", nn.min(12)));
        out.push("sess count".into());
    }
}

fn rstr(r: Result<(), Error>) -> String {
    match r {
        Ok(()) => "ok".into(),
        Err(Error::Transaction(TransactionError::InvalidState(_))) => "err:invalid".into(),
        Err(Error::Transaction(TransactionError::WriteConflict(_))) => "err:conflict".into(),
        Err(Error::Transaction(TransactionError::SerializationFailure(_))) => "err:serialization".into(),
        Err(_) => "err:other".into(),
    }
}

fn code(s: &str) -> u64 {
    s[1..].parse().unwrap()
}

fn ids_of_rows(rows: &[Vec<Value>]) -> String {
    let mut v: Vec<u64> = rows
        .iter()
        .map(|r| match &r[0] {
            Value::Int64(i) => *i as u64,
            other => panic!("unexpected id value {:?}", other),
        })
        .collect();
    v.sort_unstable();
    if v.is_empty() { "-".into() } else { join(&v) }
}

pub fn run(st: &mut SessSt, args: &[&str]) -> String {
    let a = args.to_vec();
    guarded(move || {
        let sess = |st: &mut SessSt, k: &str| -> u64 {
            let k: u64 = k.parse().unwrap();
            if !st.sessions.contains_key(&k) {
                let s = st.db.session();
                st.sessions.insert(k, s);
            }
            k
        };
        match a.as_slice() {
            ["new"] => {
                *st = SessSt::new();
                "-".into()
            }
            ["begin", k, iso] => {
                let k = sess(st, k);
                let lvl = match *iso {
                    "rc" => IsolationLevel::ReadCommitted,
                    "si" => IsolationLevel::SnapshotIsolation,
                    _ => IsolationLevel::Serializable,
                };
                rstr(st.sessions.get_mut(&k).unwrap().begin_tx_with_isolation(lvl))
            }
            ["commit", k] => {
                let k = sess(st, k);
                rstr(st.sessions.get_mut(&k).unwrap().commit())
            }
            ["rollback", k] => {
                let k = sess(st, k);
                rstr(st.sessions.get_mut(&k).unwrap().rollback())
            }
            ["cn", k, ls] => {
                let k = sess(st, k);
                let labels: Vec<String> = parse_u64s(ls).unwrap().iter().map(|c| format!("L{}", c)).collect();
                let refs: Vec<&str> = labels.iter().map(|x| x.as_str()).collect();
                format!("{}", st.sessions[&k].create_node(&refs).as_u64())
            }
            ["ce", k, s, d, t] => {
                let k = sess(st, k);
                format!(
                    "{}",
                    st.sessions[&k]
                        .create_edge(NodeId::new(s.parse().unwrap()), NodeId::new(d.parse().unwrap()), &format!("T{}", t))
                        .as_u64()
                )
            }
            // the same two mutations issued as query text (CreateNodeOperator / CreateEdgeOperator)
            ["qcn", k, ls] => {
                let k = sess(st, k);
                let labels: String = parse_u64s(ls).unwrap().iter().map(|c| format!(":L{}", c)).collect();
                match st.sessions[&k].execute_cypher(&format!("CREATE (n{}) RETURN id(n)", labels)) {
                    Ok(res) => ids_of_rows(&res.rows),
                    Err(e) => format!("query-error:{}", e),
                }
            }
            ["qce", k, s, t, l] => {
                let k = sess(st, k);
                let q = format!("MATCH (a) WHERE id(a) = {} CREATE (a)-[e:T{}]->(b:L{}) RETURN id(b), id(e)", s, t, l);
                match st.sessions[&k].execute_cypher(&q) {
                    Ok(res) if res.rows.is_empty() => "norows".into(),
                    Ok(res) => res
                        .rows
                        .iter()
                        .map(|r| r.iter().map(crate::vals::tok).collect::<Vec<_>>().join("."))
                        .collect::<Vec<_>>()
                        .join(","),
                    Err(e) => format!("query-error:{}", e),
                }
            }
            ["qmerge", k, l] => {
                let k = sess(st, k);
                let before = st.db.node_count();
                match st.sessions[&k].execute_cypher(&format!("MERGE (n:L{}) RETURN id(n)", l)) {
                    Ok(res) => {
                        // which node a merge matches is unspecified when several carry the label:
                        // report only whether it matched, and the id when it created
                        if st.db.node_count() > before { format!("created:{}", ids_of_rows(&res.rows)) } else { "matched".into() }
                    }
                    Err(e) => format!("query-error:{}", e),
                }
            }
            // in-place mutations issued as query text
            ["qset", k, id, key, v] => {
                let k = sess(st, k);
                let lit = match crate::vals::untok(v) {
                    Value::Int64(i) => format!("{}", i),
                    Value::Bool(b) => format!("{}", b),
                    Value::String(s) => format!("'{}'", s),
                    other => panic!("unsupported literal {:?}", other),
                };
                let q = format!("MATCH (n) WHERE id(n) = {} SET n.k{} = {} RETURN id(n)", id, key, lit);
                match st.sessions[&k].execute(&q) {
                    Ok(res) if res.rows.is_empty() => "norows".into(),
                    Ok(res) => ids_of_rows(&res.rows),
                    Err(e) => format!("query-error:{}", e),
                }
            }
            ["qlab", k, id, l] | ["qunlab", k, id, l] => {
                let k = sess(st, k);
                let clause = if a[0] == "qlab" { "SET" } else { "REMOVE" };
                // count the matched rows through a second column-free statement: the label operators
                // hand their input rows on
                let q = format!("MATCH (n) WHERE id(n) = {} {} n:L{} RETURN 1", id, clause, l);
                match st.sessions[&k].execute(&q) {
                    Ok(res) if res.rows.is_empty() => "norows".into(),
                    Ok(_) => "ok".into(),
                    Err(e) => format!("query-error:{}", e),
                }
            }
            ["qdel", k, id] => {
                let k = sess(st, k);
                let q = format!("MATCH (n) WHERE id(n) = {} DETACH DELETE n", id);
                match st.sessions[&k].execute_cypher(&q) {
                    Ok(res) if res.rows.is_empty() => "norows".into(),
                    Ok(_) => "ok".into(),
                    Err(e) => format!("query-error:{}", e),
                }
            }
            ["qdele", k, e] => {
                let k = sess(st, k);
                let q = format!("MATCH (a)-[e]->(b) WHERE id(e) = {} DELETE e", e);
                match st.sessions[&k].execute_cypher(&q) {
                    Ok(res) if res.rows.is_empty() => "norows".into(),
                    Ok(_) => "ok".into(),
                    Err(e) => format!("query-error:{}", e),
                }
            }
            ["dbcn", ls] => {
                let labels: Vec<String> = parse_u64s(ls).unwrap().iter().map(|c| format!("L{}", c)).collect();
                let refs: Vec<&str> = labels.iter().map(|x| x.as_str()).collect();
                format!("{}", st.db.create_node(&refs).as_u64())
            }
            ["gn", k, id] => {
                let k = sess(st, k);
                let id = NodeId::new(id.parse().unwrap());
                let s = &st.sessions[&k];
                let n = s.get_node(id);
                // node_exists and get_nodes_batch must agree with get_node
                assert_eq!(s.node_exists(id), n.is_some());
                assert_eq!(s.get_nodes_batch(&[id])[0].is_some(), n.is_some());
                match n {
                    None => "none".into(),
                    Some(n) => {
                        let mut ls: Vec<u64> = n.labels.iter().map(|l| code(l.as_str())).collect();
                        ls.sort_unstable();
                        let mut ps: Vec<(u64, String)> =
                            n.properties.iter().map(|(k, v)| (code(k.as_str()), crate::vals::tok(v))).collect();
                        ps.sort();
                        format!("{};{}", join(&ls), ps.iter().map(|(k, v)| format!("{}={}", k, v)).collect::<Vec<_>>().join(","))
                    }
                }
            }
            ["ge", k, id] => {
                let k = sess(st, k);
                match st.sessions[&k].get_edge(EdgeId::new(id.parse().unwrap())) {
                    None => "none".into(),
                    Some(e) => format!("{}>{}:{}", e.src.as_u64(), e.dst.as_u64(), code(e.edge_type.as_str())),
                }
            }
            ["out", k, n] => {
                let k = sess(st, k);
                let mut v: Vec<(u64, u64)> = st.sessions[&k]
                    .get_neighbors_outgoing(NodeId::new(n.parse().unwrap()))
                    .into_iter()
                    .map(|(o, e)| (o.as_u64(), e.as_u64()))
                    .collect();
                v.sort_unstable();
                if v.is_empty() { "-".into() } else { v.iter().map(|(a, b)| format!("{}.{}", a, b)).collect::<Vec<_>>().join(",") }
            }
            ["in", k, n] => {
                let k = sess(st, k);
                let mut v: Vec<(u64, u64)> = st.sessions[&k]
                    .get_neighbors_incoming(NodeId::new(n.parse().unwrap()))
                    .into_iter()
                    .map(|(o, e)| (o.as_u64(), e.as_u64()))
                    .collect();
                v.sort_unstable();
                if v.is_empty() { "-".into() } else { v.iter().map(|(a, b)| format!("{}.{}", a, b)).collect::<Vec<_>>().join(",") }
            }
            ["qexp", k, n, dir, ty] => {
                let k = sess(st, k);
                let t = if *ty == "-" { String::new() } else { format!(":T{}", ty) };
                let q = if *dir == "o" {
                    format!("MATCH (a)-[e{}]->(b) WHERE id(a) = {} RETURN id(b), id(e)", t, n)
                } else {
                    format!("MATCH (a)<-[e{}]-(b) WHERE id(a) = {} RETURN id(b), id(e)", t, n)
                };
                match st.sessions[&k].execute(&q) {
                    Ok(res) => {
                        let mut v: Vec<(u64, u64)> = res
                            .rows
                            .iter()
                            .map(|r| match (&r[0], &r[1]) {
                                (Value::Int64(a), Value::Int64(b)) => (*a as u64, *b as u64),
                                other => panic!("unexpected row {:?}", other),
                            })
                            .collect();
                        v.sort_unstable();
                        if v.is_empty() { "-".into() } else { v.iter().map(|(a, b)| format!("{}.{}", a, b)).collect::<Vec<_>>().join(",") }
                    }
                    Err(e) => format!("query-error:{}", e),
                }
            }
            ["qsp", k, x, y] => {
                let k = sess(st, k);
                let q = format!("MATCH p = shortestPath((a:L{})-[*]->(b:L{})) RETURN length(p)", x, y);
                match st.sessions[&k].execute_cypher(&q) {
                    Ok(res) => {
                        let mut nums: Vec<i64> = Vec::new();
                        let mut nulls = 0;
                        for r in &res.rows {
                            match &r[0] {
                                Value::Int64(i) => nums.push(*i),
                                Value::Null => nulls += 1,
                                other => panic!("unexpected length {:?}", other),
                            }
                        }
                        nums.sort_unstable();
                        let mut parts: Vec<String> = nums.iter().map(|i| i.to_string()).collect();
                        parts.extend(std::iter::repeat("N".to_string()).take(nulls));
                        if parts.is_empty() { "norows".into() } else { parts.join(",") }
                    }
                    Err(e) => format!("query-error:{}", e),
                }
            }
            ["scanl", k, l] => {
                let k = sess(st, k);
                match st.sessions[&k].execute(&format!("MATCH (n:L{}) RETURN id(n)", l)) {
                    Ok(res) => ids_of_rows(&res.rows),
                    Err(e) => format!("query-error:{}", e),
                }
            }
            ["scan", k] => {
                let k = sess(st, k);
                match st.sessions[&k].execute("MATCH (n) RETURN id(n)") {
                    Ok(res) => ids_of_rows(&res.rows),
                    Err(e) => format!("query-error:{}", e),
                }
            }
            // the raw adjacency indexes (GrafeoDB::store()): entries per node id below n, both directions
            ["adj", n] => {
                let n: u64 = n.parse().unwrap();
                let store = st.db.store();
                let mut parts = Vec::new();
                for id in 0..n {
                    let mut o: Vec<(u64, u64)> = store.edges_from(NodeId::new(id), grafeo_core::graph::Direction::Outgoing).map(|(a, b)| (a.as_u64(), b.as_u64())).collect();
                    let mut i: Vec<(u64, u64)> = store.edges_from(NodeId::new(id), grafeo_core::graph::Direction::Incoming).map(|(a, b)| (a.as_u64(), b.as_u64())).collect();
                    o.sort_unstable();
                    i.sort_unstable();
                    if !o.is_empty() || !i.is_empty() {
                        let f = |v: &Vec<(u64, u64)>| v.iter().map(|(a, b)| format!("{}.{}", a, b)).collect::<Vec<_>>().join(",");
                        parts.push(format!("{}>{}<{}", id, f(&o), f(&i)));
                    }
                }
                if parts.is_empty() { "none".into() } else { parts.join(";") }
            }
            ["count"] => format!("{}", st.db.node_count()),
            _ => "bad-op".into(),
        }
    })
}
