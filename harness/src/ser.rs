//! Stream `ser` — C16, serialisation half: every place a `Value` is turned into bytes / text and back.
//!
//! ops (stateless, one output line each)
//!   ser meta                       sizes the model's allocation arithmetic depends on
//!   ser spill <tok>                spill/serializer.rs  serialize_value -> hex, deserialize_value -> tok, returned byte count
//!   ser row <tok>*                 serialize_row through a real SpillFile, SpillFileReader + deserialize_row back
//!   ser bin <tok>                  Value::serialize (bincode standard) -> hex, Value::deserialize -> tok
//!   ser wal <tok>                  SetNodeProperty through WalManager (temp dir), payload hex, WalRecovery -> tok
//!   ser snap <tok>                 set_node_property, export_snapshot -> hex, import_snapshot, read back -> tok
//!   ser json <tok>                 bindings/c types.rs value_to_json -> text (hex) -> json_to_value -> tok (tree and text level)
//!   ser dec <fmt> <hex>            arbitrary bytes into the real decoder (child process: aborts are outcomes)
//!
//! value tokens (`tok2`/`untok2`): N  B0|B1  I<dec>  F<16 hex>  S<hex utf8>  Y<hex>  T<dec micros>
//!   V<8 hex per f32>  L(<tok>,…)  M(<hex key>:<tok>,…)
#![allow(unused)]
use crate::util::*;
use grafeo_adapters::storage::wal::{DurabilityMode, WalConfig, WalManager, WalRecord, WalRecovery};
use grafeo_common::types::{NodeId, PropertyKey, Timestamp, TxId, Value};
use grafeo_core::execution::spill::{SpillFile, deserialize_row, deserialize_value, serialize_row, serialize_value};
use grafeo_engine::database::GrafeoDB;
use std::collections::BTreeMap;
use std::io::{Read, Write};
use std::sync::Arc;

/// The real source file of the C binding (crate grafeo-c is a cdylib/staticlib and cannot be linked as a
/// dependency): `value_to_json`, `json_to_value`, `parse_value`, `properties_to_json`, `parse_properties`.
#[path = "/repo/crates/bindings/c/src/types.rs"]
mod ctypes;

// ---------------------------------------------------------------------------------------------
// tokens

pub fn tok2(v: &Value) -> String {
    match v {
        Value::Null => "N".into(),
        Value::Bool(b) => format!("B{}", if *b { 1 } else { 0 }),
        Value::Int64(i) => format!("I{}", i),
        Value::Float64(f) => format!("F{:016x}", f.to_bits()),
        Value::String(s) => format!("S{}", hex(s.as_bytes())),
        Value::Bytes(b) => format!("Y{}", hex(b)),
        Value::Timestamp(t) => format!("T{}", t.as_micros()),
        Value::Vector(fs) => {
            let mut s = String::from("V");
            for f in fs.iter() {
                s.push_str(&format!("{:08x}", f.to_bits()));
            }
            s
        }
        Value::List(items) => format!("L({})", items.iter().map(tok2).collect::<Vec<_>>().join(",")),
        Value::Map(m) => format!(
            "M({})",
            m.iter().map(|(k, v)| format!("{}:{}", hex(k.as_str().as_bytes()), tok2(v))).collect::<Vec<_>>().join(",")
        ),
    }
}

struct P<'a> {
    s: &'a [u8],
    i: usize,
}

impl<'a> P<'a> {
    fn until(&mut self, stops: &[u8]) -> &'a str {
        let st = self.i;
        while self.i < self.s.len() && !stops.contains(&self.s[self.i]) {
            self.i += 1;
        }
        std::str::from_utf8(&self.s[st..self.i]).unwrap()
    }
    fn eat(&mut self, c: u8) -> bool {
        if self.i < self.s.len() && self.s[self.i] == c {
            self.i += 1;
            true
        } else {
            false
        }
    }
    fn value(&mut self) -> Option<Value> {
        let k = *self.s.get(self.i)?;
        self.i += 1;
        Some(match k {
            b'N' => Value::Null,
            b'B' => Value::Bool(self.until(b",):") == "1"),
            b'I' => Value::Int64(self.until(b",):").parse().ok()?),
            b'T' => Value::Timestamp(Timestamp::from_micros(self.until(b",):").parse().ok()?)),
            b'F' => Value::Float64(f64::from_bits(u64::from_str_radix(self.until(b",):"), 16).ok()?)),
            b'S' => Value::String(String::from_utf8(unhex_e(self.until(b",):"))?).ok()?.into()),
            b'Y' => Value::Bytes(Arc::from(unhex_e(self.until(b",):"))?)),
            b'V' => {
                let h = self.until(b",):");
                if h.len() % 8 != 0 {
                    return None;
                }
                let fs: Option<Vec<f32>> =
                    (0..h.len() / 8).map(|j| u32::from_str_radix(&h[8 * j..8 * j + 8], 16).ok().map(f32::from_bits)).collect();
                Value::Vector(Arc::from(fs?))
            }
            b'L' => {
                if !self.eat(b'(') {
                    return None;
                }
                let mut items = Vec::new();
                if !self.eat(b')') {
                    loop {
                        items.push(self.value()?);
                        if self.eat(b')') {
                            break;
                        }
                        if !self.eat(b',') {
                            return None;
                        }
                    }
                }
                Value::List(Arc::from(items))
            }
            b'M' => {
                if !self.eat(b'(') {
                    return None;
                }
                let mut m = BTreeMap::new();
                if !self.eat(b')') {
                    loop {
                        let k = String::from_utf8(unhex_e(self.until(b":"))?).ok()?;
                        if !self.eat(b':') {
                            return None;
                        }
                        let v = self.value()?;
                        m.insert(PropertyKey::new(k), v);
                        if self.eat(b')') {
                            break;
                        }
                        if !self.eat(b',') {
                            return None;
                        }
                    }
                }
                Value::Map(Arc::new(m))
            }
            _ => return None,
        })
    }
}

fn unhex_e(s: &str) -> Option<Vec<u8>> {
    if s.is_empty() { Some(Vec::new()) } else { unhex(s) }
}

pub fn untok2(t: &str) -> Option<Value> {
    let mut p = P { s: t.as_bytes(), i: 0 };
    let v = p.value()?;
    if p.i == t.len() { Some(v) } else { None }
}

fn hexd(bs: &[u8]) -> String {
    if bs.is_empty() { "-".into() } else { hex(bs) }
}

// ---------------------------------------------------------------------------------------------
// the real encoders / decoders

fn io_err(e: &std::io::Error) -> String {
    match e.kind() {
        std::io::ErrorKind::UnexpectedEof => "err:eof".into(),
        std::io::ErrorKind::InvalidData => {
            let m = e.to_string();
            if let Some(t) = m.strip_prefix("Unknown value tag: ") {
                format!("err:tag{}", t)
            } else if m.starts_with("Column count mismatch") {
                "err:cols".into()
            } else {
                "err:utf8".into()
            }
        }
        k => format!("err:{:?}", k),
    }
}

fn bin_err(e: &bincode::error::DecodeError) -> String {
    use bincode::error::DecodeError as D;
    match e {
        D::UnexpectedEnd { .. } => "err:end".into(),
        D::InvalidIntegerType { .. } => "err:inttype".into(),
        D::UnexpectedVariant { .. } => "err:variant".into(),
        D::Utf8 { .. } => "err:utf8".into(),
        D::InvalidBooleanValue(_) => "err:bool".into(),
        D::OutsideUsizeRange(_) => "err:usize".into(),
        D::LimitExceeded => "err:limit".into(),
        D::OtherString(_) => "err:other".into(),
        other => format!("err:{}", format!("{:?}", other).split(|c: char| !c.is_alphanumeric()).next().unwrap_or("x")),
    }
}

fn spill_one(v: &Value) -> String {
    let mut buf = Vec::new();
    let n = serialize_value(v, &mut buf).unwrap();
    let mut cur: &[u8] = &buf;
    let back = match deserialize_value(&mut cur) {
        Ok(b) => tok2(&b),
        Err(e) => io_err(&e),
    };
    format!("{} {} {} {}", hex(&buf), back, n, cur.len())
}

struct SfW<'a>(&'a mut SpillFile);
impl Write for SfW<'_> {
    fn write(&mut self, b: &[u8]) -> std::io::Result<usize> {
        self.0.write_all(b)?;
        Ok(b.len())
    }
    fn flush(&mut self) -> std::io::Result<()> {
        Ok(())
    }
}
struct SfR<'a>(&'a mut grafeo_core::execution::spill::SpillFileReader);
impl Read for SfR<'_> {
    fn read(&mut self, b: &mut [u8]) -> std::io::Result<usize> {
        self.0.read_exact(b)?;
        Ok(b.len())
    }
}

fn row_file(vs: &[Value]) -> String {
    let tmp = tempfile::tempdir().unwrap();
    let path = tmp.path().join("r.spill");
    let mut f = SpillFile::new(path.clone()).unwrap();
    // two copies of the row: the second read must start exactly where the first ended
    let n1 = serialize_row(vs, &mut SfW(&mut f)).unwrap();
    let n2 = serialize_row(vs, &mut SfW(&mut f)).unwrap();
    f.finish_write().unwrap();
    let bytes = std::fs::read(&path).unwrap();
    assert_eq!(f.bytes_written() as usize, bytes.len());
    assert_eq!(n1 + n2, bytes.len());
    assert_eq!(bytes[..n1], bytes[n1..]);
    let mut rd = f.reader().unwrap();
    let mut outs = Vec::new();
    for _ in 0..2 {
        outs.push(match deserialize_row(&mut SfR(&mut rd), vs.len()) {
            Ok(r) => list_arg(&r.iter().map(tok2).collect::<Vec<_>>()),
            Err(e) => io_err(&e),
        });
    }
    let at_end = rd.read_u8().is_err();
    f.delete().unwrap();
    drop(tmp);
    assert!(!path.exists());
    if outs[0] != outs[1] || !at_end {
        return format!("{} second-read-differs {} {}", hex(&bytes[..n1]), outs[0], outs[1]);
    }
    format!("{} {}", hex(&bytes[..n1]), outs[0])
}

fn bin_one(v: &Value) -> String {
    let b = v.serialize();
    let back = match Value::deserialize(&b) {
        Ok(x) => tok2(&x),
        Err(e) => bin_err(&e),
    };
    format!("{} {}", hex(&b), back)
}

fn wal_one(v: &Value) -> String {
    let tmp = tempfile::tempdir().unwrap();
    let dir = tmp.path().join("wal");
    let payload;
    {
        let cfg = WalConfig { durability: DurabilityMode::NoSync, ..WalConfig::default() };
        let wal = WalManager::with_config(&dir, cfg).unwrap();
        wal.log(&WalRecord::SetNodeProperty { id: NodeId::new(7), key: "k".into(), value: v.clone() }).unwrap();
        wal.log(&WalRecord::TxCommit { tx_id: TxId::new(1) }).unwrap();
        wal.sync().unwrap();
        let files = wal.log_files().unwrap();
        let bytes = std::fs::read(&files[0]).unwrap();
        let len = u32::from_le_bytes(bytes[0..4].try_into().unwrap()) as usize;
        payload = bytes[4..4 + len].to_vec();
    }
    let recs = match WalRecovery::new(&dir).recover() {
        Ok(r) => r,
        Err(_) => return format!("{} err", hex(&payload)),
    };
    let mut back = String::from("missing");
    for r in &recs {
        if let WalRecord::SetNodeProperty { id, key, value } = r {
            if id.as_u64() == 7 && key == "k" {
                back = tok2(value);
            }
        }
    }
    format!("{} {} {}", hex(&payload), back, recs.len())
}

fn snap_one(v: &Value) -> String {
    let db = GrafeoDB::new_in_memory();
    let n = db.create_node(&[]);
    db.set_node_property(n, "k", v.clone());
    let bytes = match db.export_snapshot() {
        Ok(b) => b,
        Err(_) => return "err:export".into(),
    };
    let back = match GrafeoDB::import_snapshot(&bytes) {
        Ok(d2) => match d2.get_node(n) {
            Some(node) => match node.properties.get(&PropertyKey::new("k")) {
                Some(x) => tok2(x),
                None => "missing-prop".into(),
            },
            None => "missing-node".into(),
        },
        Err(_) => "err:import".into(),
    };
    format!("{} {} {}", hex(&bytes), back, n.as_u64())
}

/// `tok2` and the drop of a value are recursive themselves: for deep values they run on a thread with a
/// large stack, so that a stack overflow of the child can only come from the decoder under test.
fn big_tok(v: Value) -> String {
    std::thread::Builder::new().stack_size(1 << 30).spawn(move || tok2(&v)).unwrap().join().unwrap()
}

/// JSON path of the C binding. Output: text (hex), tree-level round trip (json_to_value ∘ value_to_json),
/// text-level round trip (… ∘ from_str ∘ to_string …) through the binding's own entry points
/// `properties_to_json` (what grafeo_node_properties_json returns) and `parse_value` (what
/// grafeo_set_node_property receives).
fn json_one(v: &Value) -> String {
    let tree = ctypes::value_to_json(v);
    let text = serde_json::to_string(&tree).unwrap();
    let t1 = tok2(&ctypes::json_to_value(&tree));
    let c = std::ffi::CString::new(text.clone()).unwrap();
    let t2 = match ctypes::parse_value(c.as_ptr()) {
        Some(x) => tok2(&x),
        None => "err:parse".into(),
    };
    // the same value as a property map: {"k": v}
    let mut props = BTreeMap::new();
    props.insert(PropertyKey::new("k"), v.clone());
    let pj = ctypes::properties_to_json(&props);
    let t3 = match ctypes::parse_properties(pj.as_ptr()) {
        Some(ps) if ps.len() == 1 && ps[0].0.as_str() == "k" => tok2(&ps[0].1),
        Some(_) => "err:shape".into(),
        None => "err:parse".into(),
    };
    let t23 = if t2 == t3 { t2 } else { format!("{}|{}", t2, t3) };
    let _ = text;
    format!("{} {}", t1, t23)
}

/// decoders on arbitrary bytes; runs in a child process (see `dec`).
fn dec_raw(fmt: &str, bytes: &[u8]) -> String {
    match fmt {
        "spilldeep" => {
            let mut cur: &[u8] = bytes;
            match deserialize_value(&mut cur) {
                Ok(v) => {
                    let t = big_tok(v);
                    format!("ok depth={} {}", t.bytes().filter(|c| *c == b'(').count(), bytes.len() - cur.len())
                }
                Err(e) => io_err(&e),
            }
        }
        "bindeep" => match bincode::serde::decode_from_slice::<Value, _>(bytes, bincode::config::standard()) {
            Ok((v, used)) => {
                let t = big_tok(v);
                format!("ok depth={} {}", t.bytes().filter(|c| *c == b'(').count(), used)
            }
            Err(e) => bin_err(&e),
        },
        "spill" => {
            let mut cur: &[u8] = bytes;
            match deserialize_value(&mut cur) {
                Ok(v) => format!("ok {} {}", tok2(&v), bytes.len() - cur.len()),
                Err(e) => io_err(&e),
            }
        }
        "row" => {
            let mut cur: &[u8] = bytes;
            match deserialize_row(&mut cur, 0) {
                Ok(r) => format!("ok {} {}", list_arg(&r.iter().map(tok2).collect::<Vec<_>>()), bytes.len() - cur.len()),
                Err(e) => io_err(&e),
            }
        }
        "bin" => match bincode::serde::decode_from_slice::<Value, _>(bytes, bincode::config::standard()) {
            Ok((v, used)) => {
                // the public entry point must agree
                assert!(Value::deserialize(bytes).is_ok());
                format!("ok {} {}", tok2(&v), used)
            }
            Err(e) => bin_err(&e),
        },
        "snap" => match GrafeoDB::import_snapshot(bytes) {
            Ok(db) => format!("ok {} {}", db.iter_nodes().count(), db.iter_edges().count()),
            Err(e) => {
                let m = e.to_string();
                if m.contains("unsupported snapshot version") { "err:version".into() } else { "err:decode".into() }
            }
        },
        _ => "bad-op".into(),
    }
}

fn dec(fmt: &str, hexs: &str) -> String {
    use std::process::{Command, Stdio};
    // Since fix a3c259e the spill decoder allocates nothing for an announced count, and bincode's Value
    // decoder never did: inputs of moderate size (no deep recursion) run in-process (a regression would kill
    // `vh` loudly). import_snapshot still allocates an announced String length up front: snapshot inputs with
    // a large 8-byte window, and all long inputs, run in a child process, so that an abort is an outcome.
    if let Some(b) = unhex(hexs) {
        if (fmt != "snap" || !big_window(&b)) && b.len() < 20_000 {
            return dec_raw(fmt, &b);
        }
    }
    // /proc/self/exe stays valid when a concurrent `cargo build` replaces the binary on disk
    let exe = if std::path::Path::new("/proc/self/exe").exists() { std::path::PathBuf::from("/proc/self/exe") } else { std::env::current_exe().unwrap() };
    let mut ch = match Command::new(exe).arg("run").stdin(Stdio::piped()).stdout(Stdio::piped()).stderr(Stdio::piped()).spawn() {
        Ok(c) => c,
        Err(e) => return format!("harness-spawn-failed:{}", e.to_string().replace(' ', "_")),
    };
    {
        let mut si = ch.stdin.take().unwrap();
        if let Err(e) = writeln!(si, "ser decraw {} {}", fmt, hexs) {
            return format!("harness-pipe-failed:{}", e.to_string().replace(' ', "_"));
        }
    }
    let out = match ch.wait_with_output() {
        Ok(o) => o,
        Err(e) => return format!("harness-wait-failed:{}", e.to_string().replace(' ', "_")),
    };
    if out.status.success() {
        String::from_utf8_lossy(&out.stdout).trim().to_string()
    } else {
        let e = String::from_utf8_lossy(&out.stderr);
        if e.contains("memory allocation of") {
            "abort:alloc".into()
        } else if e.contains("overflowed its stack") {
            "abort:stack".into()
        } else {
            format!("abort:{:?}", out.status.code())
        }
    }
}

/// FNV-1a over bytes: the digest both sides print for outputs too long for a line.
fn fnv(bs: &[u8]) -> u64 {
    let mut h: u64 = 0xcbf29ce484222325;
    for b in bs {
        h ^= *b as u64;
        h = h.wrapping_mul(0x100000001b3);
    }
    h
}

/// A large value of `n` elements whose LAST element differs from the rest, so that a decoder
/// that stops early, or caps a count, cannot return an equal value.
fn big_value(kind: &str, n: usize) -> Option<Value> {
    Some(match kind {
        "list" => Value::List((0..n).map(|i| Value::Int64(if i + 1 == n { 99 } else { (i % 7) as i64 })).collect::<Vec<_>>().into()),
        "str" => Value::String((0..n).map(|i| if i + 1 == n { 'z' } else { 'a' }).collect::<String>().into()),
        "bytes" => Value::Bytes((0..n).map(|i| if i + 1 == n { 0xfe } else { (i % 5) as u8 }).collect::<Vec<u8>>().into()),
        "vec" => Value::Vector((0..n).map(|i| if i + 1 == n { 2.5f32 } else { 1.0f32 }).collect::<Vec<f32>>().into()),
        "map" => {
            let mut m = BTreeMap::new();
            for i in 0..n {
                m.insert(PropertyKey::new(format!("k{:06}", i)), Value::Int64(if i + 1 == n { 99 } else { 1 }));
            }
            Value::Map(Arc::new(m))
        }
        _ => return None,
    })
}

/// `ser big <kind> <n> <fmt>`: encode, decode, compare, as digests.
fn big_one(kind: &str, n: usize, fmt: &str) -> String {
    let Some(v) = big_value(kind, n) else { return "bad-op".into() };
    match fmt {
        "spill" => {
            let mut buf = Vec::new();
            serialize_value(&v, &mut buf).unwrap();
            let mut cur: &[u8] = &buf;
            let back = match deserialize_value(&mut cur) {
                Ok(b) => if tok2(&b) == tok2(&v) { "same".to_string() } else { format!("differs:{:016x}", fnv(tok2(&b).as_bytes())) },
                Err(e) => io_err(&e),
            };
            format!("len={} fnv={:016x} back={} rest={}", buf.len(), fnv(&buf), back, cur.len())
        }
        "row" => {
            // the value in the middle of a row: what follows a capped list is mis-parsed
            let row = vec![Value::Int64(1), v.clone(), Value::Int64(2)];
            let mut buf = Vec::new();
            serialize_row(&row, &mut buf).unwrap();
            let mut cur: &[u8] = &buf;
            let back = match deserialize_row(&mut cur, 3) {
                Ok(b) => if b.iter().map(tok2).collect::<Vec<_>>() == row.iter().map(tok2).collect::<Vec<_>>() { "same".to_string() } else { "differs".to_string() },
                Err(e) => io_err(&e),
            };
            format!("len={} fnv={:016x} back={} rest={}", buf.len(), fnv(&buf), back, cur.len())
        }
        "bin" => {
            let buf = v.serialize();
            let back = match Value::deserialize(&buf) {
                Ok(b) => if tok2(&b) == tok2(&v) { "same".to_string() } else { "differs".to_string() },
                Err(e) => format!("err:{}", e),
            };
            format!("len={} fnv={:016x} back={} rest=0", buf.len(), fnv(&buf), back)
        }
        _ => "bad-op".into(),
    }
}

pub fn run(args: &[&str]) -> String {
    let a = args.to_vec();
    guarded(move || match a.as_slice() {
        ["big", kind, n, fmt] => n.parse().ok().map(|n| big_one(kind, n, fmt)).unwrap_or("bad-op".into()),
        ["meta"] => format!(
            "value={} f32={} keyval={} isize_max={}",
            std::mem::size_of::<Value>(),
            std::mem::size_of::<f32>(),
            std::mem::size_of::<(PropertyKey, Value)>(),
            isize::MAX
        ),
        ["spill", t] => untok2(t).map(|v| spill_one(&v)).unwrap_or("bad-op".into()),
        ["row", ts @ ..] => {
            let vs: Option<Vec<Value>> = ts.iter().map(|t| untok2(t)).collect();
            vs.map(|v| row_file(&v)).unwrap_or("bad-op".into())
        }
        ["bin", t] => untok2(t).map(|v| bin_one(&v)).unwrap_or("bad-op".into()),
        ["wal", t] => untok2(t).map(|v| wal_one(&v)).unwrap_or("bad-op".into()),
        ["snap", t] => untok2(t).map(|v| snap_one(&v)).unwrap_or("bad-op".into()),
        ["json", t] => untok2(t).map(|v| json_one(&v)).unwrap_or("bad-op".into()),
        ["dec", fmt, h] => dec(fmt, h),
        ["decraw", fmt, h] => match unhex(h) {
            Some(b) => dec_raw(fmt, &b),
            None => "bad-op".into(),
        },
        _ => "bad-op".into(),
    })
}

// ---------------------------------------------------------------------------------------------
// generation

const F64S: [u64; 22] = [
    0x0000000000000000, 0x8000000000000000, 0x3ff0000000000000, 0xbff0000000000000, 0x7ff0000000000000, 0xfff0000000000000,
    0x7ff8000000000000, 0xfff8000000000000, 0x7ff0000000000001, 0x7ff4000000000000, 0xffffffffffffffff, 0x7fffffffffffffff,
    0x0000000000000001, 0x8000000000000001, 0x000fffffffffffff, 0x0010000000000000, 0x7fefffffffffffff, 0x3fb999999999999a,
    0x4340000000000000, 0x4340000000000001, 0x2d160e7e5c3f42ca, 0x00159283684dba77,
];
const F32S: [u32; 14] = [
    0x00000000, 0x80000000, 0x3f800000, 0x3dcccccd, 0x7f800000, 0xff800000, 0x7fc00000, 0x7f800001, 0xffffffff, 0x00000001,
    0x007fffff, 0x00800000, 0x7f7fffff, 0x00400000,
];
const I64S: [i64; 22] = [
    0, 1, -1, 125, 126, -125, -126, -127, 250, 251, 32767, 32768, -32768, -32769, 2147483647, 2147483648, -2147483648,
    -2147483649, i64::MAX, i64::MIN, i64::MAX - 1, i64::MIN + 1,
];
const STRS: [&str; 12] = ["", "a", "k", "héllo", "世界", "🌍", "\u{0}", "\"\\\n", "$timestamp_us", "\u{7f}\u{80}\u{7ff}\u{800}\u{ffff}\u{10000}\u{10ffff}", "ab", "b"];

fn gen_f64(r: &mut Rng) -> u64 {
    match r.below(4) {
        0 => *r.pick(&F64S),
        1 => r.next(),
        2 => ((r.below(16) as f64 - 3.0) * 0.25).to_bits(),
        _ => ((r.next() % 2001) as f64 / 8.0 - 125.0).to_bits(),
    }
}

fn gen_i64(r: &mut Rng) -> i64 {
    match r.below(4) {
        0 => *r.pick(&I64S),
        1 => r.next() as i64,
        2 => (r.below(70000) as i64) - 35000,
        _ => {
            let sh = r.below(64);
            ((r.next() >> sh) as i64).wrapping_mul(if r.chance(1, 2) { 1 } else { -1 })
        }
    }
}

fn gen_str(r: &mut Rng) -> String {
    match r.below(6) {
        0 | 1 => r.pick(&STRS).to_string(),
        2 => {
            let n = *r.pick(&[249usize, 250, 251, 252, 300]);
            "x".repeat(n)
        }
        _ => {
            let n = r.below(6);
            (0..n).map(|_| *r.pick(&['a', 'Z', '0', ' ', 'é', 'ß', '世', '🌍', '\u{1}', '$'])).collect()
        }
    }
}

fn gen_key(r: &mut Rng) -> String {
    if r.chance(1, 8) { "$timestamp_us".to_string() } else if r.chance(1, 2) { r.pick(&["a", "b", "k", "", "é", "aa", "ab"]).to_string() } else { gen_str(r) }
}

pub fn gen_value(r: &mut Rng, depth: u32) -> Value {
    let kinds = if depth >= 4 { 8 } else { 10 };
    match r.below(kinds + 2) {
        0 => Value::Null,
        1 => Value::Bool(r.chance(1, 2)),
        2 | 10 => Value::Int64(gen_i64(r)),
        3 | 11 => Value::Float64(f64::from_bits(gen_f64(r))),
        4 => Value::String(gen_str(r).into()),
        5 => {
            let n = match r.below(8) {
                0 => 0,
                1 => *r.pick(&[250usize, 251, 256]),
                _ => r.below(9) as usize,
            };
            Value::Bytes(Arc::from((0..n).map(|_| r.next() as u8).collect::<Vec<u8>>()))
        }
        6 => Value::Timestamp(Timestamp::from_micros(gen_i64(r))),
        7 => {
            let n = match r.below(8) {
                0 => 0,
                1 => 251,
                _ => r.below(5) as usize,
            };
            Value::Vector(Arc::from(
                (0..n).map(|_| f32::from_bits(if r.chance(1, 2) { *r.pick(&F32S) } else { r.next() as u32 })).collect::<Vec<f32>>(),
            ))
        }
        8 => {
            let n = match r.below(12) {
                0 => 0,
                1 if depth == 0 => 260,
                _ => r.below(4) as usize,
            };
            Value::List(Arc::from((0..n).map(|_| gen_value(r, depth + 1 + (n > 100) as u32 * 3)).collect::<Vec<_>>()))
        }
        _ => {
            let n = r.below(4) as usize;
            let mut m = BTreeMap::new();
            for _ in 0..n {
                m.insert(PropertyKey::new(gen_key(r)), gen_value(r, depth + 1));
            }
            Value::Map(Arc::new(m))
        }
    }
}

/// little-endian 8-byte windows whose value lies where the outcome of an allocation depends on the
/// machine (more than a few MB, less than the address space): such inputs are not generated.
fn env_dependent(bs: &[u8]) -> bool {
    bs.windows(8).any(|w| {
        let v = u64::from_le_bytes(w.try_into().unwrap());
        v > (1 << 22) && v < (1 << 47)
    })
}

fn big_window(bs: &[u8]) -> bool {
    bs.windows(8).any(|w| u64::from_le_bytes(w.try_into().unwrap()) > (1 << 22))
}

const EVIL: [u64; 8] = [u64::MAX, 1 << 63, (1 << 63) - 1, 1 << 47, 0x0555_5555_5555_5556, 0x0555_5555_5555_5555, 1 << 62, 3];

/// `filter`: avoid lengths whose allocation outcome depends on the machine (only `import_snapshot` still
/// allocates an announced length up front: bincode's owned String).
fn mutate(r: &mut Rng, enc: &[u8], varint: bool, filter: bool) -> (Vec<u8>, bool) {
    for _ in 0..50 {
        let mut b = enc.to_vec();
        let kind = r.below(7);
        match kind {
            0 => {
                let k = r.below(b.len() as u64 + 1) as usize;
                b.truncate(k);
            }
            1 if !b.is_empty() => {
                let k = r.below(b.len() as u64) as usize;
                b[k] ^= 1 << r.below(8);
            }
            2 if !b.is_empty() => {
                let k = r.below(b.len() as u64) as usize;
                b[k] = r.next() as u8;
            }
            3 => {
                // an evil length right after a container / string tag
                let tag = *r.pick(&[4u8, 5, 7, 8, 9]);
                let len = if !filter && r.chance(1, 3) { *r.pick(&[1u64 << 32, 1 << 36, 1 << 40, 1 << 46, 5_000_000]) } else { *r.pick(&EVIL) };
                b = vec![tag];
                if varint {
                    b.push(253);
                }
                b.extend_from_slice(&len.to_le_bytes());
                let extra = r.below(4) as usize;
                b.extend_from_slice(&enc[..extra.min(enc.len())]);
            }
            4 => {
                let n = r.below(12) as usize;
                b = (0..n).map(|_| if r.chance(1, 2) { r.below(12) as u8 } else { r.next() as u8 }).collect();
            }
            5 => {
                let n = r.below(4) as usize;
                for _ in 0..n {
                    b.push(r.next() as u8);
                }
            }
            _ => {}
        }
        if !filter || !env_dependent(&b) {
            return (b, kind == 3 && filter);
        }
    }
    (enc.to_vec(), false)
}

pub fn generate(seed: u64, cases: usize, out: &mut Vec<String>) {
    let mut r = Rng::new(seed ^ 0x736572);
    out.push(format!("# case meta seed {}", seed));
    out.push("ser meta".into());
    // element counts around the decoder's reservation cap and the u16 range, every container kind
    for kind in ["list", "str", "bytes", "vec", "map"] {
        for n in [1usize, 4095, 4096, 4097, 8193] {
            for fmt in ["spill", "row", "bin"] {
                out.push(format!("ser big {} {} {}", kind, n, fmt));
            }
        }
    }
    out.push("ser big list 65537 spill".into());
    out.push("ser big bytes 65537 spill".into());
    let mut aborts = 0usize;
    for c in 0..cases {
        out.push(format!("# case {} seed {}", c, seed));
        let v = gen_value(&mut r, 0);
        let t = tok2(&v);
        out.push(format!("ser spill {}", t));
        out.push(format!("ser bin {}", t));
        out.push(format!("ser json {}", t));
        out.push(format!("ser wal {}", t));
        out.push(format!("ser snap {}", t));
        let n = r.below(4) as usize;
        let mut row = vec![v.clone()];
        for _ in 0..n {
            row.push(gen_value(&mut r, 2));
        }
        if r.chance(1, 10) {
            row.clear();
        }
        out.push(format!("ser row {}", row.iter().map(tok2).collect::<Vec<_>>().join(" ")).trim_end().to_string());
        // arbitrary bytes into the decoders; at most one in ten cases may contain inputs that abort the child
        let small = if let Value::List(l) = &v { if l.len() > 100 { Value::Null } else { v.clone() } } else { v.clone() };
        let mut senc = Vec::new();
        serialize_value(&small, &mut senc).unwrap();
        let benc = small.serialize();
        // inputs built around an evil length (they may abort the child, which is slow): one case in eight
        let mut push_dec = |out: &mut Vec<String>, fmt: &str, m: (Vec<u8>, bool), aborts: &mut usize| {
            if m.1 {
                if *aborts * 8 > c {
                    return;
                }
                *aborts += 1;
            }
            out.push(format!("ser dec {} {}", fmt, hexd(&m.0)));
        };
        let m1 = mutate(&mut r, &senc, false, false);
        push_dec(out, "spill", m1, &mut aborts);
        let m2 = mutate(&mut r, &benc, true, false);
        push_dec(out, "bin", m2, &mut aborts);
        if c % 3 == 0 {
            let mut renc = Vec::new();
            serialize_row(&[small.clone(), Value::Bool(true)], &mut renc).unwrap();
            let m3 = mutate(&mut r, &renc, false, false);
            push_dec(out, "row", m3, &mut aborts);
            // a one-node snapshot with a label and a property, then mutated
            let db = GrafeoDB::new_in_memory();
            let n = db.create_node(&["L"]);
            db.set_node_property(n, "k", small.clone());
            if r.chance(1, 2) {
                let n2 = db.create_node(&[]);
                db.create_edge(n, n2, "E");
            }
            let snap = db.export_snapshot().unwrap();
            let mut m4 = mutate(&mut r, &snap, true, true);
            if r.chance(1, 6) {
                // an owned String length that is a lie: version, 1 node, id 0, 1 label of "length" EVIL
                let mut b = vec![1, 1, 0, 1, 253];
                b.extend_from_slice(&r.pick(&EVIL).to_le_bytes());
                m4 = (b, true);
            }
            if !env_dependent(&m4.0) {
                push_dec(out, "snap", m4, &mut aborts);
            }
        }
    }
}
