//! Shared helpers: deterministic PRNG, text formatting, panic capture.
use std::panic::{AssertUnwindSafe, catch_unwind};

/// SplitMix64 — every random choice of a run derives from one seed.
#[derive(Clone)]
pub struct Rng(pub u64);

impl Rng {
    pub fn new(seed: u64) -> Self {
        Rng(seed ^ 0x9E37_79B9_7F4A_7C15)
    }
    pub fn next(&mut self) -> u64 {
        self.0 = self.0.wrapping_add(0x9E37_79B9_7F4A_7C15);
        let mut z = self.0;
        z = (z ^ (z >> 30)).wrapping_mul(0xBF58_476D_1CE4_E5B9);
        z = (z ^ (z >> 27)).wrapping_mul(0x94D0_49BB_1331_11EB);
        z ^ (z >> 31)
    }
    /// uniform in 0..n (n > 0)
    pub fn below(&mut self, n: u64) -> u64 {
        self.next() % n
    }
    pub fn range(&mut self, lo: u64, hi: u64) -> u64 {
        lo + self.below(hi - lo + 1)
    }
    pub fn chance(&mut self, num: u64, den: u64) -> bool {
        self.below(den) < num
    }
    pub fn pick<'a, T>(&mut self, xs: &'a [T]) -> &'a T {
        &xs[self.below(xs.len() as u64) as usize]
    }
}

pub fn join<T: ToString>(xs: &[T]) -> String {
    xs.iter().map(|x| x.to_string()).collect::<Vec<_>>().join(",")
}

pub fn list_arg<T: ToString>(xs: &[T]) -> String {
    if xs.is_empty() { "-".to_string() } else { join(xs) }
}

pub fn hex(bs: &[u8]) -> String {
    let mut s = String::with_capacity(bs.len() * 2);
    for b in bs {
        s.push_str(&format!("{:02x}", b));
    }
    s
}

pub fn unhex(s: &str) -> Option<Vec<u8>> {
    if s == "-" {
        return Some(Vec::new());
    }
    if s.len() % 2 != 0 {
        return None;
    }
    (0..s.len() / 2)
        .map(|i| u8::from_str_radix(&s[2 * i..2 * i + 2], 16).ok())
        .collect()
}

pub fn parse_u64s(s: &str) -> Option<Vec<u64>> {
    if s == "-" || s.is_empty() {
        return Some(vec![]);
    }
    s.split(',').map(|t| t.parse().ok()).collect()
}

pub fn parse_i64s(s: &str) -> Option<Vec<i64>> {
    if s == "-" || s.is_empty() {
        return Some(vec![]);
    }
    s.split(',').map(|t| t.parse().ok()).collect()
}

/// Run `f`, mapping a panic to the string "panic".
pub fn guarded<F: FnOnce() -> String>(f: F) -> String {
    match catch_unwind(AssertUnwindSafe(f)) {
        Ok(s) => s,
        Err(_) => "panic".to_string(),
    }
}

pub fn quiet_panics() {
    std::panic::set_hook(Box::new(|_| {}));
}
