//! Stream `lex2` — C12 for the Cypher, SPARQL, GraphQL and Gremlin lexers (the GQL lexer is stream `lex`).
//!
//! Stateless lines; query text travels as the lowercase hex of its UTF-8 bytes (`-` = empty).
//!
//!   lex2 <lang> <hex> [<alpha> <num>]     CORRESPONDENCE with `Model/Lex2*.lean`: the real lexer's token
//!                                         list `kind:start-end,…`; `panic` on unwind; `,runaway` appended
//!                                         when no `eof` arrived within 10000 tokens
//!   lex2 <lang>.ok <hex> [<alpha> <num>]  the verdict on that token list: `ok` when every span lies on
//!                                         character boundaries with start <= end <= len, spans are in
//!                                         order and disjoint, every non-eof token is non-empty, and the
//!                                         list ends with its only `eof` after at most chars+1 tokens;
//!                                         `bad:count` / `bad:span` otherwise; `panic` on unwind
//!
//! lang ∈ cypher | sparql | graphql | gremlin.  For graphql and gremlin (whose name rules use the
//! Unicode tables `char::is_alphabetic` / `is_numeric`, which the model takes as parameters) the line
//! carries the non-ASCII code points of the text that std classifies as alphabetic resp. numeric.
//! Gremlin's `position` counts characters, so its spans are character indices.
//!
//! kinds: eof error str lstr qid int dec flt word punct var iri pname bnode.
#![allow(unused)]
use crate::util::*;
use std::collections::BTreeMap;

const MAX_TOKENS: usize = 10_000;
pub const LANGS: [&str; 4] = ["cypher", "sparql", "graphql", "gremlin"];

fn hex_arg(s: &str) -> String {
    if s.is_empty() { "-".to_string() } else { hex(s.as_bytes()) }
}
fn text_arg(h: &str) -> Option<String> {
    String::from_utf8(unhex(h)?).ok()
}

// ------------------------------------------------------------------------------- implementation

type T3 = (&'static str, usize, usize);

fn head(dbg: &str) -> &str {
    dbg.split('(').next().unwrap_or(dbg)
}

fn cypher_class(kind: &str, text: &str) -> &'static str {
    match kind {
        "Eof" => "eof",
        "Error" => "error",
        "String" => "str",
        "QuotedIdentifier" => "qid",
        "Integer" => "int",
        "Float" => "flt",
        _ => match text.chars().next() {
            Some(c) if c.is_ascii_alphabetic() || c == '_' => "word",
            _ => "punct",
        },
    }
}

fn lex_cypher(text: &str) -> (Vec<T3>, bool) {
    let mut lx = grafeo_adapters::query::cypher::Lexer::new(text);
    let mut out = Vec::new();
    for _ in 0..MAX_TOKENS {
        let t = lx.next_token();
        let kind = format!("{:?}", t.kind);
        // the slice the lexer took is source[start..pos]; span.end holds pos - start (the length)
        let cls = cypher_class(&kind, &t.text);
        out.push((cls, t.span.start, t.span.start + t.text.len()));
        if cls == "eof" {
            return (out, true);
        }
    }
    (out, false)
}

fn sparql_class(kind: &str, text: &str) -> &'static str {
    match kind {
        "Eof" => "eof",
        "Error" => "error",
        "Integer" => "int",
        "Decimal" => "dec",
        "Double" => "flt",
        "String" => "str",
        "LongString" => "lstr",
        "Variable" => "var",
        "Iri" => "iri",
        "BlankNodeLabel" => "bnode",
        "PrefixedName" => {
            if text.contains(':') { "pname" } else { "word" }
        }
        "Equals" | "NotEquals" | "LessThan" | "LessOrEqual" | "GreaterThan" | "GreaterOrEqual" | "Plus"
        | "MinusOp" | "Star" | "Slash" | "Bang" | "AndOp" | "OrOp" | "Caret" | "DoubleCaret" | "At" | "Pipe"
        | "QuestionMark" | "LeftParen" | "RightParen" | "LeftBracket" | "RightBracket" | "LeftBrace"
        | "RightBrace" | "Dot" | "Comma" | "Semicolon" | "Colon" | "AnonymousBlank" => "punct",
        _ => "word",
    }
}

fn lex_sparql(text: &str) -> (Vec<T3>, bool) {
    let mut lx = grafeo_adapters::query::sparql::Lexer::new(text);
    let mut out = Vec::new();
    for _ in 0..MAX_TOKENS {
        let t = lx.next_token();
        let kind = format!("{:?}", t.kind);
        let cls = sparql_class(&kind, &t.text);
        out.push((cls, t.span.start, t.span.end));
        if cls == "eof" {
            return (out, true);
        }
    }
    (out, false)
}

fn graphql_class(kind: &str) -> &'static str {
    match kind {
        "Eof" => "eof",
        "Int" => "int",
        "Float" => "flt",
        "String" => "str",
        "BlockString" => "lstr",
        "Bang" | "Dollar" | "Amp" | "LParen" | "RParen" | "Spread" | "Colon" | "Eq" | "At" | "LBracket"
        | "RBracket" | "LBrace" | "RBrace" | "Pipe" => "punct",
        _ => "word",
    }
}

fn lex_graphql(text: &str) -> (Vec<T3>, bool) {
    let mut lx = grafeo_adapters::query::graphql::Lexer::new(text);
    let mut out = Vec::new();
    for _ in 0..MAX_TOKENS {
        let t = lx.next_token();
        let dbg = format!("{:?}", t.kind);
        let cls = graphql_class(head(&dbg));
        out.push((cls, t.span.start, t.span.end));
        if cls == "eof" {
            return (out, true);
        }
    }
    (out, false)
}

fn gremlin_class(kind: &str) -> &'static str {
    match kind {
        "Eof" => "eof",
        "Integer" => "int",
        "Float" => "flt",
        "String" => "str",
        "Dot" | "Comma" | "LParen" | "RParen" | "LBracket" | "RBracket" | "Underscore" => "punct",
        _ => "word",
    }
}

fn lex_gremlin(text: &str) -> (Vec<T3>, bool) {
    let mut lx = grafeo_adapters::query::gremlin::Lexer::new(text);
    let mut out = Vec::new();
    for _ in 0..MAX_TOKENS {
        let t = lx.next_token();
        let dbg = format!("{:?}", t.kind);
        let cls = gremlin_class(head(&dbg));
        out.push((cls, t.span.start, t.span.end));
        if cls == "eof" {
            return (out, true);
        }
    }
    (out, false)
}

fn lex(lang: &str, text: &str) -> Option<(Vec<T3>, bool)> {
    Some(match lang {
        "cypher" => lex_cypher(text),
        "sparql" => lex_sparql(text),
        "graphql" => lex_graphql(text),
        "gremlin" => lex_gremlin(text),
        _ => return None,
    })
}

fn show(toks: &[T3], ended: bool) -> String {
    let mut v: Vec<String> = toks.iter().map(|(k, s, e)| format!("{}:{}-{}", k, s, e)).collect();
    if !ended {
        v.push("runaway".to_string());
    }
    v.join(",")
}

/// the same check as `Grafeo.Lex2.verdict` (Model/Lex2.lean)
fn verdict(lang: &str, text: &str, toks: &[T3], ended: bool) -> String {
    let nchars = text.chars().count();
    if !ended || toks.len() > nchars + 1 {
        return "bad:count".to_string();
    }
    let legal = |p: usize| -> bool {
        if lang == "gremlin" { p <= nchars } else { p <= text.len() && text.is_char_boundary(p) }
    };
    let mut lo = 0usize;
    let n = toks.len();
    if n == 0 {
        return "bad:span".to_string();
    }
    for (i, (k, s, e)) in toks.iter().enumerate() {
        let last = i + 1 == n;
        let ok = if last { *k == "eof" && lo <= *s && s <= e } else { *k != "eof" && lo <= *s && s < e };
        if !ok || !legal(*s) || !legal(*e) {
            return "bad:span".to_string();
        }
        lo = *e;
    }
    "ok".to_string()
}

pub fn run(args: &[&str]) -> String {
    if args.len() < 2 {
        return "bad-op".to_string();
    }
    let (lang, okline) = match args[0].strip_suffix(".ok") {
        Some(l) => (l, true),
        None => (args[0], false),
    };
    let uni = lang == "graphql" || lang == "gremlin";
    if !LANGS.contains(&lang) || args.len() != if uni { 4 } else { 2 } {
        return "bad-op".to_string();
    }
    let Some(text) = text_arg(args[1]) else { return "bad-op".to_string() };
    guarded(|| {
        let (toks, ended) = lex(lang, &text).unwrap();
        if okline { verdict(lang, &text, &toks, ended) } else { show(&toks, ended) }
    })
}

// ------------------------------------------------------------------------------------ generator

/// multi-byte and otherwise awkward characters: 2-, 3-, 4-byte, NBSP, NEL, ideographic space,
/// combining mark, BOM, NUL, digits and letters outside ASCII
const ODD: &[&str] = &[
    "é", "ß", "\u{A0}", "\u{85}", "\u{3000}", "\u{2003}", "漢", "字", "😀", "𝒳", "\u{301}", "\u{FEFF}", "\u{0}",
    "٣", "Ⅷ", "²", "ª", "Ω", "\u{2028}", "\u{200B}", "\u{7F}", "\u{80}", "\u{7FF}", "\u{800}", "\u{FFFF}",
    "\u{10000}", "\u{10FFFF}",
];

const WSP: &[&str] = &[" ", " ", " ", "\t", "\n", "\r", "\r\n", "", "", ""];

const CYPHER: &[&str] = &[
    "MATCH", "match", "OPTIONAL", "WHERE", "RETURN", "CREATE", "DETACH DELETE", "SET", "UNWIND", "AS", "ORDER BY",
    "STARTS WITH", "IS NOT NULL", "n", "_x1", "Person", "a_b", "x9", "0", "42", "007", "3.14", "1.", "1..2", "1e10",
    "2.5e-3", "1e", "1e+", "1E-", "1.5e", "1.5E+7", "9e9e9", "1.2.3", "'hello'", "\"world\"", "'a\\'b'", "\"q\\\"q\"",
    "'multi\nline'", "'open", "\"open\\", "'\\", "''", "`my col`", "`open", "``", "`a``b`", "(", ")", "[", "]", "{",
    "}", ":", ";", ",", ".", "..", "...", "|", "$", "$p", "^", "%", "*", "/", "+", "+=", "=", "=~", "<", "<>", "<=",
    "<-", "<--", ">", ">=", "-", "->", "--", "-->", "-[:R]->", "//", "// line comment", "// c\n", "/* block */",
    "/* open", "/* a * / b **/", "/**/", "/*/", "/", "/ /", "!", "#", "@", "&", "~", "?", "\\",
];

const SPARQL: &[&str] = &[
    "SELECT", "select", "WHERE", "PREFIX", "BASE", "FILTER", "OPTIONAL", "GROUP_CONCAT", "a", "true", "ASK", "?x",
    "?", "?_1", "$y", "$", "?é", "<http://ex/a>", "<http://ex/a b>", "<http://ex/é>", "<a\\>b>", "<open", "<a\nb>",
    "<a\tb>", "<>", "<", "<=", "< =", "<\n", "<\\", ">", ">=", "foaf:name", "foaf:", ":local", ":", "ex:a.b", "ex:a.",
    "ex:a. ", "ex:a-b", "é:ü", "_:b1", "_:", "_:a.b-c", "_x", "_", "__:", "0", "42", "3.14", "1.", "1.e5", "1e10",
    "1E-3", "1e+", "1e", "1.5e3.2", "1.2.3", "1e1e1", "\"str\"", "'str'", "\"a\\\"b\"", "\"open", "'open\\", "\"nl\nx\"",
    "\"\"", "''", "\"\"\"long\"\"\"", "'''long'''", "\"\"\"a\"b\"\"c\"\"\"", "\"\"\"open", "\"\"\"a\\\"\"\"\"", "'''a\nb'''",
    "\"\"\"\"", "\"\"\"\"\"", "\"\"\"\"\"\"", "\"x\"@en", "\"x\"@en-GB", "\"1\"^^xsd:int", "^", "^^", "@", "(", ")", "[",
    "]", "[]", "[ ]", "{", "}", ".", ",", ";", "+", "-", "*", "/", "!", "!=", "=", "&&", "&", "||", "|", "# comment",
    "# c\n", "#", "%", "~", "`", "\\",
];

const GRAPHQL: &[&str] = &[
    "query", "mutation", "fragment", "on", "true", "null", "user", "_id", "name2", "Ünï", "x٣", "{", "}", "(", ")",
    "[", "]", ":", "=", "@", "!", "$", "$var", "&", "|", "...", "..", ".", "....", "... on", ",", ",,", "# comment",
    "# c\n", "# c\r", "#", "\u{FEFF}", "0", "42", "-7", "-", "--1", "3.14", "1.", "1.5.2", "1e10", "-2.5E-3", "1e",
    "1e+", "1ee", "1e1e1", "1.e.", "\"str\"", "\"a\\\"b\"", "\"\\u00e9\"", "\"\\u12\"", "\"\\u\"", "\"\\uZZZZ\"",
    "\"\\ud800\"", "\"open", "\"open\\", "\"\\", "\"\"", "\"\" ", "\"\"\"block\"\"\"", "\"\"\"a\"b\"\"c\"\"\"",
    "\"\"\"open", "\"\"\"esc\\\"\"\"x\"\"\"", "\"\"\"\\", "\"\"\"\\\"", "\"\"\"\\\"\"", "\"\"\"\n  a\n   b\n\"\"\"",
    "\"\"\"\"", "\"\"\"\"\"", "\"\"\"\"\"\"", "\"\"\"\"\"\"\"", "\"\"\"é\n\u{3000}x\"\"\"", "%", "~", "'", "\\", "?",
];

const GREMLIN: &[&str] = &[
    "g", "V", "E", "addV", "out", "in_", "hasLabel", "has", "values", "P", "gt", "within", "T", "foo", "_", "_x",
    "__", "_.", "_1", "_é", "é_", "x٣", ".", ",", "(", ")", "[", "]", "g.V()", "g.V().has('name', 'x')", "0", "42",
    "-7", "-", "-x", "--1", "3.14", "1.", "1.5.2", "1e10", "-2.5E-3", "1e", "1e+", "1ee", "1e1e1", "'str'", "\"str\"",
    "'a\\'b'", "\"a\\\"b\"", "'open", "\"open\\", "'\\", "''", "'é漢😀'", "\"éé\"", "{", "}", ":", ";", "!", "#", "@", "$",
    "%", "=", "<", ">", "\\", "?",
];

fn frags(lang: &str) -> &'static [&'static str] {
    match lang {
        "cypher" => CYPHER,
        "sparql" => SPARQL,
        "graphql" => GRAPHQL,
        _ => GREMLIN,
    }
}

fn uni_args(text: &str) -> String {
    let mut al: Vec<u32> = Vec::new();
    let mut nu: Vec<u32> = Vec::new();
    for c in text.chars() {
        if (c as u32) >= 0x80 {
            if c.is_alphabetic() && !al.contains(&(c as u32)) {
                al.push(c as u32);
            }
            if c.is_numeric() && !nu.contains(&(c as u32)) {
                nu.push(c as u32);
            }
        }
    }
    al.sort();
    nu.sort();
    format!(" {} {}", list_arg(&al), list_arg(&nu))
}

fn emit(out: &mut Vec<String>, lang: &str, text: &str) {
    let extra = if lang == "graphql" || lang == "gremlin" { uni_args(text) } else { String::new() };
    out.push(format!("lex2 {} {}{}", lang, hex_arg(text), extra));
    out.push(format!("lex2 {}.ok {}{}", lang, hex_arg(text), extra));
}

fn emit_truncations(out: &mut Vec<String>, lang: &str, s: &str) {
    for (i, _) in s.char_indices().skip(1) {
        emit(out, lang, &s[..i]);
    }
}

/// insert / replace / delete characters at random character positions
fn mutate(r: &mut Rng, s: &str) -> String {
    let mut cs: Vec<char> = s.chars().collect();
    let n = 1 + r.below(3);
    for _ in 0..n {
        let at = r.below(cs.len() as u64 + 1) as usize;
        match r.below(4) {
            0 | 1 => {
                let ins: Vec<char> = r.pick(ODD).chars().collect();
                for (k, c) in ins.into_iter().enumerate() {
                    cs.insert(at + k, c);
                }
            }
            2 => {
                if at < cs.len() {
                    cs[at] = r.pick(ODD).chars().next().unwrap();
                }
            }
            _ => {
                if at < cs.len() {
                    cs.remove(at);
                }
            }
        }
    }
    cs.into_iter().collect()
}

fn noise(r: &mut Rng) -> String {
    let n = r.range(1, 12);
    let mut s = String::new();
    for _ in 0..n {
        let c = match r.below(6) {
            0 => char::from_u32(r.below(0x80) as u32),
            1 => char::from_u32(r.range(0x80, 0x7FF) as u32),
            2 => char::from_u32(r.range(0x800, 0xFFFF) as u32),
            3 => char::from_u32(r.range(0x10000, 0x10FFFF) as u32),
            4 => Some(*r.pick(&['"', '\'', '\\', '`', '/', '*', '#', '<', '>', '.', 'e', '-', '_', ':', '?', '$', '1'])),
            _ => char::from_u32(r.range(0x20, 0x7E) as u32),
        };
        if let Some(c) = c {
            s.push(c);
        }
    }
    s
}

fn gen_text(r: &mut Rng, lang: &str, stats: &mut BTreeMap<&'static str, usize>) -> String {
    let mode = r.below(10);
    let fr = frags(lang);
    let mut s = String::new();
    let label = match mode {
        0..=4 => {
            let n = r.range(1, 8);
            for _ in 0..n {
                s.push_str(*r.pick(fr));
                s.push_str(*r.pick(WSP));
            }
            "fragments"
        }
        5..=7 => {
            let n = r.range(1, 6);
            for _ in 0..n {
                s.push_str(*r.pick(fr));
                s.push_str(*r.pick(WSP));
            }
            s = mutate(r, &s);
            "fragments+odd"
        }
        8 => {
            // one fragment glued to an odd character on either side, no separator
            s.push_str(*r.pick(ODD));
            s.push_str(*r.pick(fr));
            s.push_str(*r.pick(ODD));
            "glued"
        }
        _ => {
            s = noise(r);
            "noise"
        }
    };
    *stats.entry(label).or_insert(0) += 1;
    s
}

/// languages whose model is wired into the Lean driver
const ACTIVE: &[&str] = &["cypher", "sparql", "graphql", "gremlin"];

pub fn generate(seed: u64, cases: usize, out: &mut Vec<String>) {
    let mut r = Rng::new(seed ^ 0x6c657832);
    let mut stats: BTreeMap<&'static str, usize> = BTreeMap::new();
    // ---- fixed boundary lines: every fragment alone, with each truncation, and with an odd tail ----
    for lang in ACTIVE.iter() {
        out.push(format!("# case fixed-{} seed {}", lang, seed));
        emit(out, lang, "");
        for f in frags(lang).iter() {
            emit(out, lang, f);
            emit_truncations(out, lang, f);
            emit(out, lang, &format!("{}é", f));
            emit(out, lang, &format!("x {}", f));
        }
        for o in ODD.iter() {
            emit(out, lang, o);
            emit(out, lang, &format!("a{}1{}", o, o));
        }
    }
    for case in 0..cases {
        out.push(format!("# case {} seed {}", case, seed));
        for lang in ACTIVE.iter() {
            let t = gen_text(&mut r, lang, &mut stats);
            emit(out, lang, &t);
        }
    }
    if std::env::var("VH_STATS").is_ok() {
        // distribution of generator modes and of token kinds the real lexers produced
        let mut kinds: BTreeMap<String, usize> = BTreeMap::new();
        for l in out.iter() {
            let toks: Vec<&str> = l.split(' ').collect();
            if toks.len() >= 3 && toks[0] == "lex2" && !toks[1].ends_with(".ok") {
                if let Some(t) = text_arg(toks[2]) {
                    let res = guarded(|| show(&lex(toks[1], &t).unwrap().0, true));
                    for tk in res.split(',') {
                        let k = tk.split(':').next().unwrap_or("");
                        *kinds.entry(format!("{}/{}", toks[1], k)).or_insert(0) += 1;
                    }
                }
            }
        }
        eprintln!("lex2 generator modes: {:?}", stats);
        eprintln!("lex2 token kinds: {:?}", kinds);
    }
}
