//! Stream `lpg` — LpgStore driven directly (C14).
use crate::util::*;
use crate::vals::untok;
use grafeo_common::types::{EdgeId, NodeId, PropertyKey, Value};
use grafeo_core::graph::Direction;
use grafeo_core::graph::lpg::{LpgStore, LpgStoreConfig};

pub struct LpgSt {
    store: LpgStore,
}

impl LpgSt {
    pub fn new() -> Self {
        LpgSt { store: LpgStore::new() }
    }
}

fn label(code: &str) -> String {
    format!("L{}", code)
}
fn key(code: &str) -> String {
    format!("k{}", code)
}
fn code_of(s: &str) -> u64 {
    s[1..].parse().unwrap()
}

const TOKENS: [&str; 6] = ["I1", "I2", "I3", "S61", "S62", "B1"];

pub fn generate(seed: u64, cases: usize, out: &mut Vec<String>) {
    let mut r = Rng::new(seed ^ 0x6c7067);
    for c in 0..cases {
        out.push(format!("# case {} seed {}", c, seed));
        out.push(format!("lpg new {}", if r.chance(3, 4) { 1 } else { 0 }));
        let long = r.chance(1, 8);
        let len = if long { r.range(150, 420) } else { r.range(8, 60) };
        let hub_heavy = r.chance(1, 3);
        let (mut nn, mut ne) = (0u64, 0u64);
        for _ in 0..len {
            let k = r.below(100);
            let node = |r: &mut Rng, nn: u64| if nn == 0 || r.chance(1, 30) { nn + r.below(2) } else { r.below(nn) };
            match k {
                0..=17 => {
                    let ls: Vec<u64> = (0..r.below(3)).map(|_| r.below(3)).collect();
                    out.push(format!("lpg cn {}", list_arg(&ls)));
                    nn += 1;
                }
                18..=39 => {
                    if nn == 0 {
                        continue;
                    }
                    // hub-heavy cases push one node's adjacency list across the chunk thresholds
                    let s = if hub_heavy && r.chance(3, 4) { 0 } else { r.below(nn) };
                    let d = if r.chance(1, 6) { s } else { r.below(nn) };
                    out.push(format!("lpg ce {} {} {}", s, d, r.below(2)));
                    ne += 1;
                }
                40..=46 => {
                    let e = if ne == 0 || r.chance(1, 20) { ne + r.below(2) } else { r.below(ne) };
                    out.push(format!("lpg de {}", e));
                }
                47..=51 => out.push(format!("lpg dn {}", node(&mut r, nn))),
                52..=53 => {
                    let n = node(&mut r, nn);
                    out.push(format!("lpg dne {}", n));
                    out.push(format!("lpg dn {}", n));
                }
                54..=63 => out.push(format!("lpg snp {} {} {}", node(&mut r, nn), r.below(2), r.pick(&TOKENS))),
                64..=66 => out.push(format!("lpg rnp {} {}", node(&mut r, nn), r.below(2))),
                67..=68 => {
                    let e = if ne == 0 { 0 } else { r.below(ne) };
                    out.push(format!("lpg sep {} 0 {}", e, r.pick(&TOKENS)));
                }
                69..=73 => out.push(format!("lpg al {} {}", node(&mut r, nn), r.below(4))),
                74..=77 => out.push(format!("lpg rl {} {}", node(&mut r, nn), r.below(4))),
                78..=79 => out.push(format!("lpg ci {}", r.below(2))),
                80 => out.push(format!("lpg di {}", r.below(2))),
                81..=84 => out.push(format!("lpg nbl {}", r.below(4))),
                85..=87 => out.push(format!("lpg gn {}", node(&mut r, nn))),
                88..=91 => {
                    let n = node(&mut r, nn);
                    out.push(format!("lpg out {}", n));
                    out.push(format!("lpg in {}", n));
                    out.push(format!("lpg deg {}", n));
                }
                92..=95 => out.push(format!("lpg fbp {} {}", r.below(2), r.pick(&TOKENS))),
                96..=97 => out.push("lpg cnt".into()),
                _ => out.push("lpg ids".into()),
            }
        }
        // final sweep: every accessor over everything
        for l in 0..4 {
            out.push(format!("lpg nbl {}", l));
        }
        for n in 0..nn.min(12) {
            out.push(format!("lpg gn {}", n));
            out.push(format!("lpg out {}", n));
            out.push(format!("lpg in {}", n));
            out.push(format!("lpg deg {}", n));
        }
        for k in 0..2 {
            for t in TOKENS {
                out.push(format!("lpg fbp {} {}", k, t));
            }
        }
        out.push("lpg cnt".into());
        out.push("lpg ids".into());
    }
}

fn ids<T: Iterator<Item = u64>>(it: T) -> String {
    let mut v: Vec<u64> = it.collect();
    v.sort_unstable();
    if v.is_empty() { "-".into() } else { join(&v) }
}

fn pairs(mut v: Vec<(u64, u64)>) -> String {
    v.sort_unstable();
    if v.is_empty() { "-".into() } else { v.iter().map(|(a, b)| format!("{}.{}", a, b)).collect::<Vec<_>>().join(",") }
}

pub fn run(st: &mut LpgSt, args: &[&str]) -> String {
    let a = args.to_vec();
    guarded(move || {
        let s = &st.store;
        let nid = |x: &str| NodeId::new(x.parse().unwrap());
        let eid = |x: &str| EdgeId::new(x.parse().unwrap());
        match a.as_slice() {
            ["new", b] => {
                st.store = LpgStore::with_config(LpgStoreConfig { backward_edges: *b == "1", ..LpgStoreConfig::default() });
                "-".into()
            }
            ["cn", ls] => {
                let labels: Vec<String> = parse_u64s(ls).unwrap().iter().map(|c| label(&c.to_string())).collect();
                let refs: Vec<&str> = labels.iter().map(|x| x.as_str()).collect();
                format!("{}", s.create_node(&refs).as_u64())
            }
            ["dn", id] => format!("{}", s.delete_node(nid(id))),
            ["dne", id] => {
                s.delete_node_edges(nid(id));
                "-".into()
            }
            ["ce", sr, d, t] => format!("{}", s.create_edge(nid(sr), nid(d), &format!("T{}", t)).as_u64()),
            ["de", id] => format!("{}", s.delete_edge(eid(id))),
            ["snp", id, k, v] => {
                s.set_node_property(nid(id), &key(k), untok(v));
                "-".into()
            }
            ["rnp", id, k] => match s.remove_node_property(nid(id), &key(k)) {
                Some(v) => crate::vals::tok(&v),
                None => "none".into(),
            },
            ["sep", id, k, v] => {
                s.set_edge_property(eid(id), &key(k), untok(v));
                "-".into()
            }
            ["al", id, l] => format!("{}", s.add_label(nid(id), &label(l))),
            ["rl", id, l] => format!("{}", s.remove_label(nid(id), &label(l))),
            ["ci", k] => {
                s.create_property_index(&key(k));
                "-".into()
            }
            ["di", k] => {
                s.drop_property_index(&key(k));
                "-".into()
            }
            ["nbl", l] => ids(s.nodes_by_label(&label(l)).into_iter().map(|n| n.as_u64())),
            ["gn", id] => match s.get_node(nid(id)) {
                None => "none".into(),
                Some(n) => {
                    let mut ls: Vec<u64> = n.labels.iter().map(|l| code_of(l.as_str())).collect();
                    ls.sort_unstable();
                    let mut ps: Vec<(u64, String)> =
                        n.properties.iter().map(|(k, v)| (code_of(k.as_str()), crate::vals::tok(v))).collect();
                    ps.sort();
                    // the per-key accessor must agree with the node view
                    for (k, v) in &ps {
                        let got = s.get_node_property(nid(id), &PropertyKey::new(format!("k{}", k)));
                        assert_eq!(got.map(|x| crate::vals::tok(&x)), Some(v.clone()));
                    }
                    format!("{};{}", join(&ls), ps.iter().map(|(k, v)| format!("{}={}", k, v)).collect::<Vec<_>>().join(","))
                }
            },
            ["out", n] => {
                let v: Vec<(u64, u64)> = s.edges_from(nid(n), Direction::Outgoing).map(|(o, e)| (o.as_u64(), e.as_u64())).collect();
                // neighbors() must list the same targets
                let mut nb: Vec<u64> = s.neighbors(nid(n), Direction::Outgoing).map(|x| x.as_u64()).collect();
                nb.sort_unstable();
                let mut t: Vec<u64> = v.iter().map(|p| p.0).collect();
                t.sort_unstable();
                if nb != t {
                    return format!("neighbors-differ:{:?}|{:?}", nb, t);
                }
                pairs(v)
            }
            ["in", n] => {
                let v: Vec<(u64, u64)> = s.edges_to(nid(n)).into_iter().map(|(o, e)| (o.as_u64(), e.as_u64())).collect();
                pairs(v)
            }
            ["deg", n] => format!("{};{}", s.out_degree(nid(n)), s.in_degree(nid(n))),
            ["fbp", k, v] => ids(s.find_nodes_by_property(&key(k), &untok(v)).into_iter().map(|n| n.as_u64())),
            ["cnt"] => format!("{};{}", s.node_count(), s.edge_count()),
            ["ids"] => {
                let n = ids(s.node_ids().into_iter().map(|n| n.as_u64()));
                let an = ids(s.all_nodes().map(|n| n.id.as_u64()));
                if n != an {
                    return format!("all_nodes-differs:{}|{}", n, an);
                }
                format!("{};{}", n, ids(s.all_edges().map(|e| e.id.as_u64())))
            }
            _ => "bad-op".into(),
        }
    })
}

#[allow(dead_code)]
fn _unused(_: Value) {}
