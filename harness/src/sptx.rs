//! stream `sptx`: SPARQL updates and reads inside / outside explicit session transactions.
//!
//!   sptx run <script>
//!
//! `<script>` = `;`-separated steps over sessions s0..s2 of one in-memory `GrafeoDB`:
//!   b<s> begin_tx   c<s> commit   r<s> rollback
//!   i<s>:<k> INSERT DATA { t_k }   d<s>:<k> DELETE DATA { t_k }     (Session::execute_sparql)
//!   q<s> SELECT ?s ?p ?o WHERE { ?s ?p ?o }   a<s>:<k> point lookup of t_k
//! t_k = <http://e/s{k/4}> <http://e/p{k%2}> <http://e/o{k%4}>, k in 0..6.
//! Output: result of every b/c/r/q/a step joined with `|`: ok / err / sorted code list / e.
#![allow(unused)]
use crate::util::*;
use grafeo_common::types::Value;
use grafeo_engine::database::GrafeoDB;

const POOL: u64 = 6;

fn triple_text(k: usize) -> String {
    format!("<http://e/s{}> <http://e/p{}> <http://e/o{}>", k / 4, k % 2, k % 4)
}

fn cell(v: &Value) -> String {
    match v {
        Value::String(s) => s.to_string(),
        other => format!("{:?}", other),
    }
}

fn num_after(s: &str, prefix: &str) -> Option<usize> {
    let s = s.trim_start_matches('<').trim_end_matches('>');
    s.strip_prefix(prefix)?.parse().ok()
}

fn code_of_row(s: &str, p: &str, o: &str) -> Option<usize> {
    let a = num_after(s, "http://e/s")?;
    let b = num_after(p, "http://e/p")?;
    let c = num_after(o, "http://e/o")?;
    if c < 4 && b == c % 2 { Some(4 * a + c) } else { None }
}

fn show_codes(mut codes: Vec<usize>) -> String {
    if codes.is_empty() {
        return "e".into();
    }
    codes.sort();
    join(&codes)
}

pub fn run(toks: &[&str]) -> String {
    if toks.len() != 2 || toks[0] != "run" {
        return "bad-op".into();
    }
    // parse first: an unparseable script is a bad op, nothing is executed
    let mut steps: Vec<(char, usize, usize)> = Vec::new();
    for tok in toks[1].split(';') {
        let mut ch = tok.chars();
        let Some(c) = ch.next() else { return "bad-op".into() };
        let rest: &str = ch.as_str();
        let needs_t = matches!(c, 'i' | 'd' | 'a');
        if !matches!(c, 'b' | 'c' | 'r' | 'q' | 'i' | 'd' | 'a') {
            return "bad-op".into();
        }
        let (s, k) = if needs_t {
            let parts: Vec<&str> = rest.split(':').collect();
            if parts.len() != 2 {
                return "bad-op".into();
            }
            match (parse_nat(parts[0]), parse_nat(parts[1])) {
                (Some(s), Some(k)) if s < 3 && k < POOL as usize => (s, k),
                _ => return "bad-op".into(),
            }
        } else {
            match parse_nat(rest) {
                Some(s) if s < 3 => (s, 0),
                _ => return "bad-op".into(),
            }
        };
        steps.push((c, s, k));
    }
    guarded(move || {
        let db = GrafeoDB::new_in_memory();
        let mut sess = vec![db.session(), db.session(), db.session()];
        let mut out: Vec<String> = Vec::new();
        for (c, s, k) in steps {
            match c {
                'b' => out.push(if sess[s].begin_tx().is_ok() { "ok".into() } else { "err".into() }),
                'c' => out.push(if sess[s].commit().is_ok() { "ok".into() } else { "err".into() }),
                'r' => out.push(if sess[s].rollback().is_ok() { "ok".into() } else { "err".into() }),
                'i' => {
                    if let Err(e) = sess[s].execute_sparql(&format!("INSERT DATA {{ {} }}", triple_text(k))) {
                        out.push(format!("upd-err:{}", hex(e.to_string().as_bytes())));
                    }
                }
                'd' => {
                    if let Err(e) = sess[s].execute_sparql(&format!("DELETE DATA {{ {} }}", triple_text(k))) {
                        out.push(format!("upd-err:{}", hex(e.to_string().as_bytes())));
                    }
                }
                'q' => match sess[s].execute_sparql("SELECT ?s ?p ?o WHERE { ?s ?p ?o }") {
                    Ok(r) => {
                        let mut codes = Vec::new();
                        let mut bad = None;
                        for row in &r.rows {
                            let cs: Vec<String> = row.iter().map(cell).collect();
                            match (cs.len() == 3).then(|| code_of_row(&cs[0], &cs[1], &cs[2])).flatten() {
                                Some(c) => codes.push(c),
                                None => bad = Some(cs.join(" ")),
                            }
                        }
                        out.push(match bad {
                            Some(b) => format!("row?{}", hex(b.as_bytes())),
                            None => show_codes(codes),
                        });
                    }
                    Err(e) => out.push(format!("q-err:{}", hex(e.to_string().as_bytes()))),
                },
                _ => {
                    // point lookup: subject and predicate constant, object filtered here
                    let q = format!(
                        "SELECT ?o WHERE {{ <http://e/s{}> <http://e/p{}> ?o }}",
                        k / 4,
                        k % 2
                    );
                    match sess[s].execute_sparql(&q) {
                        Ok(r) => {
                            let want = format!("http://e/o{}", k % 4);
                            let n = r
                                .rows
                                .iter()
                                .filter(|row| row.len() == 1 && cell(&row[0]).trim_start_matches('<').trim_end_matches('>') == want)
                                .count();
                            out.push(show_codes(vec![k; n]));
                        }
                        Err(e) => out.push(format!("a-err:{}", hex(e.to_string().as_bytes()))),
                    }
                }
            }
        }
        if out.is_empty() { "none".into() } else { out.join("|") }
    })
}

fn parse_nat(s: &str) -> Option<usize> {
    if s.is_empty() || !s.bytes().all(|b| b.is_ascii_digit()) || s.len() > 3 {
        return None;
    }
    s.parse().ok()
}

pub fn generate(seed: u64, cases: usize, out: &mut Vec<String>) {
    let mut rng = Rng::new(seed ^ 0x5350_5458);
    let stats = std::env::var("VH_STATS").is_ok();
    let mut dist = std::collections::BTreeMap::<&'static str, usize>::new();
    out.push(format!("# case 0 seed {}", seed));
    for l in [
        "q0",
        "i0:0;q0;a0:0;a1:1",
        // the seeded trace: re-insert after delete inside a transaction
        "i0:3;b0;d0:3;i0:3;c0;q0",
        "i0:3;b0;d0:3;i0:3;q0;q1;c0;q0;q1",
        "b0;i0:1;q0;q1;c0;q0;q1",
        "b0;i0:1;q0;r0;q0",
        "i0:2;b0;d0:2;a0:2;a1:2;r0;a0:2",
        "b0;b0;c0;c0;r0",
        "b0;b1;i1:4;c1;q0;c0",
        "b0;i0:0;b1;i1:0;d1:0;c0;c1;q2",
        "b0;i0:5;i0:5;d0:5;c0;q0",
        "i0:0;i0:0;d0:0;q0;d0:0;q0",
    ] {
        if l.is_empty() {
            out.push("sptx run".into());
        } else {
            out.push(format!("sptx run {}", l));
        }
    }
    for case in 1..=cases {
        out.push(format!("# case {} seed {}", case, seed));
        let nsess = rng.range(1, 3);
        let len = rng.range(2, 14);
        let npool = rng.range(2, POOL);
        let mut open = [false; 3];
        let mut steps: Vec<String> = Vec::new();
        for _ in 0..len {
            let s = rng.below(nsess) as usize;
            let k = rng.below(npool);
            let r = rng.below(100);
            let (name, tok): (&'static str, String) = if r < 12 {
                if open[s] && !rng.chance(1, 8) {
                    ("i-in", format!("i{}:{}", s, k))
                } else {
                    open[s] = true;
                    ("b", format!("b{}", s))
                }
            } else if r < 22 {
                if open[s] || rng.chance(1, 6) {
                    open[s] = false;
                    ("c", format!("c{}", s))
                } else {
                    open[s] = true;
                    ("b", format!("b{}", s))
                }
            } else if r < 30 {
                if open[s] || rng.chance(1, 6) {
                    open[s] = false;
                    ("r", format!("r{}", s))
                } else {
                    open[s] = true;
                    ("b", format!("b{}", s))
                }
            } else if r < 52 {
                (if open[s] { "i-in" } else { "i-auto" }, format!("i{}:{}", s, k))
            } else if r < 70 {
                (if open[s] { "d-in" } else { "d-auto" }, format!("d{}:{}", s, k))
            } else if r < 88 {
                (if open[s] { "q-in" } else { "q-out" }, format!("q{}", s))
            } else {
                (if open[s] { "a-in" } else { "a-out" }, format!("a{}:{}", s, k))
            };
            *dist.entry(name).or_default() += 1;
            steps.push(tok);
        }
        // finish: mostly commit/rollback what is open, then read from every session
        for s in 0..nsess as usize {
            if open[s] && rng.chance(5, 6) {
                steps.push(format!("{}{}", if rng.chance(2, 3) { 'c' } else { 'r' }, s));
            }
        }
        steps.push(format!("q{}", rng.below(nsess)));
        if rng.chance(1, 25) {
            // invalid-state share: a commit / rollback / second begin at a random place
            let at = rng.below(steps.len() as u64) as usize;
            let c = *rng.pick(&['b', 'c', 'r']);
            steps.insert(at, format!("{}{}", c, rng.below(nsess)));
            *dist.entry("invalid-state").or_default() += 1;
        }
        out.push(format!("sptx run {}", steps.join(";")));
    }
    if stats {
        eprintln!("sptx step distribution: {:?}", dist);
    }
}
