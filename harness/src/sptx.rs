//! stream `sptx` (stub; replaced by its builder)
pub fn generate(_seed: u64, _cases: usize, _out: &mut Vec<String>) {}
pub fn run(_toks: &[&str]) -> String {
    "bad-op".to_string()
}
