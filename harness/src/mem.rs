//! Stream `mem` — `BufferManager` accounting under a forced thread interleaving (C20, memory clause).
//!
//!   mem run <hard> <progs> <sched>   → res=<per thread 1/0 string>;… alloc=<n> regions=a.b.c.d max=<m> held=<n>
//!   mem inv <hard> <progs> <sched>   → ok | over-limit | accounting   (the property's verdict on the same run)
//!
//!   progs = thread programs separated by `;`, ops by `,`:  a<size>.<region>  try_allocate,  d<k>  drop the
//!           k-th grant the thread still holds;  `-` = empty program
//!   sched = comma separated worker indices (`-` = empty); afterwards every worker runs to completion
use crate::sched::run_schedule;
use crate::util::*;
use grafeo_common::memory::buffer::{BufferManager, BufferManagerConfig, MemoryGrant, MemoryRegion};
use std::sync::{Arc, Mutex};

#[derive(Clone, Debug)]
enum Op {
    Alloc(usize, usize),
    Drop(usize),
}

fn parse_progs(s: &str) -> Option<Vec<Vec<Op>>> {
    s.split(';')
        .map(|p| {
            if p == "-" || p.is_empty() {
                return Some(vec![]);
            }
            p.split(',')
                .map(|o| {
                    if let Some(r) = o.strip_prefix('a') {
                        let (a, b) = r.split_once('.')?;
                        Some(Op::Alloc(a.parse().ok()?, b.parse().ok()?))
                    } else if let Some(r) = o.strip_prefix('d') {
                        Some(Op::Drop(r.parse().ok()?))
                    } else {
                        None
                    }
                })
                .collect()
        })
        .collect()
}

fn region(i: usize) -> MemoryRegion {
    match i {
        0 => MemoryRegion::GraphStorage,
        1 => MemoryRegion::IndexBuffers,
        2 => MemoryRegion::ExecutionBuffers,
        _ => MemoryRegion::SpillStaging,
    }
}

struct Outcome {
    results: Vec<String>,
    alloc: usize,
    regions: [usize; 4],
    max: usize,
    held: usize,
}

fn execute(hard: usize, progs: Vec<Vec<Op>>, sched: &[usize]) -> Result<Outcome, String> {
    // the hard limit is budget * hard_limit_fraction; a fraction of 1.0 makes it the budget itself
    let mut cfg = BufferManagerConfig::with_budget(hard);
    cfg.hard_limit_fraction = 1.0;
    cfg.soft_limit_fraction = 1.0;
    cfg.evict_limit_fraction = 1.0;
    let bm = BufferManager::new(cfg);
    let n = progs.len();
    let results: Arc<Mutex<Vec<String>>> = Arc::new(Mutex::new(vec![String::new(); n]));
    let held: Arc<Mutex<Vec<Vec<MemoryGrant>>>> = Arc::new(Mutex::new((0..n).map(|_| Vec::new()).collect()));
    let max = Arc::new(Mutex::new(0usize));
    let (bm2, res2, held2) = (Arc::clone(&bm), Arc::clone(&results), Arc::clone(&held));
    let progs = Arc::new(progs);
    let body = move |tid: usize| {
        let mut mine: Vec<MemoryGrant> = Vec::new();
        for (i, op) in progs[tid].iter().enumerate() {
            // one scheduler step for picking the operation up (the model's `idle` step); for the
            // first operation that is the step that releases the worker from its start position
            if i > 0 {
                grafeo_common::verif::yield_point("mem.op");
            }
            match op {
                Op::Alloc(s, r) => {
                    let g = bm2.try_allocate(*s, region(*r));
                    res2.lock().unwrap()[tid].push(if g.is_some() { '1' } else { '0' });
                    if let Some(g) = g {
                        mine.push(g);
                    }
                }
                Op::Drop(k) => {
                    if *k < mine.len() {
                        drop(mine.remove(*k));
                    }
                }
            }
        }
        // keep what is still held alive until the outcome has been read
        held2.lock().unwrap()[tid] = mine;
    };
    let (bm3, max3) = (Arc::clone(&bm), Arc::clone(&max));
    run_schedule(n, sched, body, move || {
        let a = bm3.allocated();
        let mut m = max3.lock().unwrap();
        if a > *m {
            *m = a;
        }
    })?;
    let st = bm.stats();
    let held_total: usize = held.lock().unwrap().iter().map(|v| v.iter().map(|g| g.size()).sum::<usize>()).sum();
    let out = Outcome {
        results: results.lock().unwrap().iter().map(|s| if s.is_empty() { "-".to_string() } else { s.clone() }).collect(),
        alloc: st.total_allocated,
        regions: st.region_allocated,
        max: *max.lock().unwrap(),
        held: held_total,
    };
    Ok(out)
}

pub fn generate(seed: u64, cases: usize, out: &mut Vec<String>) {
    let mut r = Rng::new(seed ^ 0x6d656d);
    for c in 0..cases {
        out.push(format!("# case {} seed {}", c, seed));
        let hard = *r.pick(&[100usize, 100, 64, 1000, 1]);
        let nthreads = r.range(2, 4) as usize;
        let mut progs: Vec<String> = Vec::new();
        let mut steps = 0usize;
        for _ in 0..nthreads {
            let nops = r.range(1, 5) as usize;
            let mut ops = Vec::new();
            let mut holding = 0u64;
            for _ in 0..nops {
                if holding > 0 && r.chance(1, 3) {
                    ops.push(format!("d{}", r.below(holding)));
                    holding -= 1;
                } else {
                    // sizes around the limit so that refusals and races at the boundary are common
                    let s = match r.below(5) {
                        0 => hard as u64,
                        1 => hard as u64 / 2 + 1,
                        2 => hard as u64 / 2,
                        3 => 1,
                        _ => r.range(1, hard as u64 + 2),
                    };
                    ops.push(format!("a{}.{}", s, r.below(4)));
                    holding += 1; // optimistic: a refused allocation makes a later drop index a no-op
                }
                steps += 8;
            }
            progs.push(ops.join(","));
        }
        let sched: Vec<usize> = (0..r.below(steps as u64 + 1)).map(|_| r.below(nthreads as u64) as usize).collect();
        let (p, s) = (progs.join(";"), list_arg(&sched));
        out.push(format!("mem run {} {} {}", hard, p, s));
        out.push(format!("mem inv {} {} {}", hard, p, s));
    }
}

pub fn run(args: &[&str]) -> String {
    let a: Vec<String> = args.iter().map(|s| s.to_string()).collect();
    guarded(move || {
        let a: Vec<&str> = a.iter().map(|s| s.as_str()).collect();
        match a.as_slice() {
            [kind @ ("run" | "inv"), hard, progs, sched] => {
                let (Ok(hard), Some(progs), Some(sched)) = (hard.parse::<usize>(), parse_progs(progs), parse_u64s(sched)) else {
                    return "bad-op".to_string();
                };
                let sched: Vec<usize> = sched.iter().map(|x| *x as usize).collect();
                match execute(hard, progs, &sched) {
                    Err(e) => format!("stuck:{}", e.replace(' ', "_")),
                    Ok(o) => {
                        if *kind == "run" {
                            format!(
                                "res={} alloc={} regions={}.{}.{}.{} max={} held={}",
                                o.results.join(";"), o.alloc, o.regions[0], o.regions[1], o.regions[2], o.regions[3], o.max, o.held
                            )
                        } else if o.max > hard {
                            "over-limit".to_string()
                        } else if o.alloc != o.held || o.regions.iter().sum::<usize>() != o.held {
                            "accounting".to_string()
                        } else {
                            "ok".to_string()
                        }
                    }
                }
            }
            _ => "bad-op".into(),
        }
    })
}
