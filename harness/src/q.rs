//! Stream `q` — read queries from the core grammar, rendered as GQL / Cypher text and run
//! through the real front end on a graph described in the op line (C08; C10 reuses it).
use crate::util::*;
use crate::vals::tok;
use grafeo_common::types::{NodeId, Value};
use grafeo_engine::database::GrafeoDB;

// ------------------------------------------------------------------ op line pieces

#[derive(Clone)]
pub struct GNode {
    pub id: u64,
    pub labels: Vec<u64>,
    pub props: Vec<(u64, String)>, // key code, value token
}
#[derive(Clone)]
pub struct GEdge {
    pub id: u64,
    pub src: u64,
    pub dst: u64,
    pub ty: u64,
}

pub fn nodes_arg(ns: &[GNode]) -> String {
    if ns.is_empty() {
        return "-".into();
    }
    ns.iter()
        .map(|n| {
            format!(
                "{}:{}:{}",
                n.id,
                n.labels.iter().map(|l| l.to_string()).collect::<Vec<_>>().join("."),
                n.props.iter().map(|(k, v)| format!("{}={}", k, v)).collect::<Vec<_>>().join("&")
            )
        })
        .collect::<Vec<_>>()
        .join(",")
}

pub fn edges_arg(es: &[GEdge]) -> String {
    if es.is_empty() {
        return "-".into();
    }
    es.iter().map(|e| format!("{}:{}>{}:{}", e.id, e.src, e.dst, e.ty)).collect::<Vec<_>>().join(",")
}

pub fn parse_nodes(s: &str) -> Vec<GNode> {
    if s == "-" {
        return vec![];
    }
    s.split(',')
        .map(|n| {
            let p: Vec<&str> = n.split(':').collect();
            GNode {
                id: p[0].parse().unwrap(),
                labels: if p[1].is_empty() { vec![] } else { p[1].split('.').map(|x| x.parse().unwrap()).collect() },
                props: if p[2].is_empty() {
                    vec![]
                } else {
                    p[2].split('&')
                        .map(|kv| {
                            let (k, v) = kv.split_once('=').unwrap();
                            (k.parse().unwrap(), v.to_string())
                        })
                        .collect()
                },
            }
        })
        .collect()
}

pub fn parse_edges(s: &str) -> Vec<GEdge> {
    if s == "-" {
        return vec![];
    }
    s.split(',')
        .map(|e| {
            let p: Vec<&str> = e.split(':').collect();
            let (a, b) = p[1].split_once('>').unwrap();
            GEdge { id: p[0].parse().unwrap(), src: a.parse().unwrap(), dst: b.parse().unwrap(), ty: p[2].parse().unwrap() }
        })
        .collect()
}

/// Build the graph through the database-level API (everything at epoch 0). Node ids in the op
/// line are creation order, so they coincide with the ids the store hands out.
pub fn build_db(nodes: &[GNode], edges: &[GEdge]) -> GrafeoDB {
    let db = GrafeoDB::new_in_memory();
    for n in nodes {
        let labels: Vec<String> = n.labels.iter().map(|l| format!("L{}", l)).collect();
        let refs: Vec<&str> = labels.iter().map(|s| s.as_str()).collect();
        let id = db.create_node(&refs);
        assert_eq!(id.as_u64(), n.id);
        for (k, v) in &n.props {
            db.set_node_property(id, &format!("k{}", k), crate::vals::untok(v));
        }
    }
    for e in edges {
        let id = db.create_edge(NodeId::new(e.src), NodeId::new(e.dst), &format!("T{}", e.ty));
        assert_eq!(id.as_u64(), e.id);
    }
    db
}

fn lit(v: &str) -> String {
    match crate::vals::untok(v) {
        Value::Int64(i) => i.to_string(),
        Value::String(s) => format!("'{}'", s),
        Value::Null => "null".into(),
        other => panic!("literal {:?}", other),
    }
}

const VARS: [&str; 3] = ["a", "b", "c"];

/// Render the query pieces as GQL / Cypher text (the fragment is common to both).
pub fn render(start: &str, hops: &str, preds: &str, ret: &str, distinct: &str, ord: &str, skip: &str, lim: &str) -> String {
    let lab = |l: &str| if l == "*" { String::new() } else { format!(":L{}", l) };
    let mut s = format!("MATCH (a{})", lab(start));
    if hops != "-" {
        for (i, h) in hops.split(',').enumerate() {
            let p: Vec<&str> = h.split('/').collect();
            let ty = if p[0] == "*" { String::new() } else { format!(":T{}", p[0]) };
            let (l, r) = match p[1] {
                "o" => ("-", "->"),
                "i" => ("<-", "-"),
                _ => ("-", "-"),
            };
            let range = if p.len() == 5 { if p[3] == p[4] { format!("*{}", p[3]) } else { format!("*{}..{}", p[3], p[4]) } } else { String::new() };
            s += &format!("{}[{}{}]{}({}{})", l, ty, range, r, VARS[i + 1], lab(p[2]));
        }
    }
    if preds != "-" {
        let ps: Vec<String> = preds
            .split(',')
            .map(|p| {
                let f: Vec<&str> = p.split('/').collect();
                let target = format!("{}.k{}", VARS[f[1].parse::<usize>().unwrap()], f[2]);
                let op = |o: &str| match o {
                    "eq" => "=",
                    "ne" => "<>",
                    "lt" => "<",
                    "le" => "<=",
                    "gt" => ">",
                    _ => ">=",
                };
                match f[0] {
                    "c" => format!("{} {} {}", target, op(f[3]), lit(f[4])),
                    "n" => format!("NOT ({} {} {})", target, op(f[3]), lit(f[4])),
                    "z" => format!("{} IS NULL", target),
                    _ => format!("{} IS NOT NULL", target),
                }
            })
            .collect();
        s += &format!(" WHERE {}", ps.join(" AND "));
    }
    let cols: Vec<String> = if ret == "c" {
        vec!["count(a)".to_string()]
    } else {
        ret.split(',')
            .map(|c| {
                let (v, k) = c.split_once('.').unwrap();
                format!("{}.k{}", VARS[v.parse::<usize>().unwrap()], k)
            })
            .collect()
    };
    s += &format!(" RETURN {}{}", if distinct == "1" { "DISTINCT " } else { "" }, cols.join(", "));
    if ord != "-" {
        let os: Vec<String> = ord
            .split(',')
            .map(|o| {
                let (i, d) = o.split_at(o.len() - 1);
                format!("{}{}", cols[i.parse::<usize>().unwrap()], if d == "d" { " DESC" } else { "" })
            })
            .collect();
        s += &format!(" ORDER BY {}", os.join(", "));
    }
    if skip != "-" {
        s += &format!(" SKIP {}", skip);
    }
    if lim != "-" {
        s += &format!(" LIMIT {}", lim);
    }
    s
}

pub fn show_rows(ordered: bool, rows: &[Vec<Value>]) -> String {
    let mut rs: Vec<String> = rows.iter().map(|r| r.iter().map(tok).collect::<Vec<_>>().join("|")).collect();
    if !ordered {
        rs.sort();
    }
    if rs.is_empty() { "norows".into() } else { rs.join(";") }
}

// ------------------------------------------------------------------ generator

pub struct GenQ {
    pub nodes: Vec<GNode>,
    pub edges: Vec<GEdge>,
    pub start: String,
    pub hops: String,
    pub preds: String,
    pub ret: String,
    pub distinct: String,
    pub ord: String,
    pub skip: String,
    pub lim: String,
}

pub fn gen_graph(r: &mut Rng) -> (Vec<GNode>, Vec<GEdge>) {
    let nn = match r.below(6) {
        0 => 0,
        1 => 1,
        _ => r.range(2, 9),
    };
    let vals = ["I1", "I2", "I3", "I5", "S61", "S62", "I-4"];
    let nodes: Vec<GNode> = (0..nn)
        .map(|id| {
            let mut labels: Vec<u64> = (0..r.below(3)).map(|_| r.below(3)).collect();
            labels.sort_unstable();
            labels.dedup();
            // key 9 is a unique integer per node (a total sort key); keys 0..2 are sparse and heterogeneous
            let mut props = vec![(9u64, format!("I{}", id * 10))];
            for k in 0..3 {
                if r.chance(3, 5) {
                    props.push((k, r.pick(&vals).to_string()));
                }
            }
            GNode { id, labels, props }
        })
        .collect();
    let ne = if nn == 0 { 0 } else { r.below(14) };
    let edges: Vec<GEdge> = (0..ne)
        .map(|id| {
            let s = r.below(nn);
            // self-loops and parallel edges on purpose
            let d = if r.chance(1, 6) { s } else { r.below(nn) };
            GEdge { id, src: s, dst: d, ty: r.below(2) }
        })
        .collect();
    (nodes, edges)
}

pub fn gen_query(r: &mut Rng) -> (String, String, String, String, String, String, String, String) {
    let lab = |r: &mut Rng| if r.chance(1, 2) { "*".to_string() } else { r.below(3).to_string() };
    let start = lab(r);
    let nh = *r.pick(&[0usize, 0, 1, 1, 1, 2]);
    let hops: Vec<String> = (0..nh)
        .map(|_| format!("{}/{}/{}", if r.chance(1, 2) { "*".to_string() } else { r.below(2).to_string() }, r.pick(&["o", "o", "i", "b"]), lab(r)))
        .collect();
    let nvars = nh + 1;
    let np = r.below(3);
    let lits = ["I1", "I2", "I3", "I5", "S61", "S62"];
    let preds: Vec<String> = (0..np)
        .map(|_| {
            let v = r.below(nvars as u64);
            let k = r.below(3);
            match r.below(8) {
                0 => format!("z/{}/{}", v, k),
                1 => format!("y/{}/{}", v, k),
                2 => format!("n/{}/{}/{}/{}", v, k, r.pick(&["eq", "lt", "ge"]), r.pick(&lits)),
                _ => format!("c/{}/{}/{}/{}", v, k, r.pick(&["eq", "ne", "lt", "le", "gt", "ge"]), r.pick(&lits)),
            }
        })
        .collect();
    let count = r.chance(1, 6);
    // the unique key of every variable is always returned first, so ORDER BY over these columns is total
    let mut cols: Vec<String> = (0..nvars).map(|v| format!("{}.9", v)).collect();
    for _ in 0..r.below(3) {
        cols.push(format!("{}.{}", r.below(nvars as u64), r.below(3)));
    }
    let distinct_only_cols = r.chance(1, 5);
    let ret = if count {
        "c".to_string()
    } else if distinct_only_cols {
        // without the unique keys, so that DISTINCT has something to merge
        let k = r.below(3);
        format!("{}.{}", r.below(nvars as u64), k)
    } else {
        cols.join(",")
    };
    let distinct = if !count && (distinct_only_cols || r.chance(1, 6)) { "1" } else { "0" };
    let can_order = !count && !distinct_only_cols;
    let ordered = can_order && r.chance(1, 2);
    let ord = if ordered { (0..nvars).map(|i| format!("{}{}", i, if r.chance(1, 3) { "d" } else { "a" })).collect::<Vec<_>>().join(",") } else { "-".into() };
    let (skip, lim) = if ordered && r.chance(2, 3) {
        (if r.chance(1, 2) { r.below(4).to_string() } else { "-".into() }, if r.chance(2, 3) { r.below(5).to_string() } else { "-".into() })
    } else {
        ("-".into(), "-".into())
    };
    (
        start,
        if hops.is_empty() { "-".into() } else { hops.join(",") },
        if preds.is_empty() { "-".into() } else { preds.join(",") },
        ret,
        distinct.into(),
        ord,
        skip,
        lim,
    )
}

pub fn generate(seed: u64, cases: usize, out: &mut Vec<String>) {
    let mut r = Rng::new(seed ^ 0x71);
    for c in 0..cases {
        out.push(format!("# case {} seed {}", c, seed));
        let (nodes, edges) = gen_graph(&mut r);
        for _ in 0..4 {
            let (start, hops, preds, ret, distinct, ord, skip, lim) = gen_query(&mut r);
            for lang in ["gql", "cypher"] {
                // GQL's WHERE has no IS [NOT] NULL in this front end: those predicates go to Cypher only
                if lang == "gql" && (preds.contains("z/") || preds.contains("y/")) {
                    continue;
                }
                out.push(format!(
                    "q run {} {} {} {} {} {} {} {} {} {} {}",
                    nodes_arg(&nodes),
                    edges_arg(&edges),
                    start,
                    hops,
                    preds,
                    ret,
                    distinct,
                    ord,
                    skip,
                    lim,
                    lang
                ));
            }
        }
        // one variable-length hop (small graphs: the number of walks grows with the bound)
        if nodes.len() <= 6 && edges.len() <= 8 {
            let lab = |r: &mut Rng| if r.chance(1, 2) { "*".to_string() } else { r.below(3).to_string() };
            let start = lab(&mut r);
            let hop = format!("{}/{}/{}", if r.chance(1, 2) { "*".to_string() } else { r.below(2).to_string() }, r.pick(&["o", "i", "b", "o"]), lab(&mut r));
            let lo = r.below(3);
            let hi = lo + r.below(3);
            let (ret, distinct) = match r.below(3) {
                0 => ("c".to_string(), "0"),
                1 => ("0.9,1.9".to_string(), "0"),
                _ => ("0.9,1.9".to_string(), "1"),
            };
            for lang in ["gql", "cypher"] {
                out.push(format!(
                    "q vrun {} {} {} {} {} {} - {} {} - - - {}",
                    nodes_arg(&nodes), edges_arg(&edges), start, hop, lo, hi, ret, distinct, lang
                ));
            }
        }
    }
}

pub fn run(args: &[&str]) -> String {
    let a = args.to_vec();
    guarded(move || match a.as_slice() {
        ["run", nodes, edges, start, hops, preds, ret, distinct, ord, skip, lim, lang] => {
            let db = build_db(&parse_nodes(nodes), &parse_edges(edges));
            let text = render(start, hops, preds, ret, distinct, ord, skip, lim);
            let session = db.session();
            let res = if *lang == "gql" { session.execute(&text) } else { session.execute_cypher(&text) };
            match res {
                Ok(r) => show_rows(*ord != "-", &r.rows),
                Err(e) => {
                    let m = e.to_string().to_lowercase();
                    let kind = if m.contains("syntax") { "syntax" } else if m.contains("semantic") { "semantic" } else if m.contains("internal") { "internal" } else { "other" };
                    format!("error:{}", kind)
                }
            }
        }
        ["vrun", nodes, edges, start, hop, lo, hi, preds, ret, distinct, ord, skip, lim, lang] => {
            let db = build_db(&parse_nodes(nodes), &parse_edges(edges));
            let text = render(start, &format!("{}/{}/{}", hop, lo, hi), preds, ret, distinct, ord, skip, lim);
            let session = db.session();
            let res = if *lang == "gql" { session.execute(&text) } else { session.execute_cypher(&text) };
            match res {
                Ok(r) => show_rows(*ord != "-", &r.rows),
                Err(e) => {
                    let m = e.to_string().to_lowercase();
                    let kind = if m.contains("syntax") { "syntax" } else if m.contains("semantic") { "semantic" } else if m.contains("internal") { "internal" } else { "other" };
                    format!("error:{}", kind)
                }
            }
        }
        _ => "bad-op".into(),
    })
}
