//! Deterministic thread scheduler for the concurrency streams (C20).
//!
//! Each worker thread installs the `grafeo_common::verif` yield hook; at every yield point (and
//! once before its program starts) it parks until the scheduler hands it the turn.  The scheduler
//! executes a schedule — a list of worker indices — by giving the turn to one parked worker at a
//! time and waiting until that worker parks again or finishes.  Yield points sit only where the
//! worker holds no lock, so the worker that has the turn can always reach its next yield point.
use std::sync::{Arc, Condvar, Mutex};
use std::time::{Duration, Instant};

#[derive(Clone, Copy, PartialEq, Debug)]
pub enum Status {
    Parked,
    Running,
    Done,
}

pub struct Inner {
    pub status: Vec<Status>,
    pub turn: Option<usize>,
    pub at: Vec<&'static str>,
}

pub struct Sched {
    pub inner: Mutex<Inner>,
    pub cv: Condvar,
}

impl Sched {
    pub fn new(n: usize) -> Arc<Self> {
        Arc::new(Sched { inner: Mutex::new(Inner { status: vec![Status::Running; n], turn: None, at: vec!["start"; n] }), cv: Condvar::new() })
    }

    /// worker side: park at `name` until it is this worker's turn
    pub fn park(&self, tid: usize, name: &'static str) {
        let mut g = self.inner.lock().unwrap();
        g.status[tid] = Status::Parked;
        g.at[tid] = name;
        if g.turn == Some(tid) {
            g.turn = None;
        }
        self.cv.notify_all();
        while g.turn != Some(tid) {
            g = self.cv.wait(g).unwrap();
        }
        g.status[tid] = Status::Running;
    }

    /// worker side: the program is finished
    pub fn finish(&self, tid: usize) {
        let mut g = self.inner.lock().unwrap();
        g.status[tid] = Status::Done;
        if g.turn == Some(tid) {
            g.turn = None;
        }
        self.cv.notify_all();
    }

    /// scheduler side: wait until every worker is parked (or done)
    pub fn wait_all_parked(&self) -> bool {
        let t0 = Instant::now();
        let mut g = self.inner.lock().unwrap();
        while g.status.iter().any(|s| *s == Status::Running) {
            let (g2, _) = self.cv.wait_timeout(g, Duration::from_millis(50)).unwrap();
            g = g2;
            if t0.elapsed() > Duration::from_secs(30) {
                return false;
            }
        }
        true
    }

    /// scheduler side: let worker `tid` run to its next yield point; false when it is already done
    /// or out of range; Err when it did not come back (a lock-holding yield point: harness bug, or
    /// a real deadlock)
    pub fn step(&self, tid: usize) -> Result<bool, String> {
        let mut g = self.inner.lock().unwrap();
        if tid >= g.status.len() || g.status[tid] == Status::Done {
            return Ok(false);
        }
        g.turn = Some(tid);
        self.cv.notify_all();
        let t0 = Instant::now();
        while g.turn == Some(tid) {
            let (g2, _) = self.cv.wait_timeout(g, Duration::from_millis(50)).unwrap();
            g = g2;
            if t0.elapsed() > Duration::from_secs(30) {
                return Err(format!("worker {} stuck after {}", tid, g.at[tid]));
            }
        }
        Ok(true)
    }

    pub fn done(&self, tid: usize) -> bool {
        self.inner.lock().unwrap().status[tid] == Status::Done
    }
}

/// run `n` workers under `sched`; `body(tid)` is the worker's program (it runs with the yield hook
/// installed); after the schedule every unfinished worker runs to completion, lowest index first.
/// `observe` is called after every step while all workers are parked.
pub fn run_schedule<F, O>(n: usize, schedule: &[usize], body: F, mut observe: O) -> Result<(), String>
where
    F: Fn(usize) + Send + Sync + 'static,
    O: FnMut(),
{
    let s = Sched::new(n);
    let body = Arc::new(body);
    let mut handles = Vec::new();
    for tid in 0..n {
        let s2 = Arc::clone(&s);
        let b = Arc::clone(&body);
        handles.push(std::thread::spawn(move || {
            let s3 = Arc::clone(&s2);
            grafeo_common::verif::set_yield_hook(Some(Box::new(move |name| s3.park(tid, name))));
            s2.park(tid, "start");
            let r = std::panic::catch_unwind(std::panic::AssertUnwindSafe(|| b(tid)));
            grafeo_common::verif::set_yield_hook(None);
            s2.finish(tid);
            r.is_ok()
        }));
    }
    if !s.wait_all_parked() {
        return Err("workers did not start".into());
    }
    let mut err = None;
    for &tid in schedule {
        match s.step(tid) {
            Ok(true) => observe(),
            Ok(false) => {}
            Err(e) => {
                err = Some(e);
                break;
            }
        }
    }
    if err.is_none() {
        for tid in 0..n {
            while !s.done(tid) {
                match s.step(tid) {
                    Ok(true) => observe(),
                    Ok(false) => break,
                    Err(e) => {
                        err = Some(e);
                        break;
                    }
                }
            }
            if err.is_some() {
                break;
            }
        }
    }
    if let Some(e) = err {
        // stuck workers cannot be joined; leak them (the process is short-lived per line batch)
        return Err(e);
    }
    let mut ok = true;
    for h in handles {
        ok &= h.join().unwrap_or(false);
    }
    if ok { Ok(()) } else { Err("worker panicked".into()) }
}
