//! Stream `idx` — the secondary index structures of grafeo-core:
//! `HashIndex`, `BTreeIndex` (i64 and OrderedFloat keys), `TrieIndex` / `TrieIterator` / `LeapfrogJoin`.
//!
//! Every op line is self-contained (stateless stream).
//!   hash|bt|btf <prog>      prog = `-` | op{,op}
//!        i<k>:<v> insert | r<k> remove | g<k> get | c<k> contains | l len | e is_empty | x clear
//!        bt/btf only: m min | M max | R<lo>_<hi> range, bound = u | i<k> | e<k>
//!        result: per-op results joined by `,` then `|` then the final dump `k:v;k:v`
//!   trie <inserts> <queries>
//!   lf <lists> <prog>
//!   lf2 <tries>
#![allow(unused)]
use crate::util;
use crate::util::Rng;
use grafeo_common::types::{EdgeId, NodeId};
use grafeo_core::index::btree::OrderedFloat;
use grafeo_core::index::trie::{LeapfrogJoin, TrieIndex, TrieIterator};
use grafeo_core::index::{BTreeIndex, HashIndex};
use std::collections::BTreeMap;
use std::ops::Bound;
use std::panic::{AssertUnwindSafe, catch_unwind};

// ───────────────────────── strict scalar parsing ─────────────────────────

fn p_u64(s: &str) -> Option<u64> {
    if s.is_empty() || !s.bytes().all(|b| b.is_ascii_digit()) {
        return None;
    }
    s.parse().ok()
}

fn p_i64(s: &str) -> Option<i64> {
    let body = s.strip_prefix('-').unwrap_or(s);
    if body.is_empty() || !body.bytes().all(|b| b.is_ascii_digit()) {
        return None;
    }
    s.parse().ok()
}

/// `` → empty path, else node ids joined by `.`
fn p_path(s: &str) -> Option<Vec<NodeId>> {
    if s.is_empty() {
        return Some(vec![]);
    }
    s.split('.').map(|t| p_u64(t).map(NodeId)).collect()
}

// ───────────────────────── key abstraction ─────────────────────────

trait Key: Clone {
    fn parse(s: &str) -> Option<Self>;
    fn show(&self) -> String;
}

impl Key for u64 {
    fn parse(s: &str) -> Option<Self> {
        p_u64(s)
    }
    fn show(&self) -> String {
        self.to_string()
    }
}

impl Key for i64 {
    fn parse(s: &str) -> Option<Self> {
        p_i64(s)
    }
    fn show(&self) -> String {
        self.to_string()
    }
}

impl Key for OrderedFloat {
    fn parse(s: &str) -> Option<Self> {
        p_u64(s).map(|b| OrderedFloat(f64::from_bits(b)))
    }
    fn show(&self) -> String {
        canon(self.0.to_bits()).to_string()
    }
}

/// Printed spelling of a float key: every NaN → the canonical quiet NaN, −0 → +0
/// (the keys `OrderedFloat::cmp` cannot tell apart print alike).
fn canon(b: u64) -> u64 {
    if f64::from_bits(b).is_nan() {
        0x7ff8_0000_0000_0000
    } else if b == 0x8000_0000_0000_0000 {
        0
    } else {
        b
    }
}

#[derive(Clone)]
enum Bd<K> {
    U,
    I(K),
    E(K),
}

#[derive(Clone)]
enum Op<K> {
    Ins(K, u64),
    Rem(K),
    Get(K),
    Has(K),
    Len,
    Empty,
    Clear,
    Min,
    Max,
    Range(Bd<K>, Bd<K>),
}

fn p_bound<K: Key>(s: &str) -> Option<Bd<K>> {
    if s == "u" {
        return Some(Bd::U);
    }
    if let Some(k) = s.strip_prefix('i') {
        return K::parse(k).map(Bd::I);
    }
    if let Some(k) = s.strip_prefix('e') {
        return K::parse(k).map(Bd::E);
    }
    None
}

fn p_op<K: Key>(s: &str, ordered: bool) -> Option<Op<K>> {
    match s {
        "l" => return Some(Op::Len),
        "e" => return Some(Op::Empty),
        "x" => return Some(Op::Clear),
        "m" if ordered => return Some(Op::Min),
        "M" if ordered => return Some(Op::Max),
        _ => {}
    }
    let mut cs = s.chars();
    let c = cs.next()?;
    let rest = cs.as_str();
    match c {
        'i' => {
            let (k, v) = rest.split_once(':')?;
            Some(Op::Ins(K::parse(k)?, p_u64(v)?))
        }
        'r' => Some(Op::Rem(K::parse(rest)?)),
        'g' => Some(Op::Get(K::parse(rest)?)),
        'c' => Some(Op::Has(K::parse(rest)?)),
        'R' if ordered => {
            let (lo, hi) = rest.split_once('_')?;
            Some(Op::Range(p_bound(lo)?, p_bound(hi)?))
        }
        _ => None,
    }
}

fn p_prog<K: Key>(s: &str, ordered: bool) -> Option<Vec<Op<K>>> {
    if s == "-" {
        return Some(vec![]);
    }
    s.split(',').map(|t| p_op(t, ordered)).collect()
}

fn opt_v(v: Option<NodeId>) -> String {
    match v {
        None => "~".to_string(),
        Some(n) => n.0.to_string(),
    }
}

fn b01(b: bool) -> String {
    if b { "1".to_string() } else { "0".to_string() }
}

// ───────────────────────── hash ─────────────────────────

fn run_hash(prog: &str) -> String {
    let ops: Vec<Op<u64>> = match p_prog(prog, false) {
        Some(o) => o,
        None => return "bad-op".to_string(),
    };
    util::guarded(move || {
        let idx: HashIndex<NodeId, NodeId> = HashIndex::new();
        let mut res: Vec<String> = Vec::new();
        let mut keys: Vec<u64> = Vec::new();
        for op in &ops {
            let r = match op {
                Op::Ins(k, v) => {
                    keys.push(*k);
                    opt_v(idx.insert(NodeId(*k), NodeId(*v)))
                }
                Op::Rem(k) => {
                    keys.push(*k);
                    opt_v(idx.remove(&NodeId(*k)))
                }
                Op::Get(k) => {
                    keys.push(*k);
                    opt_v(idx.get(&NodeId(*k)))
                }
                Op::Has(k) => {
                    keys.push(*k);
                    b01(idx.contains(&NodeId(*k)))
                }
                Op::Len => idx.len().to_string(),
                Op::Empty => b01(idx.is_empty()),
                Op::Clear => {
                    idx.clear();
                    ".".to_string()
                }
                Op::Min | Op::Max | Op::Range(..) => unreachable!(),
            };
            res.push(r);
        }
        keys.sort_unstable();
        keys.dedup();
        let mut dump: Vec<String> = Vec::new();
        for k in keys {
            if let Some(v) = idx.get(&NodeId(k)) {
                dump.push(format!("{}:{}", k, v.0));
            }
        }
        format!("{}|{}", res.join(","), dump.join(";"))
    })
}

// ───────────────────────── btree ─────────────────────────

fn do_range<K: Key + Ord>(idx: &BTreeIndex<K, NodeId>, lo: &Bd<K>, hi: &Bd<K>) -> Vec<(K, NodeId)> {
    match (lo, hi) {
        (Bd::I(a), Bd::E(b)) => idx.range(a.clone()..b.clone()),
        (Bd::I(a), Bd::I(b)) => idx.range(a.clone()..=b.clone()),
        (Bd::I(a), Bd::U) => idx.range(a.clone()..),
        (Bd::U, Bd::E(b)) => idx.range(..b.clone()),
        (Bd::U, Bd::I(b)) => idx.range(..=b.clone()),
        (Bd::U, Bd::U) => idx.range(..),
        (lo, hi) => {
            let cv = |b: &Bd<K>| -> Bound<K> {
                match b {
                    Bd::U => Bound::Unbounded,
                    Bd::I(k) => Bound::Included(k.clone()),
                    Bd::E(k) => Bound::Excluded(k.clone()),
                }
            };
            idx.range((cv(lo), cv(hi)))
        }
    }
}

fn show_entries<K: Key>(es: &[(K, NodeId)]) -> String {
    es.iter().map(|(k, v)| format!("{}:{}", k.show(), v.0)).collect::<Vec<_>>().join(";")
}

fn show_opt_entry<K: Key>(e: Option<(K, NodeId)>) -> String {
    match e {
        None => "~".to_string(),
        Some((k, v)) => format!("{}:{}", k.show(), v.0),
    }
}

fn run_bt<K: Key + Ord>(prog: &str) -> String {
    let ops: Vec<Op<K>> = match p_prog(prog, true) {
        Some(o) => o,
        None => return "bad-op".to_string(),
    };
    util::guarded(move || {
        let idx: BTreeIndex<K, NodeId> = BTreeIndex::new();
        let mut res: Vec<String> = Vec::new();
        for op in &ops {
            let r = match op {
                Op::Ins(k, v) => opt_v(idx.insert(k.clone(), NodeId(*v))),
                Op::Rem(k) => opt_v(idx.remove(k)),
                Op::Get(k) => opt_v(idx.get(k)),
                Op::Has(k) => b01(idx.contains(k)),
                Op::Len => idx.len().to_string(),
                Op::Empty => b01(idx.is_empty()),
                Op::Clear => {
                    idx.clear();
                    ".".to_string()
                }
                Op::Min => show_opt_entry(idx.min()),
                Op::Max => show_opt_entry(idx.max()),
                Op::Range(lo, hi) => match catch_unwind(AssertUnwindSafe(|| do_range(&idx, lo, hi))) {
                    Ok(es) => format!("[{}]", show_entries(&es)),
                    Err(_) => "!".to_string(),
                },
            };
            res.push(r);
        }
        let dump = idx.range(..);
        format!("{}|{}", res.join(","), show_entries(&dump))
    })
}

// ───────────────────────── trie ─────────────────────────

enum TIns {
    Path(Vec<NodeId>, u64),
    Edge(u64, u64, u64),
}

fn p_tins(s: &str) -> Option<Vec<TIns>> {
    if s == "-" {
        return Some(vec![]);
    }
    s.split(';')
        .map(|e| {
            let (p, id) = e.split_once('=')?;
            let id = p_u64(id)?;
            if let Some(ab) = p.strip_prefix('E') {
                let (a, b) = ab.split_once('.')?;
                Some(TIns::Edge(p_u64(a)?, p_u64(b)?, id))
            } else {
                Some(TIns::Path(p_path(p)?, id))
            }
        })
        .collect()
}

#[derive(Clone)]
enum Step {
    Next,
    Seek(u64),
    Key,
    Valid,
    Open,
}

enum TQ {
    Len,
    Empty,
    Get(Vec<NodeId>),
    Keys(Vec<NodeId>),
    Walk(Vec<NodeId>, Vec<Step>),
}

fn p_steps(s: &str) -> Option<Vec<Step>> {
    if s.is_empty() {
        return Some(vec![]);
    }
    s.split('.')
        .map(|t| match t {
            "n" => Some(Step::Next),
            "k" => Some(Step::Key),
            "v" => Some(Step::Valid),
            "o" => Some(Step::Open),
            _ => t.strip_prefix('s').and_then(p_u64).map(Step::Seek),
        })
        .collect()
}

fn p_tq(s: &str) -> Option<TQ> {
    match s {
        "l" => return Some(TQ::Len),
        "z" => return Some(TQ::Empty),
        _ => {}
    }
    let mut cs = s.chars();
    let c = cs.next()?;
    let rest = cs.as_str();
    match c {
        'g' => Some(TQ::Get(p_path(rest)?)),
        'k' => Some(TQ::Keys(p_path(rest)?)),
        'w' => {
            let (p, st) = rest.split_once('/')?;
            Some(TQ::Walk(p_path(p)?, p_steps(st)?))
        }
        _ => None,
    }
}

fn p_tqs(s: &str) -> Option<Vec<TQ>> {
    if s == "-" {
        return Some(vec![]);
    }
    s.split(';').map(p_tq).collect()
}

fn enum_iter(mut it: TrieIterator<'_>) -> String {
    let mut ks: Vec<String> = Vec::new();
    loop {
        match it.key() {
            Some(k) => ks.push(k.0.to_string()),
            None => break,
        }
        if !it.next() {
            break;
        }
    }
    format!("[{}]", ks.join("."))
}

fn enum_join(j: &mut LeapfrogJoin<'_>) -> String {
    let mut ks: Vec<String> = Vec::new();
    loop {
        match j.key() {
            Some(k) => ks.push(k.0.to_string()),
            None => break,
        }
        if !j.next() {
            break;
        }
    }
    format!("[{}]", ks.join("."))
}

fn run_trie(ins: &str, qs: &str) -> String {
    let ins = match p_tins(ins) {
        Some(x) => x,
        None => return "bad-op".to_string(),
    };
    let qs = match p_tqs(qs) {
        Some(x) => x,
        None => return "bad-op".to_string(),
    };
    util::guarded(move || {
        let mut trie = TrieIndex::new();
        for e in &ins {
            match e {
                TIns::Path(p, id) => trie.insert(p, EdgeId(*id)),
                TIns::Edge(a, b, id) => trie.insert_edge(NodeId(*a), NodeId(*b), EdgeId(*id)),
            }
        }
        if qs.is_empty() {
            return "-".to_string();
        }
        let mut res: Vec<String> = Vec::new();
        for q in &qs {
            let r = match q {
                TQ::Len => trie.len().to_string(),
                TQ::Empty => b01(trie.is_empty()),
                TQ::Get(p) => match trie.get(p) {
                    None => "~".to_string(),
                    Some(es) => es.iter().map(|e| e.0.to_string()).collect::<Vec<_>>().join("."),
                },
                TQ::Keys(p) => {
                    let it = if p.is_empty() { Some(trie.iter()) } else { trie.iter_at(p) };
                    match it {
                        None => "~".to_string(),
                        Some(it) => enum_iter(it),
                    }
                }
                TQ::Walk(p, steps) => match trie.iter_at(p) {
                    None => "~".to_string(),
                    Some(mut it) => {
                        let mut rs: Vec<String> = Vec::new();
                        for st in steps {
                            match st {
                                Step::Next => rs.push(b01(it.next())),
                                Step::Seek(t) => rs.push(b01(it.seek(NodeId(*t)))),
                                Step::Key => rs.push(match it.key() {
                                    None => "~".to_string(),
                                    Some(k) => k.0.to_string(),
                                }),
                                Step::Valid => rs.push(b01(it.is_valid())),
                                Step::Open => match it.open() {
                                    Some(ch) => {
                                        it = ch;
                                        rs.push("1".to_string());
                                    }
                                    None => {
                                        rs.push("~".to_string());
                                        break;
                                    }
                                },
                            }
                        }
                        format!("[{}]", rs.join("."))
                    }
                },
            };
            res.push(r);
        }
        res.join(";")
    })
}

// ───────────────────────── leapfrog ─────────────────────────

fn p_lists(s: &str) -> Option<Vec<Vec<u64>>> {
    if s == "none" {
        return Some(vec![]);
    }
    s.split(';')
        .map(|l| {
            if l == "-" {
                Some(vec![])
            } else {
                l.split(',').map(p_u64).collect::<Option<Vec<u64>>>()
            }
        })
        .collect()
}

fn run_lf(lists: &str, prog: &str) -> String {
    let lists = match p_lists(lists) {
        Some(x) => x,
        None => return "bad-op".to_string(),
    };
    if prog.is_empty() || !(prog == "a" || prog.bytes().all(|b| b == b'k' || b == b'n')) {
        return "bad-op".to_string();
    }
    let prog = prog.to_string();
    util::guarded(move || {
        let mut tries: Vec<TrieIndex> = Vec::new();
        for l in &lists {
            let mut t = TrieIndex::new();
            for (j, k) in l.iter().enumerate() {
                t.insert(&[NodeId(*k)], EdgeId(j as u64));
            }
            tries.push(t);
        }
        let iters: Vec<TrieIterator<'_>> = tries.iter().map(|t| t.iter()).collect();
        let mut j = LeapfrogJoin::new(iters);
        if prog == "a" {
            return enum_join(&mut j);
        }
        let mut rs: Vec<String> = Vec::new();
        for c in prog.bytes() {
            if c == b'k' {
                rs.push(match j.key() {
                    None => "~".to_string(),
                    Some(k) => k.0.to_string(),
                });
            } else {
                rs.push(b01(j.next()));
            }
        }
        rs.join(".")
    })
}

fn p_lf2(s: &str) -> Option<Vec<Vec<(u64, u64)>>> {
    s.split('|')
        .map(|t| {
            if t == "-" {
                Some(vec![])
            } else {
                t.split(';')
                    .map(|e| {
                        let (a, b) = e.split_once('.')?;
                        Some((p_u64(a)?, p_u64(b)?))
                    })
                    .collect::<Option<Vec<(u64, u64)>>>()
            }
        })
        .collect()
}

fn run_lf2(s: &str) -> String {
    let specs = match p_lf2(s) {
        Some(x) => x,
        None => return "bad-op".to_string(),
    };
    util::guarded(move || {
        let mut tries: Vec<TrieIndex> = Vec::new();
        for es in &specs {
            let mut t = TrieIndex::new();
            for (i, (a, b)) in es.iter().enumerate() {
                t.insert_edge(NodeId(*a), NodeId(*b), EdgeId(i as u64));
            }
            tries.push(t);
        }
        let iters: Vec<TrieIterator<'_>> = tries.iter().map(|t| t.iter()).collect();
        let mut j = LeapfrogJoin::new(iters);
        let mut res: Vec<String> = Vec::new();
        loop {
            match j.key() {
                Some(k) => match j.open() {
                    Some(children) => {
                        let mut inner = LeapfrogJoin::new(children);
                        res.push(format!("{}:{}", k.0, enum_join(&mut inner)));
                    }
                    None => res.push(format!("{}:~", k.0)),
                },
                None => break,
            }
            if !j.next() {
                break;
            }
        }
        if res.is_empty() { "-".to_string() } else { res.join(";") }
    })
}

// ───────────────────────── dispatch ─────────────────────────

pub fn run(toks: &[&str]) -> String {
    match toks.first().copied() {
        Some("hash") if toks.len() == 2 => run_hash(toks[1]),
        Some("bt") if toks.len() == 2 => run_bt::<i64>(toks[1]),
        Some("btf") if toks.len() == 2 => run_bt::<OrderedFloat>(toks[1]),
        Some("trie") if toks.len() == 3 => run_trie(toks[1], toks[2]),
        Some("lf") if toks.len() == 3 => run_lf(toks[1], toks[2]),
        Some("lf2") if toks.len() == 2 => run_lf2(toks[1]),
        _ => "bad-op".to_string(),
    }
}

// ───────────────────────── generation ─────────────────────────

const P0: u64 = 0;
const N0: u64 = 9223372036854775808;
const PINF: u64 = 9218868437227405312;
const NINF: u64 = 18442240474082181120;
const NAN1: u64 = 9221120237041090560;
const NAN2: u64 = 18444492273895866369;
const ONE: u64 = 4607182418800017408;
const MONE: u64 = 13830554455654793216;
const SUB1: u64 = 1;
const UMAX: u64 = u64::MAX;

fn is_nan_bits(b: u64) -> bool {
    f64::from_bits(b).is_nan()
}

fn fixed_lines() -> Vec<String> {
    let mut v: Vec<String> = Vec::new();
    let mut p = |s: String| v.push(format!("idx {}", s));
    // hash
    p("hash -".into());
    p("hash l,e,g1,c1,r1,x,l,e".into());
    p("hash i1:10,i1:11,g1,l,r2".into());
    p("hash i5:1,r5,r5,g5,c5,i5:2,c5,l".into());
    p(format!("hash i0:0,i{m}:{m},g0,g{m},c0,c{m},l,r0,r0,l,r{m},e", m = UMAX));
    p("hash i1:1,i2:2,i3:3,x,l,e,g1,i1:5,g1,l,r1,e".into());
    p(format!("hash i7:{m},i7:0,i7:7,g7,l", m = UMAX));
    // bt basics
    p("bt -".into());
    p("bt l,e,m,M,g0,r0,c0,Ru_u,x,m,l".into());
    p("bt i1:10,i1:11,g1,l,r2,m,M".into());
    p("bt i5:1,r5,r5,g5,c5,i5:2,c5,l,m".into());
    p(format!(
        "bt i{lo}:1,i{hi}:2,i0:3,m,M,Ru_u,Ri{lo}_i{hi},Re{lo}_e{hi},Re{lo}_u,Ru_e{hi},g{lo},c{hi},r{lo},m,r{hi},M",
        lo = i64::MIN,
        hi = i64::MAX
    ));
    p("bt i1:1,i2:2,x,l,e,m,M,Ru_u,i3:3,i1:4,Ru_u,M,x,x,l".into());
    // every bound shape on a 5-entry tree: bounds on keys, between keys, outside
    p("bt i1:10,i3:30,i5:50,i7:70,i9:90,Ri3_e7,Ri3_i7,Ri3_u,Ru_e7,Ru_i7,Ru_u,Re3_e7,Re3_i7,Re3_u".into());
    p("bt i1:10,i3:30,i5:50,i7:70,i9:90,Ri2_e8,Ri2_i8,Ri4_u,Ru_e6,Ru_i6,Re2_e8,Re2_i8,Re4_u,Ri10_u,Ru_e1,Ru_i0,Re9_u,Ru_i9,Re0_e10,Ri-3_i-1,Re8_e9,Re4_e5".into());
    // inverted and equal bounds in the four index states
    let inv = "Ri5_i3,Ri5_e3,Re5_e3,Re5_i3,Ri3_i3,Ri3_e3,Re3_i3,Re3_e3,Ri4_i4,Ri4_e4,Re4_i4,Re4_e4,Ri4_i2,Re6_e4,l,Ru_u";
    p(format!("bt i1:10,i3:30,i5:50,{}", inv));
    p(format!("bt {}", inv));
    p(format!("bt i1:10,i3:30,i5:50,r1,r3,r5,l,e,{}", inv));
    p(format!("bt i1:10,i3:30,i5:50,x,l,e,{}", inv));
    p(format!("bt i3:30,r3,{},i3:31,{}", inv, inv));
    p(format!("bt i3:30,x,{},i3:31,{}", inv, inv));
    p(format!("bt i3:30,r9,{}", inv));
    // a multi-level tree emptied by removes, then the same ranges
    {
        let mut ops: Vec<String> = Vec::new();
        for k in 1..=40 {
            ops.push(format!("i{}:{}", k, k * 10));
        }
        ops.push("l".into());
        ops.push("Ri10_e15".into());
        ops.push("Ri15_i10".into());
        ops.push("Re12_e12".into());
        for k in 1..=40 {
            ops.push(format!("r{}", (k * 7) % 41));
        }
        ops.push("l".into());
        ops.push("e".into());
        ops.push("m".into());
        ops.push(inv.to_string());
        p(format!("bt {}", ops.join(",")));
    }
    // btf
    p("btf -".into());
    p("btf l,e,m,M,Ru_u,g0,x".into());
    p(format!("btf i{P0}:1,i{N0}:2,g{P0},g{N0},c{N0},l,Ru_u,m,M,r{N0},l"));
    p(format!("btf i{N0}:2,i{P0}:1,g{P0},g{N0},l,Ru_u,Ri{P0}_i{N0},Ri{N0}_e{P0},Re{P0}_e{N0},Re{N0}_i{P0}"));
    p(format!(
        "btf i{PINF}:1,i{NINF}:2,i{ONE}:3,i{MONE}:4,i{SUB1}:5,i{P0}:6,l,Ru_u,m,M,Ri{NINF}_i{PINF},Re{NINF}_e{PINF},Ri{N0}_i{SUB1},Re{P0}_e{ONE},Ri{ONE}_i{MONE},Ri{PINF}_e{NINF},Re{ONE}_e{ONE},Ri{PINF}_u,Ru_e{NINF},Ru_i{NINF}"
    ));
    // NaN first, then others
    p(format!("btf i{NAN1}:1,i{ONE}:2,i{MONE}:3,i{P0}:4,i{PINF}:5,l,Ru_u,g{NAN1},c{NAN1},g{ONE},g{MONE},g{P0},g{PINF},m,M"));
    // others, then NaN
    p(format!("btf i{ONE}:2,i{MONE}:3,i{P0}:4,i{PINF}:5,i{NAN1}:1,l,Ru_u,g{NAN1},c{NAN1},g{ONE},g{MONE},g{P0},g{PINF},m,M,r{NAN1},l,Ru_u,r{NAN1},l,Ru_u"));
    p(format!("btf i{MONE}:3,i{ONE}:2,i{NAN2}:1,l,Ru_u,i{NAN1}:7,l,Ru_u,g{MONE},g{ONE},g{NAN2}"));
    // NaN alone
    p(format!("btf i{NAN1}:1,i{NAN2}:2,l,g{NAN1},g{NAN2},g{ONE},c{P0},c{NINF},i{ONE}:3,l,Ru_u,r{MONE},l,Ru_u"));
    // get / remove / contains NaN on a NaN-free index
    p(format!("btf i{MONE}:1,i{P0}:2,i{ONE}:3,g{NAN1},c{NAN1},c{NAN2},g{NAN2},r{NAN1},l,Ru_u,r{NAN2},l,Ru_u,r{NAN1},l,e"));
    p(format!("btf g{NAN1},c{NAN1},r{NAN1},l,i{NAN1}:1,r{NAN2},l"));
    // ranges with NaN bounds
    p(format!(
        "btf i{MONE}:1,i{P0}:2,i{ONE}:3,Ri{NAN1}_u,Ru_i{NAN1},Ru_e{NAN1},Re{NAN1}_u,Ri{NAN1}_i{NAN1},Ri{NAN1}_e{NAN1},Re{NAN1}_i{NAN1},Re{NAN1}_e{NAN1},Re{NAN1}_e{ONE},Re{MONE}_e{NAN2},Ri{ONE}_i{NAN1},Ri{NAN1}_i{MONE},Ri{NAN1}_i{NAN2},Ri{NAN2}_e{P0}"
    ));
    p(format!("btf Ri{NAN1}_u,Ru_e{NAN1},Re{NAN1}_e{NAN1},Ri{NAN1}_e{NAN1},Re{NAN1}_e{ONE},l"));
    p(format!("btf i{MONE}:1,i{NAN1}:9,i{ONE}:3,Ru_u,Ri{NAN1}_i{NAN1},Ri{P0}_u,Ru_i{P0},Ri{MONE}_i{ONE},Re{MONE}_e{ONE},Ri{NAN2}_u,Ru_e{NAN2},m,M"));
    p(format!("btf i{P0}:1,r{P0},Re{NAN1}_e{ONE},Ri{ONE}_i{MONE},Ri{NAN1}_i{MONE},x,Re{NAN1}_e{ONE},Ri{ONE}_i{MONE}"));
    // trie
    p("trie - l;z;g;g1;k;k1;w/k.v.n.k.s0.v.o;w1/k;w/".into());
    p("trie - -".into());
    p("trie =5 l;z;g;k;g0;k0;w/k.v.o.k".into());
    p("trie =5;=6;=5 l;g;k;z".into());
    p("trie 1.2=7;1.2=8;1.2=7;E1.2=9 l;g1.2;g1;g;k;k1;k1.2;k1.2.3".into());
    p("trie 1.2.3=1;1.2.4=2;1.5.3=3;2.2.3=4;1=5;1.2=6 l;g1;g1.2;g1.2.3;g1.2.9;g9;g2;k;k1;k1.2;k1.2.3;k1.2.3.4;k3;w/k.o.k.o.k.o.k.v.o.k;w/n.k.o.k.o.k.n.k;w/o.n.o.k".into());
    p("trie 2=0;4=1;6=2 w/s0.k;w/s2.k;w/s3.k;w/s4.k;w/s5.k;w/s6.k;w/s7.k.v;w/s7.s1.k.n.v.s7;w/n.n.n.k.v.n.s0.k.s9;w/n.n.n.o.k;w/s6.n.o;w/s4.s2.k.s4.k;w/s18446744073709551615.k.v;w/n.s2.k.n.s6.k.n.n".into());
    p("trie 18446744073709551615.0=18446744073709551615;0.18446744073709551615=0 l;k;k0;k18446744073709551615;g18446744073709551615.0;g0.18446744073709551615;w/s18446744073709551615.k.o.k.n;w/s1.k".into());
    p("trie E1.2=0;E1.3=1;E2.3=2 l;z;k;k1;k2;k3;g1.3;g1;w/o.n.k.v.n.v.k;w/n.o.k.s3.k.s4.v".into());
    p("trie 1.2=0 w9/k;w1.2/k.v.n.s0.o.k;w1/k.o.k.o.k;w1.2.3/k;k1.2;k9".into());
    p("trie 3=1;1=2;2=3;1=4;3.3=5 k;g1;g3;k3;l;w/k.n.k.n.k.n.k.n".into());
    // leapfrog
    p("lf none a".into());
    p("lf none knk".into());
    p("lf - a".into());
    p("lf - knkn".into());
    p("lf -;- a".into());
    p("lf 1,3,5 a".into());
    p("lf 1,3,5 knknknknkn".into());
    p("lf 7 knkn".into());
    p("lf 1,2,3;-;2,3 a".into());
    p("lf -;1,2,3 knk".into());
    p("lf 1,3,5;2,4,6 a".into());
    p("lf 1,3,5;2,4,6 knkn".into());
    p("lf 1,2,3;4,5,6 a".into());
    p("lf 1,2,3;1,2,3;1,2,3 a".into());
    p("lf 1,2,3;1,2,3 knknknknk".into());
    p("lf 1,2,3,4,5,6;2,4,6;4 a".into());
    p("lf 4;2,4,6;1,2,3,4,5,6 knknk".into());
    p(format!("lf 0,{m};{m};5,{m} a", m = UMAX));
    p(format!("lf 0,{m};0,{m} knknknk", m = UMAX));
    p(format!("lf {m} a", m = UMAX));
    p("lf 5,3,3,1,5;3,5,5,7 a".into());
    p("lf 9,1,9,1;1,9;9,9,9,1 knknkn".into());
    p("lf 1,2,3,7,8;2,3,4,8;0,2,3,8,9 knknknknk".into());
    p("lf 1,5,9;2,5,8;3,5,7;4,5,6;5 a".into());
    p("lf 0,1;1,2;2,0 a".into());
    // two-level trie join
    p("lf2 -".into());
    p("lf2 -|-".into());
    p("lf2 1.2".into());
    p("lf2 1.2;1.3;2.3|1.2;1.3;2.3".into());
    p("lf2 1.2;1.3;2.3|1.3;2.3;3.1|-".into());
    p("lf2 1.2;1.3;2.3|1.3;2.3;3.1".into());
    p("lf2 0.1;0.2;1.2;2.0|0.2;0.1;1.0;2.0|0.2;2.0;2.1".into());
    p("lf2 0.1;1.2;2.0|1.2;2.0;0.1|2.0;0.1;1.2".into());
    p("lf2 1.1;1.1;2.2|1.1;2.3;2.2".into());
    p(format!("lf2 {m}.{m};0.0|{m}.{m};0.1", m = UMAX));
    // (unparseable op lines are not generated: check.py counts an op the model driver rejects
    //  as a disagreement; `run` answers them with `bad-op`, as `gdriver` does)
    v
}

fn pick_op_letter(r: &mut Rng, ordered: bool) -> char {
    let x = r.below(100);
    if !ordered {
        return match x {
            0..=39 => 'i',
            40..=59 => 'r',
            60..=77 => 'g',
            78..=87 => 'c',
            88..=93 => 'l',
            94..=97 => 'e',
            _ => 'x',
        };
    }
    match x {
        0..=29 => 'i',
        30..=43 => 'r',
        44..=52 => 'g',
        53..=57 => 'c',
        58..=61 => 'l',
        62..=64 => 'e',
        65..=66 => 'x',
        67..=70 => 'm',
        71..=74 => 'M',
        _ => 'R',
    }
}

fn gen_hash(r: &mut Rng) -> String {
    let u = r.range(8, 20);
    let base = if r.chance(1, 6) { UMAX - u } else { r.below(3) * 100 };
    let n = if r.chance(1, 12) { r.range(60, 150) } else { r.range(0, 40) };
    if n == 0 {
        return "idx hash -".to_string();
    }
    let mut ops: Vec<String> = Vec::new();
    for _ in 0..n {
        let k = if r.chance(1, 25) { *r.pick(&[0u64, UMAX, UMAX - 1, 1u64 << 63]) } else { base + r.below(u + 1) };
        let op = match pick_op_letter(r, false) {
            'i' => {
                let v = if r.chance(1, 20) { UMAX } else { r.below(1000) };
                format!("i{}:{}", k, v)
            }
            'r' => format!("r{}", k),
            'g' => format!("g{}", k),
            'c' => format!("c{}", k),
            c => c.to_string(),
        };
        ops.push(op);
    }
    format!("idx hash {}", ops.join(","))
}

fn gen_bound_shape(r: &mut Rng) -> u8 {
    // 0 = u, 1 = i, 2 = e
    match r.below(10) {
        0..=1 => 0,
        2..=5 => 1,
        _ => 2,
    }
}

fn gen_bt(r: &mut Rng) -> String {
    let big = r.chance(1, 10);
    let u: i64 = if big { r.range(150, 320) as i64 } else { r.range(8, 20) as i64 };
    let base: i64 = match r.below(8) {
        0 => i64::MIN + 1,
        1 => i64::MAX - u - 1,
        2 => 0,
        _ => -(u / 2),
    };
    let n = if big { r.range(20, 60) } else { r.range(0, 40) };
    let mut ops: Vec<String> = Vec::new();
    if big {
        let m = r.range(80, 200);
        for _ in 0..m {
            let k = base + r.below(u as u64) as i64;
            ops.push(format!("i{}:{}", k, r.below(1000)));
        }
    }
    for _ in 0..n {
        let mut key = |r: &mut Rng| -> i64 {
            if r.chance(1, 25) {
                *r.pick(&[i64::MIN, i64::MAX, 0i64, -1i64])
            } else {
                base + r.below(u as u64) as i64
            }
        };
        let op = match pick_op_letter(r, true) {
            'i' => format!("i{}:{}", key(r), r.below(1000)),
            'r' => format!("r{}", key(r)),
            'g' => format!("g{}", key(r)),
            'c' => format!("c{}", key(r)),
            'R' => {
                // bounds from the key universe ±1
                let mut bk = |r: &mut Rng| -> i64 { (base - 1) + r.below(u as u64 + 2) as i64 };
                let (mut a, mut b) = (bk(r), bk(r));
                if r.chance(1, 30) {
                    a = i64::MIN;
                }
                if r.chance(1, 30) {
                    b = i64::MAX;
                }
                let (mut sl, mut sh) = (gen_bound_shape(r), gen_bound_shape(r));
                if r.chance(1, 4) {
                    // inverted or equal-with-exclusion
                    sl = 1 + r.below(2) as u8;
                    sh = 1 + r.below(2) as u8;
                    if r.chance(1, 2) {
                        b = a;
                        if r.chance(2, 3) {
                            sl = 2;
                            sh = 2;
                        }
                    } else {
                        let (lo, hi) = (a.min(b), a.max(b));
                        a = hi;
                        b = lo;
                    }
                } else if a > b {
                    std::mem::swap(&mut a, &mut b);
                }
                let sb = |s: u8, k: i64| match s {
                    0 => "u".to_string(),
                    1 => format!("i{}", k),
                    _ => format!("e{}", k),
                };
                format!("R{}_{}", sb(sl, a), sb(sh, b))
            }
            c => c.to_string(),
        };
        ops.push(op);
    }
    if ops.is_empty() {
        return "idx bt -".to_string();
    }
    format!("idx bt {}", ops.join(","))
}

fn gen_btf(r: &mut Rng) -> String {
    let with_nan = r.chance(1, 2);
    let mut pool: Vec<u64> = vec![
        P0,
        N0,
        PINF,
        NINF,
        ONE,
        MONE,
        SUB1,
        (2.0f64).to_bits(),
        (0.5f64).to_bits(),
        (-2.5f64).to_bits(),
    ];
    if with_nan {
        pool.push(NAN1);
        pool.push(NAN2);
    }
    // widen the universe so that large programs build a multi-level B-tree (with the repaired total
    // order a NaN key is an ordinary greatest key, in a tree of any size)
    if !with_nan || r.chance(1, 2) {
        for i in -8i64..=8 {
            pool.push((i as f64 * 1.5).to_bits());
        }
        pool.push(f64::MAX.to_bits());
        pool.push(f64::MIN.to_bits());
        pool.push((1u64 << 63) | 1); // negative subnormal
    }
    let big = r.chance(1, 6);
    if big {
        for i in 0..40u64 {
            pool.push((i as f64 * 0.25 + 100.0).to_bits());
        }
    }
    let n = if big { r.range(60, 160) } else { r.range(0, 45) };
    let mut inserts = 0usize;
    let mut ops: Vec<String> = Vec::new();
    for _ in 0..n {
        let mut letter = pick_op_letter(r, true);
        if big && r.chance(1, 2) {
            letter = 'i';
        }
        let op = match letter {
            'i' => {
                inserts += 1;
                format!("i{}:{}", r.pick(&pool), r.below(1000))
            }
            'r' => format!("r{}", r.pick(&pool)),
            'g' => format!("g{}", r.pick(&pool)),
            'c' => format!("c{}", r.pick(&pool)),
            'R' => {
                let (mut a, mut b) = (*r.pick(&pool), *r.pick(&pool));
                let (fa, fb) = (f64::from_bits(a), f64::from_bits(b));
                let (mut sl, mut sh) = (gen_bound_shape(r), gen_bound_shape(r));
                if r.chance(1, 4) {
                    sl = 1 + r.below(2) as u8;
                    sh = 1 + r.below(2) as u8;
                    if r.chance(1, 2) {
                        b = a;
                    } else if fa < fb {
                        std::mem::swap(&mut a, &mut b);
                    }
                } else if fa > fb {
                    std::mem::swap(&mut a, &mut b);
                }
                let sb = |s: u8, k: u64| match s {
                    0 => "u".to_string(),
                    1 => format!("i{}", k),
                    _ => format!("e{}", k),
                };
                format!("R{}_{}", sb(sl, a), sb(sh, b))
            }
            c => c.to_string(),
        };
        ops.push(op);
    }
    if ops.is_empty() {
        return "idx btf -".to_string();
    }
    format!("idx btf {}", ops.join(","))
}

fn gen_node(r: &mut Rng) -> u64 {
    if r.chance(1, 40) { *r.pick(&[UMAX, UMAX - 1, 1u64 << 40]) } else { r.below(7) }
}

fn path_str(p: &[u64]) -> String {
    p.iter().map(|x| x.to_string()).collect::<Vec<_>>().join(".")
}

fn gen_trie(r: &mut Rng) -> String {
    let ni = r.range(0, 25);
    let mut paths: Vec<Vec<u64>> = Vec::new();
    let mut ins: Vec<String> = Vec::new();
    for i in 0..ni {
        let eid = if r.chance(1, 3) { r.below(4) } else { i };
        if r.chance(1, 4) {
            let (a, b) = (gen_node(r), gen_node(r));
            ins.push(format!("E{}.{}={}", a, b, eid));
            paths.push(vec![a, b]);
        } else {
            let len = match r.below(10) {
                0 => 0,
                1..=3 => 1,
                4..=7 => 2,
                _ => 3,
            };
            let p: Vec<u64> = if !paths.is_empty() && r.chance(1, 4) {
                // share a prefix with / duplicate an earlier path
                let q = r.pick(&paths).clone();
                let keep = r.below(q.len() as u64 + 1) as usize;
                let mut p = q[..keep].to_vec();
                while p.len() < len {
                    p.push(gen_node(r));
                }
                p
            } else {
                (0..len).map(|_| gen_node(r)).collect()
            };
            ins.push(format!("{}={}", path_str(&p), eid));
            paths.push(p);
        }
    }
    let mut qpath = |r: &mut Rng| -> Vec<u64> {
        if !paths.is_empty() && r.chance(3, 5) {
            let q = r.pick(&paths).clone();
            let keep = r.below(q.len() as u64 + 1) as usize;
            let mut p = q[..keep].to_vec();
            if r.chance(1, 6) {
                p.push(gen_node(r));
            }
            p
        } else {
            let len = r.below(4);
            (0..len).map(|_| gen_node(r)).collect()
        }
    };
    let nq = r.range(1, 8);
    let mut qs: Vec<String> = Vec::new();
    for _ in 0..nq {
        let q = match r.below(20) {
            0 => "l".to_string(),
            1 => "z".to_string(),
            2..=6 => format!("g{}", path_str(&qpath(r))),
            7..=11 => format!("k{}", path_str(&qpath(r))),
            _ => {
                let mut p = qpath(r);
                if r.chance(1, 2) {
                    p.truncate(r.below(2) as usize);
                }
                let ns = r.range(0, 10);
                let steps: Vec<String> = (0..ns)
                    .map(|_| match r.below(20) {
                        0..=4 => "n".to_string(),
                        5..=9 => format!("s{}", if r.chance(1, 15) { UMAX } else { r.below(8) }),
                        10..=14 => "k".to_string(),
                        15..=16 => "v".to_string(),
                        _ => "o".to_string(),
                    })
                    .collect();
                format!("w{}/{}", path_str(&p), steps.join("."))
            }
        };
        qs.push(q);
    }
    let ins = if ins.is_empty() { "-".to_string() } else { ins.join(";") };
    format!("idx trie {} {}", ins, qs.join(";"))
}

fn gen_lf(r: &mut Rng) -> String {
    let nl = if r.chance(1, 20) { 0 } else { r.range(1, 5) };
    let lists = if nl == 0 {
        "none".to_string()
    } else {
        // a few keys common to all lists make non-empty intersections frequent
        let nc = r.below(4);
        let common: Vec<u64> = (0..nc).map(|_| if r.chance(1, 20) { UMAX } else { r.below(16) }).collect();
        (0..nl)
            .map(|_| {
                let n = r.range(0, 12);
                let mut l: Vec<u64> = (0..n).map(|_| if r.chance(1, 40) { UMAX } else { r.below(16) }).collect();
                if n > 0 || r.chance(1, 2) {
                    if r.chance(4, 5) {
                        for c in &common {
                            let at = r.below(l.len() as u64 + 1) as usize;
                            l.insert(at, *c);
                        }
                    }
                }
                if l.is_empty() { "-".to_string() } else { util::join(&l) }
            })
            .collect::<Vec<_>>()
            .join(";")
    };
    let prog = if r.chance(7, 10) {
        "a".to_string()
    } else {
        let n = r.range(1, 14);
        (0..n).map(|_| if r.chance(1, 2) { 'k' } else { 'n' }).collect()
    };
    format!("idx lf {} {}", lists, prog)
}

fn gen_lf2(r: &mut Rng) -> String {
    let nt = r.range(2, 3);
    let dense = r.chance(1, 2);
    let tries: Vec<String> = (0..nt)
        .map(|_| {
            let n = if dense { r.range(6, 15) } else { r.range(0, 15) };
            if n == 0 {
                "-".to_string()
            } else {
                (0..n).map(|_| format!("{}.{}", r.below(6), r.below(6))).collect::<Vec<_>>().join(";")
            }
        })
        .collect();
    format!("idx lf2 {}", tries.join("|"))
}

fn gen_malformed(r: &mut Rng) -> String {
    let k = r.below(20);
    let t: String = match r.below(16) {
        0 => format!("hash q{}", k),
        1 => format!("bt i{}", k),
        2 => format!("bt ix:{}", k),
        3 => "hash".to_string(),
        4 => format!("trie {}.2=0", k),
        5 => format!("lf 1,{}", k),
        6 => format!("lf 1,a;{} a", k),
        7 => "lf2".to_string(),
        8 => format!("btf R{}_2", k),
        9 => format!("hash i{}:1,Ru_u", k),
        10 => format!("trie 1=x;{}=0 l", k),
        11 => format!("trie {}=1 q", k),
        12 => format!("lf {} kx", k),
        13 => format!("bt i{}:1,Ri1_", k),
        14 => format!("lf2 {}.1;2", k),
        _ => format!("bt i{}:-1", k),
    };
    format!("idx {}", t)
}

pub fn generate(seed: u64, cases: usize, out: &mut Vec<String>) {
    let mut r = Rng::new(seed ^ 0x1D8_1DE5);
    let start = out.len();
    out.push(format!("# case 0 seed {}", seed));
    out.extend(fixed_lines());
    for n in 1..=cases {
        out.push(format!("# case {} seed {}", n, seed));
        let lines = r.range(6, 10);
        for _ in 0..lines {
            if r.chance(3, 100) {
                let _ = gen_malformed(&mut r); // drawn but not emitted, see fixed_lines()
                continue;
            }
            let l = match r.below(20) {
                0..=3 => gen_hash(&mut r),
                4..=8 => gen_bt(&mut r),
                9..=11 => gen_btf(&mut r),
                12..=14 => gen_trie(&mut r),
                15..=17 => gen_lf(&mut r),
                _ => gen_lf2(&mut r),
            };
            out.push(l);
        }
    }
    if std::env::var("VH_STATS").map(|v| v == "1").unwrap_or(false) {
        stats(&out[start..]);
    }
}

// ───────────────────────── statistics (VH_STATS=1) ─────────────────────────

fn bump(m: &mut BTreeMap<String, usize>, k: &str) {
    *m.entry(k.to_string()).or_insert(0) += 1;
}

fn stat_prog<K: Key + PartialOrd>(
    kind: &str,
    prog: &str,
    ordered: bool,
    ops: &mut BTreeMap<String, usize>,
    shapes: &mut BTreeMap<String, (usize, usize, usize)>,
) -> bool {
    let p: Vec<Op<K>> = match p_prog(prog, ordered) {
        Some(p) => p,
        None => return false,
    };
    for op in &p {
        let l = match op {
            Op::Ins(..) => "i",
            Op::Rem(..) => "r",
            Op::Get(..) => "g",
            Op::Has(..) => "c",
            Op::Len => "l",
            Op::Empty => "e",
            Op::Clear => "x",
            Op::Min => "m",
            Op::Max => "M",
            Op::Range(..) => "R",
        };
        bump(ops, &format!("{}.{}", kind, l));
        if let Op::Range(lo, hi) = op {
            let sh = |b: &Bd<K>| match b {
                Bd::U => 'u',
                Bd::I(_) => 'i',
                Bd::E(_) => 'e',
            };
            let e = shapes.entry(format!("{}.({},{})", kind, sh(lo), sh(hi))).or_insert((0, 0, 0));
            e.0 += 1;
            let kk = |b: &Bd<K>| match b {
                Bd::U => None,
                Bd::I(k) | Bd::E(k) => Some(k.clone()),
            };
            if let (Some(a), Some(b)) = (kk(lo), kk(hi)) {
                if a > b {
                    e.1 += 1;
                } else if a == b && matches!(lo, Bd::E(_)) && matches!(hi, Bd::E(_)) {
                    e.2 += 1;
                }
            }
        }
    }
    true
}

fn stats(lines: &[String]) {
    let mut kinds: BTreeMap<String, usize> = BTreeMap::new();
    let mut ops: BTreeMap<String, usize> = BTreeMap::new();
    let mut shapes: BTreeMap<String, (usize, usize, usize)> = BTreeMap::new();
    for line in lines {
        if line.starts_with('#') {
            continue;
        }
        let toks: Vec<&str> = line.split_whitespace().collect();
        let t = &toks[1..];
        let ok = match t.first().copied() {
            Some("hash") if t.len() == 2 => stat_prog::<u64>("hash", t[1], false, &mut ops, &mut shapes),
            Some("bt") if t.len() == 2 => stat_prog::<i64>("bt", t[1], true, &mut ops, &mut shapes),
            Some("btf") if t.len() == 2 => stat_prog::<OrderedFloat>("btf", t[1], true, &mut ops, &mut shapes),
            Some("trie") if t.len() == 3 => match (p_tins(t[1]), p_tqs(t[2])) {
                (Some(ins), Some(qs)) => {
                    for i in &ins {
                        bump(&mut ops, if matches!(i, TIns::Edge(..)) { "trie.insert_edge" } else { "trie.insert" });
                    }
                    for q in &qs {
                        match q {
                            TQ::Len => bump(&mut ops, "trie.l"),
                            TQ::Empty => bump(&mut ops, "trie.z"),
                            TQ::Get(_) => bump(&mut ops, "trie.g"),
                            TQ::Keys(_) => bump(&mut ops, "trie.k"),
                            TQ::Walk(_, st) => {
                                bump(&mut ops, "trie.w");
                                for s in st {
                                    bump(
                                        &mut ops,
                                        match s {
                                            Step::Next => "walk.n",
                                            Step::Seek(_) => "walk.s",
                                            Step::Key => "walk.k",
                                            Step::Valid => "walk.v",
                                            Step::Open => "walk.o",
                                        },
                                    );
                                }
                            }
                        }
                    }
                    true
                }
                _ => false,
            },
            Some("lf") if t.len() == 3 => {
                if p_lists(t[1]).is_some() && (t[2] == "a" || t[2].bytes().all(|b| b == b'k' || b == b'n')) {
                    if t[2] == "a" {
                        bump(&mut ops, "lf.a");
                    } else {
                        for c in t[2].chars() {
                            bump(&mut ops, &format!("lf.{}", c));
                        }
                    }
                    true
                } else {
                    false
                }
            }
            Some("lf2") if t.len() == 2 => p_lf2(t[1]).is_some(),
            _ => false,
        };
        if ok {
            bump(&mut kinds, t[0]);
        } else {
            bump(&mut kinds, "(malformed)");
        }
    }
    eprintln!("idx stats: lines per kind");
    for (k, n) in &kinds {
        eprintln!("  {:<14} {}", k, n);
    }
    eprintln!("idx stats: ops per letter");
    for (k, n) in &ops {
        eprintln!("  {:<18} {}", k, n);
    }
    eprintln!("idx stats: range ops per bound shape (total / inverted / equal-both-excluded)");
    for (k, (n, inv, eqx)) in &shapes {
        eprintln!("  {:<12} {} / {} / {}", k, n, inv, eqx);
    }
}
