//! Stream `alg2` — the graph algorithms of `grafeo_adapters::plugins::algorithms` (C19), compared
//! with executable Lean models of the algorithms' own loops (`Model/Algo2.lean`).
//!
//! Stateless lines that carry the whole graph:
//!
//!   alg2 <op> <n> <edges> [<source>]     edges = `u>v:w,…` or `-`; nodes are 0..n-1
//!   alg2 uf <n> <script>                 script = `u.x.y,f.x,c.x.y,…` on a fresh UnionFind::new(n)
//!
//! Outputs are the real results; only what depends on hash-map iteration is canonicalised:
//!
//!   bfs            discovery order `0,2,1` (`-` when empty)
//!   bfs.layers     layers in discovery order `0|2,1|3`
//!   dfs            finish (post-) order
//!   wcc            component id of node 0,1,…  (ids are handed out in node order)
//!   scc            the partition `0,1|2|3,4` (classes sorted, ordered by least element)
//!   topo           `none`, or `valid` / `invalid` after checking the returned order here
//!                  (the initial queue is a hash-map iteration)
//!   kruskal        chosen edges in order `u>v:w,…/total`
//!   dijkstra, bellman_ford   distance map `v=d,…` sorted by node, `negcycle`
//!   uf             results of the script: union → t/f, find → root, connected → t/f
use crate::util::*;
use grafeo_adapters::plugins::algorithms::{
    UnionFind, bellman_ford, bfs, bfs_layers, connected_components, dfs, dijkstra, kruskal,
    strongly_connected_components, topological_sort,
};
use grafeo_common::types::{NodeId, Value};
use grafeo_core::graph::lpg::LpgStore;
use std::collections::BTreeMap;

type E = (u64, u64, i64);

fn show_edges(es: &[E]) -> String {
    if es.is_empty() {
        return "-".into();
    }
    es.iter().map(|(u, v, w)| format!("{}>{}:{}", u, v, w)).collect::<Vec<_>>().join(",")
}

fn parse_edges(s: &str) -> Option<Vec<E>> {
    if s == "-" || s.is_empty() {
        return Some(vec![]);
    }
    s.split(',')
        .map(|t| {
            let (u, rest) = t.split_once('>')?;
            let (v, w) = rest.split_once(':')?;
            Some((u.parse().ok()?, v.parse().ok()?, w.parse().ok()?))
        })
        .collect()
}

// ------------------------------------------------------------------------------------ generator

fn stat(stats: &mut BTreeMap<&'static str, usize>, k: &'static str) {
    *stats.entry(k).or_default() += 1;
}

fn emit_graph(out: &mut Vec<String>, r: &mut Rng, n: u64, es: &[E], stats: &mut BTreeMap<&'static str, usize>) {
    let g = show_edges(es);
    for op in ["wcc", "topo", "kruskal"] {
        out.push(format!("alg2 {} {} {}", op, n, g));
    }
    let mut sources: Vec<u64> = if n == 0 { vec![0] } else if n <= 4 { (0..n).collect() } else { vec![0, r.below(n), n - 1] };
    if r.chance(1, 8) {
        sources.push(n + r.below(3)); // not a node
        stat(stats, "source-not-a-node");
    }
    sources.dedup();
    for &s in &sources {
        for op in ["bfs", "bfs.layers", "dfs", "dijkstra", "bellman_ford"] {
            if op == "dijkstra" && es.iter().any(|e| e.2 < 0) {
                continue; // outside dijkstra's domain (the real loop need not end)
            }
            out.push(format!("alg2 {} {} {} {}", op, n, g, s));
        }
    }
    if es.iter().any(|e| e.0 == e.1) {
        stat(stats, "self-loop");
    }
    if es.iter().enumerate().any(|(i, a)| es[..i].iter().any(|b| (a.0, a.1) == (b.0, b.1) || (a.0, a.1) == (b.1, b.0))) {
        stat(stats, "parallel");
    }
    if es.is_empty() {
        stat(stats, "no-edges");
    }
}

fn perm(r: &mut Rng, n: u64) -> Vec<u64> {
    let mut p: Vec<u64> = (0..n).collect();
    for i in (1..p.len()).rev() {
        let j = r.below(i as u64 + 1) as usize;
        p.swap(i, j);
    }
    p
}

pub fn generate(seed: u64, cases: usize, out: &mut Vec<String>) {
    let mut r = Rng::new(seed ^ 0x616c6732);
    let mut stats: BTreeMap<&'static str, usize> = BTreeMap::new();
    let fixed: Vec<(u64, Vec<E>)> = vec![
        (0, vec![]),
        (1, vec![]),
        (1, vec![(0, 0, 3)]),
        (2, vec![(0, 1, 5), (0, 1, 1)]),
        (2, vec![(0, 1, 1), (0, 1, 5)]),
        (2, vec![(0, 1, 5), (1, 0, 1)]),
        (2, vec![]),
        (2, vec![(1, 0, 2)]),
        (4, vec![(0, 1, 1), (2, 3, 1)]),
        (3, vec![(0, 1, 0), (1, 2, 0), (2, 0, 0)]),
        (4, vec![(0, 1, 2), (0, 2, 2), (1, 3, 2), (2, 3, 2), (0, 3, 4)]),
        (3, vec![(0, 1, 4), (1, 2, 4), (0, 2, 1), (2, 1, 1)]),
        (4, vec![(0, 1, 3), (1, 2, 3), (0, 2, 3), (0, 2, 1), (3, 3, 0)]),
        (5, vec![(0, 2, 1), (0, 1, 1), (2, 3, 1), (1, 3, 1), (3, 4, 1), (4, 0, 1)]),
        (6, vec![(5, 4, 2), (4, 3, 2), (3, 2, 2), (2, 1, 2), (1, 0, 2)]), // long chain: deep find
        (3, vec![(0, 1, -1), (1, 2, -1), (2, 0, -1)]),                    // negative cycle
        (3, vec![(0, 1, 5), (0, 2, 2), (2, 1, -4)]),
    ];
    for (i, (n, es)) in fixed.iter().enumerate() {
        out.push(format!("# case fixed{} seed {}", i, seed));
        emit_graph(out, &mut r, *n, es, &mut stats);
    }
    out.push(format!("# case fixeduf seed {}", seed));
    for l in [
        "alg2 uf 0 -",
        "alg2 uf 1 f.0,u.0.0,c.0.0",
        "alg2 uf 4 u.0.1,u.2.3,u.1.3,f.3,f.2,f.1,f.0,c.0.3",
        "alg2 uf 4 u.0.1,u.2.3,u.3.1,f.0,f.1,f.2,f.3",
        "alg2 uf 6 u.0.1,u.2.3,u.0.2,u.4.5,u.4.0,f.5,f.3,f.1,c.5.3,u.5.3",
        "alg2 uf 3 f.3",
        "alg2 uf 3 u.0.7",
    ] {
        out.push(l.to_string());
    }
    // union-find scripts
    for c in 0..(cases / 2 + 4) {
        out.push(format!("# case uf{} seed {}", c, seed));
        let n = r.range(1, 10);
        let len = r.range(1, 24);
        let mut ops: Vec<String> = vec![];
        for _ in 0..len {
            let x = r.below(n);
            let y = r.below(n);
            match r.below(10) {
                0..=5 => ops.push(format!("u.{}.{}", x, y)),
                6..=7 => ops.push(format!("f.{}", x)),
                _ => ops.push(format!("c.{}.{}", x, y)),
            }
        }
        // read every root at the end (shows the whole forest up to compression)
        for x in 0..n {
            ops.push(format!("f.{}", x));
        }
        if r.chance(1, 25) {
            ops.push(format!("f.{}", n + r.below(2)));
            stat(&mut stats, "uf-out-of-range");
        }
        stat(&mut stats, "uf-script");
        out.push(format!("alg2 uf {} {}", n, ops.join(",")));
    }
    // structured graphs: cactus shapes, DAGs, random
    for c in 0..cases {
        out.push(format!("# case {} seed {}", c, seed));
        let kind = r.below(6);
        let (n, es): (u64, Vec<E>) = match kind {
            0 => {
                stat(&mut stats, "cactus");
                let mut edges: Vec<(u64, u64)> = vec![];
                let mut n: u64 = 1;
                for _ in 0..r.range(1, 3) {
                    let attach = r.below(n);
                    let len = r.range(3, 5);
                    let first = n;
                    n += len - 1;
                    edges.push((attach, first));
                    for v in first..n - 1 {
                        edges.push((v, v + 1));
                    }
                    edges.push((n - 1, attach));
                }
                for _ in 0..r.below(3) {
                    edges.push((r.below(n), n));
                    n += 1;
                }
                let p = perm(&mut r, n);
                let mut es: Vec<E> = edges
                    .iter()
                    .map(|&(a, b)| {
                        let w = if r.chance(1, 3) { 3 } else { r.below(6) as i64 };
                        if r.chance(2, 3) { (p[a as usize], p[b as usize], w) } else { (p[b as usize], p[a as usize], w) }
                    })
                    .collect();
                for i in (1..es.len()).rev() {
                    let j = r.below(i as u64 + 1) as usize;
                    es.swap(i, j);
                }
                (n, es)
            }
            _ => {
                let n = match r.below(8) {
                    0 => r.below(3),
                    1 => r.range(10, 16),
                    _ => r.range(2, 9),
                };
                let m = if n == 0 {
                    0
                } else {
                    match r.below(4) {
                        0 => r.below(n + 1),
                        1 => r.range(n, 2 * n),
                        _ => r.below(25),
                    }
                };
                let mut es: Vec<E> = Vec::new();
                for _ in 0..m {
                    let (u, v) = match r.below(10) {
                        0 => {
                            let u = r.below(n);
                            (u, u)
                        }
                        1 | 2 if !es.is_empty() => {
                            let (a, b, _) = *r.pick(&es);
                            if r.chance(1, 2) { (a, b) } else { (b, a) }
                        }
                        _ => (r.below(n), r.below(n)),
                    };
                    let w = match r.below(5) {
                        0 => 0,
                        1 => 3,
                        _ => r.below(7) as i64,
                    };
                    es.push((u, v, w));
                }
                if kind == 1 {
                    // acyclic: orient along a random ranking, drop self-loops
                    stat(&mut stats, "dag");
                    let rank = perm(&mut r, n);
                    es = es
                        .iter()
                        .filter(|(u, v, _)| u != v)
                        .map(|&(u, v, w)| if rank[u as usize] < rank[v as usize] { (u, v, w) } else { (v, u, w) })
                        .collect();
                } else {
                    stat(&mut stats, "random");
                }
                (n, es)
            }
        };
        emit_graph(out, &mut r, n, &es, &mut stats);
        if r.chance(1, 4) && n > 0 {
            // negative weights for bellman_ford only (often a negative cycle)
            stat(&mut stats, "negative-weights");
            let neg: Vec<E> = es.iter().map(|&(u, v, w)| (u, v, if r.chance(1, 4) { -(r.below(4) as i64) } else { w })).collect();
            for s in [0, n - 1] {
                out.push(format!("alg2 bellman_ford {} {} {}", n, show_edges(&neg), s));
            }
        }
    }
    if std::env::var("VH_STATS").is_ok() {
        for (k, v) in &stats {
            eprintln!("alg2 stats {:>20} {}", k, v);
        }
        let mut ops: BTreeMap<String, usize> = BTreeMap::new();
        for l in out.iter().filter(|l| l.starts_with("alg2 ")) {
            *ops.entry(l.split(' ').nth(1).unwrap_or("").to_string()).or_default() += 1;
        }
        for (k, v) in &ops {
            eprintln!("alg2 ops   {:>20} {}", k, v);
        }
    }
}

// ------------------------------------------------------------------------------------ runner

fn build(n: u64, es: &[E]) -> LpgStore {
    let store = LpgStore::new();
    for i in 0..n {
        let id = store.create_node(&["N"]);
        assert_eq!(id.0, i, "node ids are expected to be 0..n-1 in creation order");
    }
    for &(u, v, w) in es {
        let e = store.create_edge(NodeId::new(u), NodeId::new(v), "E");
        store.set_edge_property(e, "weight", Value::Float64(w as f64));
    }
    store
}

fn num(f: f64) -> String {
    if f.fract() == 0.0 && f.abs() < 9.0e15 { format!("{}", f as i64) } else { format!("f{:016x}", f.to_bits()) }
}

fn show_dist<'a>(it: impl Iterator<Item = (&'a NodeId, &'a f64)>) -> String {
    let m: BTreeMap<u64, f64> = it.map(|(k, v)| (k.0, *v)).collect();
    if m.is_empty() {
        return "-".into();
    }
    m.iter().map(|(k, v)| format!("{}={}", k, num(*v))).collect::<Vec<_>>().join(",")
}

fn show_list(v: &[NodeId]) -> String {
    let ids: Vec<u64> = v.iter().map(|x| x.0).collect();
    list_arg(&ids)
}

fn show_partition<'a>(it: impl Iterator<Item = (&'a NodeId, &'a u64)>) -> String {
    let mut classes: BTreeMap<u64, Vec<u64>> = BTreeMap::new();
    for (node, comp) in it {
        classes.entry(*comp).or_default().push(node.0);
    }
    let mut cs: Vec<Vec<u64>> = classes.into_values().collect();
    for c in cs.iter_mut() {
        c.sort_unstable();
    }
    cs.sort();
    if cs.is_empty() {
        return "-".into();
    }
    cs.iter().map(|c| join(c)).collect::<Vec<_>>().join("|")
}

fn run_uf(n: usize, script: &str) -> String {
    let mut uf = UnionFind::new(n);
    let mut res: Vec<String> = vec![];
    if script != "-" {
        for op in script.split(',') {
            let parts: Vec<&str> = op.split('.').collect();
            let arg = |i: usize| parts.get(i).and_then(|s| s.parse::<usize>().ok());
            match (parts[0], arg(1), arg(2), parts.len()) {
                ("u", Some(x), Some(y), 3) => res.push(if uf.union(x, y) { "t".into() } else { "f".into() }),
                ("c", Some(x), Some(y), 3) => res.push(if uf.connected(x, y) { "t".into() } else { "f".into() }),
                ("f", Some(x), None, 2) => res.push(format!("{}", uf.find(x))),
                _ => return "bad-op".into(),
            }
        }
    }
    if res.is_empty() { "-".into() } else { res.join(",") }
}

pub fn run(args: &[&str]) -> String {
    let a = args.to_vec();
    guarded(move || {
        if a.len() < 3 {
            return "bad-op".into();
        }
        let op = a[0];
        let Some(n) = a[1].parse::<u64>().ok() else { return "bad-op".into() };
        if op == "uf" {
            if a.len() != 3 {
                return "bad-op".into();
            }
            return run_uf(n as usize, a[2]);
        }
        let Some(es) = parse_edges(a[2]) else { return "bad-op".into() };
        if es.iter().any(|&(u, v, _)| u >= n || v >= n) {
            return "bad-op".into();
        }
        let src = a.get(3).and_then(|s| s.parse::<u64>().ok());
        let w = Some("weight");
        match (op, src) {
            // dijkstra's domain is non-negative weights (with a negative cycle the real loop never ends)
            ("dijkstra", Some(_)) if es.iter().any(|e| e.2 < 0) => "bad-op".into(),
            ("dijkstra", Some(s)) => show_dist(dijkstra(&build(n, &es), NodeId::new(s), w).distances.iter()),
            ("bellman_ford", Some(s)) => {
                let r = bellman_ford(&build(n, &es), NodeId::new(s), w);
                if r.has_negative_cycle { "negcycle".into() } else { show_dist(r.distances.iter()) }
            }
            ("bfs", Some(s)) => show_list(&bfs(&build(n, &es), NodeId::new(s))),
            ("dfs", Some(s)) => show_list(&dfs(&build(n, &es), NodeId::new(s))),
            ("bfs.layers", Some(s)) => {
                let ls = bfs_layers(&build(n, &es), NodeId::new(s));
                if ls.is_empty() { "-".into() } else { ls.iter().map(|l| show_list(l)).collect::<Vec<_>>().join("|") }
            }
            ("wcc", None) => {
                let m: BTreeMap<u64, u64> = connected_components(&build(n, &es)).iter().map(|(k, v)| (k.0, *v)).collect();
                if m.len() as u64 != n || m.keys().any(|&k| k >= n) {
                    return "bad-keys".into();
                }
                let ids: Vec<u64> = m.values().copied().collect();
                list_arg(&ids)
            }
            ("scc", None) => show_partition(strongly_connected_components(&build(n, &es)).iter()),
            ("topo", None) => match topological_sort(&build(n, &es)) {
                None => "none".into(),
                Some(order) => {
                    let mut pos: BTreeMap<u64, usize> = BTreeMap::new();
                    for (i, v) in order.iter().enumerate() {
                        pos.insert(v.0, i);
                    }
                    let perm = order.len() as u64 == n && pos.len() as u64 == n && pos.keys().all(|&k| k < n);
                    if perm && es.iter().all(|(u, v, _)| pos[u] < pos[v]) { "valid".into() } else { "invalid".into() }
                }
            },
            ("kruskal", None) => {
                let r = kruskal(&build(n, &es), w);
                let t: Vec<String> = r.edges.iter().map(|e| format!("{}>{}:{}", e.0.0, e.1.0, num(e.3))).collect();
                format!("{}/{}", if t.is_empty() { "-".to_string() } else { t.join(",") }, num(r.total_weight))
            }
            _ => "bad-op".into(),
        }
    })
}
