//! Stream `algo` — the graph algorithms of `grafeo_adapters::plugins::algorithms` (C19).
//!
//! Stateless lines that carry the whole graph:
//!
//!   algo <op> <n> <edges> [<source>]     edges = `u>v:w,u>v:w,…` or `-`; nodes are 0..n-1
//!
//! Every op builds a fresh `LpgStore` (nodes in id order, edges in list order, weight stored as
//! the Float64 edge property `weight`), calls the real algorithm and prints the part of its result
//! that the definition determines uniquely:
//!
//!   dijkstra, bellman_ford   distance map `v=d,…` sorted by node, `negcycle`, `-` when empty
//!   sssp.agree               `agree` when dijkstra and bellman_ford return the same distance map
//!   dijkstra.paths           `ok` when every `path_to` is a walk from the source whose cheapest cost is the distance
//!   bfs, dfs                 the visited nodes, sorted (duplicates would show)
//!   bfs.layers               `bfs_layers` as `0|1,2|3` (each layer sorted)
//!   wcc, scc                 the partition `0,1|2|3,4` (classes sorted, ordered by least element)
//!   topo                     `none`, or `valid` / `invalid` after checking the returned order here
//!   kruskal                  `<#edges>:<total weight>`
//!   prim                     the same, on a store that holds every listed edge in BOTH directions
//!   prim.cover               `<#edges>` on the directed store
use crate::util::*;
use grafeo_adapters::plugins::algorithms::{
    bellman_ford, bfs, bfs_layers, connected_components, dfs, dijkstra, kruskal, prim, strongly_connected_components,
    topological_sort,
};
use grafeo_common::types::{NodeId, Value};
use grafeo_core::graph::lpg::LpgStore;
use std::collections::BTreeMap;

type E = (u64, u64, i64);

fn show_edges(es: &[E]) -> String {
    if es.is_empty() {
        return "-".into();
    }
    es.iter().map(|(u, v, w)| format!("{}>{}:{}", u, v, w)).collect::<Vec<_>>().join(",")
}

fn parse_edges(s: &str) -> Option<Vec<E>> {
    if s == "-" || s.is_empty() {
        return Some(vec![]);
    }
    s.split(',')
        .map(|t| {
            let (u, rest) = t.split_once('>')?;
            let (v, w) = rest.split_once(':')?;
            Some((u.parse().ok()?, v.parse().ok()?, w.parse().ok()?))
        })
        .collect()
}

// ------------------------------------------------------------------------------------ generator

fn emit_graph(out: &mut Vec<String>, r: &mut Rng, n: u64, es: &[E]) {
    let g = show_edges(es);
    out.push(format!("algo wcc {} {}", n, g));
    out.push(format!("algo scc {} {}", n, g));
    out.push(format!("algo topo {} {}", n, g));
    out.push(format!("algo kruskal {} {}", n, g));
    out.push(format!("algo artic {} {}", n, g));
    out.push(format!("algo bridges {} {}", n, g));
    out.push(format!("algo kcore {} {}", n, g));
    // a source that is not a node once in a while (and always for the empty graph)
    let sources: Vec<u64> = if n == 0 { vec![0] } else { (0..n).collect() };
    for &s in &sources {
        out.push(format!("algo dijkstra {} {} {}", n, g, s));
        out.push(format!("algo bfs {} {} {}", n, g, s));
        out.push(format!("algo dfs {} {} {}", n, g, s));
        out.push(format!("algo prim.cover {} {} {}", n, g, s));
    }
    let mut picks = vec![0u64];
    if n > 1 {
        picks.push(r.below(n));
        picks.push(n - 1);
    }
    if r.chance(1, 8) {
        picks.push(n + r.below(3));
    }
    picks.dedup();
    for s in picks {
        out.push(format!("algo bfs.layers {} {} {}", n, g, s));
        out.push(format!("algo sssp.agree {} {} {}", n, g, s));
        out.push(format!("algo dijkstra.paths {} {} {}", n, g, s));
        out.push(format!("algo prim {} {} {}", n, g, s));
    }
}

fn emit_negative(out: &mut Vec<String>, n: u64, es: &[E]) {
    let g = show_edges(es);
    let sources: Vec<u64> = if n == 0 { vec![0] } else { (0..n).collect() };
    for s in sources {
        out.push(format!("algo bellman_ford {} {} {}", n, g, s));
    }
}

pub fn generate(seed: u64, cases: usize, out: &mut Vec<String>) {
    let mut r = Rng::new(seed ^ 0x616c676f);
    // fixed edge cases first
    let fixed: Vec<(u64, Vec<E>)> = vec![
        (0, vec![]),                                                // empty graph
        (1, vec![]),                                                // single node
        (1, vec![(0, 0, 3)]),                                       // self-loop only
        (2, vec![(0, 1, 5), (0, 1, 1)]),                            // two parallel edges, heavier first
        (2, vec![(0, 1, 1), (0, 1, 5)]),                            // lighter first
        (2, vec![(0, 1, 5), (1, 0, 1)]),                            // antiparallel pair
        (2, vec![]),                                                // disconnected pair
        (2, vec![(1, 0, 2)]),                                       // only an incoming edge at node 0
        (4, vec![(0, 1, 1), (2, 3, 1)]),                            // two components
        (3, vec![(0, 1, 0), (1, 2, 0), (2, 0, 0)]),                 // zero-weight cycle
        (4, vec![(0, 1, 2), (0, 2, 2), (1, 3, 2), (2, 3, 2), (0, 3, 4)]), // equal-cost alternatives
        (3, vec![(0, 1, 4), (1, 2, 4), (0, 2, 1), (2, 1, 1)]),      // detour is cheaper
        (4, vec![(0, 1, 3), (1, 2, 3), (0, 2, 3), (0, 2, 1), (3, 3, 0)]),
    ];
    for (i, (n, es)) in fixed.iter().enumerate() {
        out.push(format!("# case fixed{} seed {}", i, seed));
        emit_graph(out, &mut r, *n, es);
        emit_negative(out, *n, es);
    }
    let fixed_neg: Vec<(u64, Vec<E>)> = vec![
        (1, vec![(0, 0, -1)]),                                      // negative self-loop
        (3, vec![(0, 1, 1), (1, 2, -3), (2, 1, 2)]),                // reachable negative cycle
        (3, vec![(0, 1, 1), (1, 2, -3), (2, 1, 3)]),                // zero cycle with a negative edge
        (4, vec![(0, 1, 1), (2, 3, -2), (3, 2, 1)]),                // negative cycle not reachable from 0, 1
        (3, vec![(0, 1, 5), (0, 2, 2), (2, 1, -4)]),                // negative edge beats the direct one
    ];
    for (i, (n, es)) in fixed_neg.iter().enumerate() {
        out.push(format!("# case fixedneg{} seed {}", i, seed));
        emit_negative(out, *n, es);
    }
    // structured graphs for the connectivity algorithms: cycles glued at shared vertices (every
    // shared vertex is a cut vertex), pendant paths (bridges), random extra chords, random labelling
    for c in 0..(cases / 4 + 6) {
        out.push(format!("# case cactus{} seed {}", c, seed));
        let mut edges: Vec<(u64, u64)> = vec![];
        let mut n: u64 = 1;
        let cycles = r.range(2, 4);
        for _ in 0..cycles {
            let attach = r.below(n);
            let len = r.range(3, 5);
            let first = n;
            n += len - 1;
            edges.push((attach, first));
            for v in first..n - 1 {
                edges.push((v, v + 1));
            }
            edges.push((n - 1, attach));
        }
        for _ in 0..r.below(3) {
            let a = r.below(n);
            edges.push((a, n));
            n += 1;
        }
        if r.chance(1, 3) {
            edges.push((r.below(n), r.below(n)));
        }
        // relabel: a random permutation of the vertex names, random edge order and orientation
        let mut perm: Vec<u64> = (0..n).collect();
        for i in (1..perm.len()).rev() {
            let j = r.below(i as u64 + 1) as usize;
            perm.swap(i, j);
        }
        let mut es: Vec<E> = edges
            .iter()
            .map(|&(a, b)| if r.chance(1, 2) { (perm[a as usize], perm[b as usize], 1) } else { (perm[b as usize], perm[a as usize], 1) })
            .collect();
        for i in (1..es.len()).rev() {
            let j = r.below(i as u64 + 1) as usize;
            es.swap(i, j);
        }
        let g = show_edges(&es);
        out.push(format!("algo artic {} {}", n, g));
        out.push(format!("algo bridges {} {}", n, g));
        out.push(format!("algo kcore {} {}", n, g));
        out.push(format!("algo wcc {} {}", n, g));
    }
    for c in 0..cases {
        out.push(format!("# case {} seed {}", c, seed));
        let n = match r.below(8) {
            0 => r.below(3),
            _ => r.range(2, 9),
        };
        let m = if n == 0 {
            0
        } else {
            match r.below(4) {
                0 => r.below(n + 1),      // sparse: isolated nodes, several components
                1 => r.range(n, 2 * n),
                _ => r.below(21),
            }
        }
        .min(20);
        let mut es: Vec<E> = Vec::new();
        for _ in 0..m {
            let (u, v) = match r.below(10) {
                0 => {
                    let u = r.below(n);
                    (u, u) // self-loop
                }
                1 | 2 if !es.is_empty() => {
                    let (a, b, _) = *r.pick(&es);
                    if r.chance(1, 2) { (a, b) } else { (b, a) } // parallel / antiparallel
                }
                _ => (r.below(n), r.below(n)),
            };
            let w = match r.below(5) {
                0 => 0,
                1 => 3, // equal weights
                _ => r.below(7) as i64,
            };
            es.push((u, v, w));
        }
        emit_graph(out, &mut r, n, &es);
        // an acyclic variant: orient every edge along a random ranking, drop self-loops
        let mut rank: Vec<u64> = (0..n).collect();
        for i in (1..rank.len()).rev() {
            let j = r.below(i as u64 + 1) as usize;
            rank.swap(i, j);
        }
        let dag: Vec<E> = es
            .iter()
            .filter(|(u, v, _)| u != v)
            .map(|&(u, v, w)| if rank[u as usize] < rank[v as usize] { (u, v, w) } else { (v, u, w) })
            .collect();
        out.push(format!("algo topo {} {}", n, show_edges(&dag)));
        out.push(format!("algo scc {} {}", n, show_edges(&dag)));
        // negative weights: (a) re-weighted by a potential, so no negative cycle exists;
        // (b) arbitrary small negative weights (often a negative cycle)
        let pot: Vec<i64> = (0..n).map(|_| r.below(6) as i64).collect();
        let rew: Vec<E> = es.iter().map(|&(u, v, w)| (u, v, w + pot[u as usize] - pot[v as usize])).collect();
        emit_negative(out, n, &rew);
        let neg: Vec<E> = es.iter().map(|&(u, v, w)| (u, v, if r.chance(1, 4) { -(r.below(4) as i64) } else { w })).collect();
        emit_negative(out, n, &neg);
    }
}

// ------------------------------------------------------------------------------------ runner

fn build(n: u64, es: &[E], both_directions: bool) -> LpgStore {
    let store = LpgStore::new();
    for i in 0..n {
        let id = store.create_node(&["N"]);
        assert_eq!(id.0, i, "node ids are expected to be 0..n-1 in creation order");
    }
    for &(u, v, w) in es {
        let e = store.create_edge(NodeId::new(u), NodeId::new(v), "E");
        store.set_edge_property(e, "weight", Value::Float64(w as f64));
        if both_directions && u != v {
            let e = store.create_edge(NodeId::new(v), NodeId::new(u), "E");
            store.set_edge_property(e, "weight", Value::Float64(w as f64));
        }
    }
    store
}

fn num(f: f64) -> String {
    if f.fract() == 0.0 && f.abs() < 9.0e15 { format!("{}", f as i64) } else { format!("f{}", f) }
}

fn show_dist<'a>(it: impl Iterator<Item = (&'a NodeId, &'a f64)>) -> String {
    let m: BTreeMap<u64, f64> = it.map(|(k, v)| (k.0, *v)).collect();
    if m.is_empty() {
        return "-".into();
    }
    m.iter().map(|(k, v)| format!("{}={}", k, num(*v))).collect::<Vec<_>>().join(",")
}

fn show_set(v: &[NodeId]) -> String {
    let mut ids: Vec<u64> = v.iter().map(|x| x.0).collect();
    ids.sort_unstable();
    list_arg(&ids)
}

fn show_partition<'a>(it: impl Iterator<Item = (&'a NodeId, &'a u64)>) -> String {
    let mut classes: BTreeMap<u64, Vec<u64>> = BTreeMap::new();
    for (node, comp) in it {
        classes.entry(*comp).or_default().push(node.0);
    }
    let mut cs: Vec<Vec<u64>> = classes.into_values().collect();
    for c in cs.iter_mut() {
        c.sort_unstable();
    }
    cs.sort();
    if cs.is_empty() {
        return "-".into();
    }
    cs.iter().map(|c| join(c)).collect::<Vec<_>>().join("|")
}

pub fn run(args: &[&str]) -> String {
    let a = args.to_vec();
    guarded(move || {
        if a.len() < 3 {
            return "bad-op".into();
        }
        let op = a[0];
        let Some(n) = a[1].parse::<u64>().ok() else { return "bad-op".into() };
        let Some(es) = parse_edges(a[2]) else { return "bad-op".into() };
        if es.iter().any(|&(u, v, _)| u >= n || v >= n) {
            return "bad-op".into();
        }
        let src = a.get(3).and_then(|s| s.parse::<u64>().ok());
        let w = Some("weight");
        match (op, src) {
            ("dijkstra", Some(s)) => {
                let st = build(n, &es, false);
                show_dist(dijkstra(&st, NodeId::new(s), w).distances.iter())
            }
            ("bellman_ford", Some(s)) => {
                let st = build(n, &es, false);
                let r = bellman_ford(&st, NodeId::new(s), w);
                if r.has_negative_cycle { "negcycle".into() } else { show_dist(r.distances.iter()) }
            }
            ("sssp.agree", Some(s)) => {
                let st = build(n, &es, false);
                let d = show_dist(dijkstra(&st, NodeId::new(s), w).distances.iter());
                let r = bellman_ford(&st, NodeId::new(s), w);
                let b = if r.has_negative_cycle { "negcycle".into() } else { show_dist(r.distances.iter()) };
                if d == b { "agree".into() } else { format!("differ:{}/{}", d, b) }
            }
            ("dijkstra.paths", Some(s)) => {
                let st = build(n, &es, false);
                let r = dijkstra(&st, NodeId::new(s), w);
                let mut targets: Vec<u64> = r.distances.keys().map(|k| k.0).collect();
                targets.sort_unstable();
                for t in targets {
                    let Some(path) = r.path_to(NodeId::new(s), NodeId::new(t)) else { return format!("no-path:{}", t) };
                    if path.first().map(|x| x.0) != Some(s) || path.last().map(|x| x.0) != Some(t) {
                        return format!("bad-ends:{}", t);
                    }
                    let mut cost = 0i64;
                    for p in path.windows(2) {
                        let best = es.iter().filter(|&&(u, v, _)| u == p[0].0 && v == p[1].0).map(|e| e.2).min();
                        match best {
                            Some(c) => cost += c,
                            None => return format!("not-an-edge:{}", t),
                        }
                    }
                    if Some(cost as f64) != r.distance_to(NodeId::new(t)) {
                        return format!("cost-differs:{}", t);
                    }
                }
                "ok".into()
            }
            ("bfs", Some(s)) => show_set(&bfs(&build(n, &es, false), NodeId::new(s))),
            ("dfs", Some(s)) => show_set(&dfs(&build(n, &es, false), NodeId::new(s))),
            ("bfs.layers", Some(s)) => {
                let ls = bfs_layers(&build(n, &es, false), NodeId::new(s));
                if ls.is_empty() { "-".into() } else { ls.iter().map(|l| show_set(l)).collect::<Vec<_>>().join("|") }
            }
            ("wcc", None) => show_partition(connected_components(&build(n, &es, false)).iter()),
            ("scc", None) => show_partition(strongly_connected_components(&build(n, &es, false)).iter()),
            ("topo", None) => match topological_sort(&build(n, &es, false)) {
                None => "none".into(),
                Some(order) => {
                    let mut pos: BTreeMap<u64, usize> = BTreeMap::new();
                    for (i, v) in order.iter().enumerate() {
                        pos.insert(v.0, i);
                    }
                    let perm = order.len() as u64 == n && pos.len() as u64 == n && pos.keys().all(|&k| k < n);
                    if perm && es.iter().all(|(u, v, _)| pos[u] < pos[v]) { "valid".into() } else { "invalid".into() }
                }
            },
            // structure.rs: the graph as a simple undirected graph (adjacency sets)
            ("artic", None) => {
                let mut v: Vec<u64> = grafeo_adapters::plugins::algorithms::articulation_points(&build(n, &es, false)).iter().map(|x| x.0).collect();
                v.sort_unstable();
                if v.is_empty() { "none".into() } else { join(&v) }
            }
            ("bridges", None) => {
                let mut v: Vec<(u64, u64)> = grafeo_adapters::plugins::algorithms::bridges(&build(n, &es, false))
                    .iter()
                    .map(|(a, b)| if a.0 <= b.0 { (a.0, b.0) } else { (b.0, a.0) })
                    .collect();
                v.sort_unstable();
                if v.is_empty() { "none".into() } else { v.iter().map(|(a, b)| format!("{}-{}", a, b)).collect::<Vec<_>>().join(",") }
            }
            ("kcore", None) => {
                let r = grafeo_adapters::plugins::algorithms::kcore_decomposition(&build(n, &es, false));
                let m: BTreeMap<u64, usize> = r.core_numbers.iter().map(|(k, v)| (k.0, *v)).collect();
                if m.is_empty() { "none".into() } else { format!("{}|{}", m.iter().map(|(k, v)| format!("{}:{}", k, v)).collect::<Vec<_>>().join(","), r.max_core) }
            }
            ("kruskal", None) => {
                let r = kruskal(&build(n, &es, false), w);
                let sum: f64 = r.edges.iter().map(|e| e.3).sum();
                if sum != r.total_weight {
                    return "inconsistent".into();
                }
                format!("{}:{}", r.edges.len(), num(r.total_weight))
            }
            ("prim", Some(s)) => {
                let r = prim(&build(n, &es, true), w, Some(NodeId::new(s)));
                format!("{}:{}", r.edges.len(), num(r.total_weight))
            }
            ("prim.cover", Some(s)) => {
                let r = prim(&build(n, &es, false), w, Some(NodeId::new(s)));
                format!("{}", r.edges.len())
            }
            _ => "bad-op".into(),
        }
    })
}
